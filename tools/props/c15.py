"""C15 - excludes protect, deletes are opt-in, dry runs touch nothing."""
import os
import vlib
from . import common, nameclash

TB = ["the matcher / planner level (what `matching an --exclude pattern` means, excluded_never_planned, no_delete_without_flag) is proved in Props/C19.v and tied by C19's exhaustive sweeps; this check is the run level",
      "modelled, not verified: Model/OneWay.v for `sync -r` (as C04), Model/Bisync.v for `bisync` (as C02); `excluded` is applied to a path as spelled by the tree that holds it - the theorems' premise covers every spelling that is a key of one of the trees (directory walks and listings produce one canonical spelling; the example excluded_needs_every_spelling shows the premise cannot be dropped in the model)",
      "ssh replaced by tools/ssh-standin (no sshd in the sandbox)",
      "bisync dry runs: HOME is redirected so that the archive is under the harness's control; the harness oracle compares both trees before/after the dry run, the archive and the printed plan are compared with the extracted model after every operation"]


def blank():
    return dict(stats={}, samples=[], evals=0, distinct=0, dis=0, spec_fail=[])


def merge(a, b, prefix):
    a["stats"].update({prefix + k: val for k, val in b["stats"].items()})
    a["samples"] += b["samples"]
    for k in ("evals", "distinct", "dis"):
        a[k] += b[k]
    a["spec_fail"] += b["spec_fail"]
    return a


def run(prop, tier, seed, replay):
    v = vlib.Verdict(prop, tier, seed)
    st = common.front(v, prop, need_cli=True, profiles=("release",))
    extra = ["--copia", vlib.COPIA, "--standin", os.path.join(vlib.VERIF, "tools", "ssh-standin")]
    # a replay file belongs to one of the two harness commands: one-way cases carry SRC=, bisync histories OPS=
    replay_kind = None
    if replay:
        txt = open(replay).read()
        replay_kind = "c02" if " OPS=" in txt else "c04"
    res1, res2 = blank(), blank()
    if replay_kind in (None, "c04"):
        res1 = common.correspondence(v, st, prop, "c04", "coneway", tier, seed, replay, profiles=("release",), extra=extra,
                                     model_desc="Model/OneWay.v run_oneway (Model/OneWayExec.v ow_exec)",
                                     impl_desc="real `copia sync -r` runs incl. --dry-run (local, push, pull)", only=" C15 ")
    if replay_kind in (None, "c02"):
        res2 = common.correspondence(v, st, prop, "c02", "cbisync", tier, seed, replay, profiles=("release",), extra=["--copia", vlib.COPIA],
                                     model_desc="Model/Bisync.v (bisync_dry / bisync_run along the history)",
                                     impl_desc="real `copia bisync` runs, each preceded by `bisync --dry-run`", only=" C15 ")
    n1, n2 = res1["evals"], res2["evals"]
    res = merge(blank(), res1, "oneway.")
    res = merge(res, res2, "bisync.")
    common.verdict(v, st, prop, res, nameclash.known_match)
    common.proof_coverage(v, st, prop, TB)
    v.coverage.update(dict(
        evaluations=res["evals"], distinct_nontrivial=res["distinct"], oneway_cases=n1, bisync_histories=n2,
        bisync_dry_runs=res2["stats"].get("release.bisync_runs", 0),
        rule="(1) one-way: the generated and corpus cases of the C04 harness (hostile names incl. `*`, `?`, `[..]`, leading dot; 0-2 exclude patterns from {*, *.b, a, `x y`, st*r, wh?t, ?, a/*, */a, it's, [br], .*, c?d, new*, -dash}; --delete on half of them; three directions). Per case the real binary runs `sync -r -n` (both trees are snapshotted before and after: bytes + mtimes), then the real run; the dry run's printed send/delete lists, counters and (unchanged) tree and the real run's result are compared with the extracted model. Oracles on the implementation (tag C15): the dry run changed neither tree; an excluded destination file is neither removed nor modified (also under --delete); without --delete no destination file is removed or modified outside the transfers; every file the real run sent was printed by the dry run. (2) bisync: the histories of the C02 harness (writes, deletes, runs, archive faults); every run is preceded by `bisync --dry-run`, whose printed plan is compared with the model's plan for that state (which the model's real run executes) and which must leave both trees unchanged (tag C15). distinct_nontrivial = distinct one-way cases with a transfer and a skipped file + distinct non-trivial bisync histories as counted by that harness.",
        samples=[s_[:400] for s_ in res["samples"]] or ["(none)"], distribution=res["stats"], disagreements=res["dis"]))
    v.assumptions = TB
    return v.finish()
