"""C16 - the delta is at least as small as textbook greedy rsync."""
import vlib
from . import common

TB = ["modelled, not verified: BLAKE3 as in C01; the textbook scan is Model/Delta.v greedy_lit (independent Rust re-implementation used as search oracle on the implementation)",
      "the k-byte-edit clause is proved as the resynchronisation lemma C16_greedy_resync about the textbook scan (bound |pre|+|tail|); its instantiation to k + 2 blocks is arithmetic on |pre| <= k + 2(bs-1), not a separate theorem (partial)"]


def run(prop, tier, seed, replay):
    v = vlib.Verdict(prop, tier, seed)
    st = common.front(v, prop)
    res = common.correspondence(v, st, prop, "c16", "cdelta", tier, seed, replay, canary_kind="cdelta",
                                model_desc="Model/Delta.v", impl_desc="CopiaSync::delta / AsyncCopiaSync::delta")
    common.verdict(v, st, prop, res, with_previous=True)   # the sync engine object is shared by consecutive cases
    common.proof_coverage(v, st, prop, TB)
    v.coverage.update(dict(
        evaluations=res["evals"], distinct_nontrivial=res["distinct"],
        rule="same generator family as C01 (own salt); oracle on the implementation: literal bytes <= textbook greedy (Rust HashSet implementation), identical source => literal bytes < block size; model vs implementation deltas compared op-for-op (so literal counts are equal to the proved greedy count). distinct_nontrivial = distinct deltas with both a copy and a literal.",
        canary=res.get("canary", {}), samples=res["samples"] or ["(none)"], distribution=res["stats"], disagreements=res["dis"]))
    v.assumptions = TB
    return v.finish()
