"""C08 - bisync is crash-safe: the record never runs ahead of the data."""
import vlib
from . import common

TB = ["modelled, not verified: each libc call is atomic; rename atomically replaces the entry; a killed process takes no further step; fs::copy = one complete copy into the staging file (Model/BisyncSteps.v FData); real durability (what survives power loss) is represented only by the fsync-before-rename ordering obligation - process kills are executed for real",
      "interpose/libvpsched.c: logging mode gives the ordered list of mutating calls of an uninterrupted run (compared with the model's step list); KILL_AT mode kills the process immediately before its k-th mutating call",
      "recovery (re-running bisync after a crash) is proved from the live names and the archive of the crash state (Props/C08.v section 5 and 6: two re-runs always suffice under HashOk/Fresh); staging files are not part of that state - re-runs with a leftover staging file are executed for EVERY kill point by the tie (re-run up to three times, compared with the uninterrupted result), not proved"]


def run(prop, tier, seed, replay):
    v = vlib.Verdict(prop, tier, seed)
    st = common.front(v, prop, need_cli=True, need_shim=True, profiles=("release",))
    extra = ["--copia", vlib.COPIA, "--shim", vlib.SHIM]
    res = common.correspondence(v, st, prop, "c08", "cbicrash", tier, seed, replay, profiles=("release",), extra=extra,
                                model_desc="Model/BisyncSteps.v bisync_steps / crash", impl_desc="real `copia bisync` under the logging / kill-at-k shim", only=" C08 ")
    common.verdict(v, st, prop, res)
    common.proof_coverage(v, st, prop, TB)
    v.coverage.update(dict(
        evaluations=res["stats"].get("release.kill_points", 0) + res["stats"].get("release.scenarios", 0), distinct_nontrivial=res["distinct"],
        rule="the property's scenarios (first run creating files / with differing files, propagate A->B and B->A, delete on A / on B, both-changed conflict, delete-vs-modify, several paths at once; plus random small states in the thorough tier), each with its archive established by a real completed run. Per scenario the ordered list of mutating libc calls of an uninterrupted run is compared with the model's step list, and for EVERY k = 1..N the run is repeated and killed before its k-th mutating call: live trees, staging files and the archive are compared with the model's crash state; oracles: only complete pre-existing versions at non-staging paths, archive old / absent / new, the new archive only with all data in place, every data rename preceded by the fsync of its staging file and before the archive rename, re-running bisync (up to three times) reaches the uninterrupted result. distinct_nontrivial = distinct crashed states.",
        samples=[s_[:300] for s_ in res["samples"]] or ["(none)"], distribution=res["stats"], disagreements=res["dis"]))
    v.assumptions = TB
    return v.finish()
