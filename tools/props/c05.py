"""C05 - patch never reports success on wrong bytes."""
import vlib
from . import common

TB = ["modelled, not verified: BLAKE3 (H quantified); Cursor/tokio File seek+read_exact semantics as the partial [read]; allocation of the copy buffer (vec![0; len] up to 4 GiB) is not modelled - CLI runs execute under ulimit -v and a crash would be observed",
      "executed model: H := identity with the checksum's known preimage supplied by the harness ('!' = none)"]


def known_match(line, case):
    return None


def run(prop, tier, seed, replay):
    v = vlib.Verdict(prop, tier, seed)
    st = common.front(v, prop, need_cli=True)
    extra = ["--copia", vlib.COPIA] if st["cli_ok"] else []
    res = common.correspondence(v, st, prop, "c05", "cpatch", tier, seed, replay, extra=extra,
                                model_desc="Model/Delta.v patch", impl_desc="CopiaSync::patch / AsyncCopiaSync::patch")
    common.verdict(v, st, prop, res, known_match)
    common.proof_coverage(v, st, prop, TB)
    v.coverage.update(dict(
        evaluations=res["evals"], distinct_nontrivial=res["distinct"],
        rule="from valid (basis, delta) pairs, 16 corruption operators (other/truncated/extended/bit-flipped basis; copy offset/length at 0, +-1, |basis|, 2^32-1, 2^63, 2^64-1; ops dropped/duplicated/reordered/retagged; literal edits; source_size/basis_size/block_size/checksum edits; consistent re-hash; far offsets with huge declared basis_size). Each through CopiaSync::patch (shipped + checked profile), AsyncCopiaSync::patch, and a sample through `copia patch` under ulimit -v. Outcome class and output bytes compared with the extracted model; independent oracle: Ok => BLAKE3(out) == delta.checksum; a library call that does not return within 60 s ends the harness (watchdog) and is reported with its input as a hang. distinct_nontrivial = distinct hostile (basis, delta) pairs.",
        samples=res["samples"] or ["(none)"], distribution=res["stats"], disagreements=res["dis"]))
    v.assumptions = TB
    return v.finish()
