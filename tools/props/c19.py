"""C19 - the one-way planner and its pattern matcher equal their set definitions."""
import vlib
from . import common

TB = ["modelled, not verified: std::path (Path::components, PathBuf Eq/Ord = component-wise; Model/Path.v), BTreeMap (sorted association list; insert keeps the old key), slice::sort (stable insertion sort), str::parse::<u64/i64> (Model/Listing.v parse_acc), String::from_utf8_lossy (identity: valid UTF-8 is assumed)",
      "modelled, not verified: GNU find -printf '%s\\t%T@\\t%p\\0' as Model/Listing.v render_listing (decimal size, TAB, decimal whole seconds [. fraction digits], TAB, ./path, NUL); tools/gen_constants.py fails closed if the format string, the separators or the metacharacters in plan.rs/meta.rs change",
      "characters: the matcher/planner model works on Unicode scalar values (the driver decodes the UTF-8 case strings), the listing model on bytes; UTF-8 decoding itself is driver glue",
      "the exhaustive matcher sweep (all patterns <= 4 x texts <= 5 over {a,b,*,?,.,/}; <= 5 x <= 7 thorough) compares the real glob_match with a table-based Rust transcription of the definition; a sample of it plus every disagreement goes through the extracted Coq glob_match AND the extracted Coq definition gm, which validates the Rust transcription against the Coq one"]


def run(prop, tier, seed, replay):
    v = vlib.Verdict(prop, tier, seed)
    st = common.front(v, prop)
    res = common.correspondence(v, st, prop, "c19", "c19", tier, seed, replay, canary_kind="c19",
                                model_desc="Model/{Glob,Plan,Listing}.v", impl_desc="plan.rs glob_match/is_excluded/needs_transfer/build_plan + meta.rs parse_remote_meta_output")
    common.verdict(v, st, prop, res)
    common.proof_coverage(v, st, prop, TB)
    ex = res["stats"].get("release.glob_exhaustive_pairs", 0) + res["stats"].get("checked.glob_exhaustive_pairs", 0)
    v.coverage.update(dict(
        evaluations=res["evals"] + ex, distinct_nontrivial=res["distinct"],
        exhaustive_spaces=dict(
            glob_pairs_per_profile=res["stats"].get("release.glob_exhaustive_pairs", 0),
            glob_pattern_maxlen=res["stats"].get("release.glob_exhaustive_pattern_maxlen", 0),
            glob_text_maxlen=res["stats"].get("release.glob_exhaustive_text_maxlen", 0),
            glob_disagreements=res["stats"].get("release.glob_exhaustive_disagreements", 0),
            plan_4path_cases=res["stats"].get("release.class_plan_exhaustive_4path", 0)),
        rule="matcher: ALL pattern/text pairs up to the stated lengths over {a,b,*,?,.,/} compared in Rust (real glob_match vs table-based definition); a stride sample, every kept disagreement, 2000 metacharacter-in-text pairs, random long and backtrack-heavy pairs through the extracted model (glob_match and gm). is_excluded: random nested/unnormalised paths x pattern lists (empty, '/', trailing '/', with and without '/'). needs_transfer: extreme u64/i64 grid. build_plan: all 7^4 source/destination states of a 4-path universe {a, b/c, *b, b/d.tmp} (absent/absent, only dst, only src, both with same/size/mtime/both differing) x 7 exclude lists x both delete settings, plus random maps of up to 30 nested paths in shuffled insertion order. parse_remote_meta_output: generated find listings (tabs, newlines, dots, non-ASCII in names, fractional/integral/negative/overflowing times, '+' signs, overflowing sizes, missing fields, empty entries, './' variants, duplicate and path-equal keys). Implementation output compared line by line with the extracted model; property oracle = independent Rust set definitions. distinct_nontrivial = distinct case bodies that have a wildcard pattern and non-empty text / a non-empty pattern / a present destination / a non-empty plan / a non-empty parsed listing.",
        canary=res.get("canary", {}), samples=res["samples"] or ["(none)"], distribution=res["stats"], disagreements=res["dis"]))
    v.assumptions = TB
    return v.finish()
