"""Known class F5 (NameClash) of C02/C06: evaluated on a failing bisync history.

A history is in the class when, at some run, the plan has `Conflict(BothChanged):<p>` and the conflict name
q = <p>.conflict-<host>-<first 12 hex of the loser's BLAKE3> is, before that run, live on a side with a content that
is NOT the loser's (an edited conflict copy / a foreign file carrying that name), or live with the loser's content on
exactly one side while the archive records it (Props/C06.v C06_name_clash_one_sided_diverges).
The predicate is evaluated from the case line (digest table, initial trees) and the implementation's state line."""
import os
import re


def _tree(s):
    t = {}
    if s not in ("-", ""):
        for e in s.split(","):
            p, c = e.split("=", 1)
            t[p] = c
    return t


def clash_names(case, impl):
    """returns the set of hex-encoded conflict names q that were in a NameClash state before some run of this history"""
    f = dict(x.split("=", 1) for x in case.split()[1:] if "=" in x)
    digest = {}
    for e in f.get("T", "").split(";"):
        if ":" in e:
            c, d = e.split(":")
            digest[c] = d
    host = bytes.fromhex(f.get("HOST", "")).decode()
    init = {"A": {}, "B": {}}
    for side in ("A", "B"):
        v = f.get(side, "-")
        if v != "-":
            for e in v.split(";"):
                p, c = e.split(":")
                init[side][p] = c
    states = impl.split(" ", 1)[1].split("|") if " " in impl else []
    prev = (init["A"], init["B"], None)
    # writes/deletes between runs are reflected in the states themselves: use the state just before each run
    out = set()
    for st in states:
        g = dict(x.split("=", 1) for x in st.split(";") if "=" in x)
        a, b = _tree(g.get("A", "-")), _tree(g.get("B", "-"))
        z = None if g.get("Z") == "none" else _tree(g.get("Z", "-"))
        plan = g.get("P", "-")
        if plan != "-":
            pa, pb, pz = prev
            for act in plan.split(","):
                m = re.match(r"Conflict\(BothChanged\):([0-9a-f-]+)$", act)
                if not m:
                    continue
                p = m.group(1)
                ca, cb = pa.get(p), pb.get(p)
                if ca is None or cb is None:
                    continue
                da, db = digest.get(ca, ""), digest.get(cb, "")
                loser_c, loser_d = (cb, db) if da >= db else (ca, da)
                q = (bytes.fromhex(p) + (".conflict-%s-%s" % (host, loser_d[:12])).encode()).hex()
                qa, qb = pa.get(q), pb.get(q)
                other = [x for x in (qa, qb) if x is not None and x != loser_c]
                one_sided_recorded = ((qa is None) != (qb is None)) and pz is not None and pz.get(q, "")[:12] == loser_d[:12]
                if other or one_sided_recorded:
                    out.add(q)
        prev = (a, b, z)
    return out


def known_match(line, case, outdir):
    cid = line.split()[0]
    impl = ""
    # histories checked by the oracles only have their line in impl-oracle.txt, if anywhere
    for fn in ("impl.txt", "impl-oracle.txt"):
        p = os.path.join(outdir, fn)
        if impl or not os.path.exists(p):
            continue
        with open(p) as fh:
            for l in fh:
                if l.split(" ", 1)[0] == cid:
                    impl = l.rstrip("\n")
                    break
    try:
        qs = clash_names(case, impl)
    except Exception:
        return None
    if not qs:
        return None
    # the recorded finding is the behaviour of the faithful model (Props/C02.v C02_name_clash_loses_version,
    # Props/C06.v C06_name_clash_one_sided_diverges): a history of the class on which the implementation does something
    # ELSE than the model is a different violation and is reported as new
    mp = os.path.join(outdir, "model.txt")
    if os.path.exists(mp):
        model = ""
        with open(mp) as fh:
            for l in fh:
                if l.split(" ", 1)[0] == cid:
                    model = l.rstrip("\n")
                    break
        if model and model != impl:
            return None
    # the failing subject must be one of the clashing conflict names (a different violation is still reported as new)
    for q in qs:
        name = bytes.fromhex(q).decode(errors="replace")
        # the harness prints names with Rust's {:?}: backslashes and double quotes are escaped there
        dbg = name.replace("\\", "\\\\").replace('"', '\\"')
        if q in line or ('"%s"' % name) in line or name in line or dbg in line:
            return ("class=NameClash an already-live conflict-copy name %r (holding other content, or recorded and present on one side only) "
                    "is reused by a both-changed conflict with the same loser: the edited copy is overwritten / the record and a second run disagree "
                    "(witness corpus/C02/c02-f5-edited-conflict-copy.txt; Props/C02.v C02_name_clash_loses_version)" % name)
    return None
