"""C04 - recursive one-way sync delivers exactly its plan."""
import os
import vlib
from . import common

TB = ["modelled, not verified: a tree is a BTreeMap-like association list path -> (bytes, whole-second mtime) over PathBuf order (Model/Path.v); the three directions differ only in the transport - their effect on the destination tree is the one function Model/OneWay.v run_oneway (validated here against the real binary in all three directions); tokio task scheduling is not modelled: completion orders are quantified (every permutation of the transfer list), --jobs only restricts which are reachable",
      "modelled, not verified (push/pull): bash 5.2 ANSI-C quoting as Model/ShellQuote.v ansi_c_body, GNU xargs -0 as split_nul_aux, the remote `cat > T && [ $(wc -c < T) -eq SIZE ] && mv -f T D && touch -d @secs D` as remote_push, GNU find -printf (C19's listing model); ssh replaced by tools/ssh-standin (no sshd in the sandbox): like ssh it joins its arguments with spaces and runs them with the login shell, so the real bash/cat/mv/touch/find/xargs of this sandbox are exercised",
      "domain: regular files, no file/directory clash between the trees, names not ending in the reserved staging suffix `.copia-tmp`, mtimes at or after the epoch; file modes and symlinks are outside the property's stated domain",
      "failed deliveries (fail oracle) are quantified in the theorems; the binary-level runs exercise the no-failure case (a non-zero exit of a generated run is reported as a specification failure)",
      "staging names are not entries of the modelled trees; `no staging file remains` is checked on the implementation by the harness oracle, the crash behaviour of staging files is C09"]


def run(prop, tier, seed, replay):
    v = vlib.Verdict(prop, tier, seed)
    st = common.front(v, prop, need_cli=True, profiles=("release",))
    extra = ["--copia", vlib.COPIA, "--standin", os.path.join(vlib.VERIF, "tools", "ssh-standin")]
    res = common.correspondence(v, st, prop, "c04", "coneway", tier, seed, replay, profiles=("release",), extra=extra,
                                model_desc="Model/OneWay.v run_oneway (Model/OneWayExec.v ow_exec)",
                                impl_desc="real `copia sync -r` runs (local, push and pull through the ssh stand-in)", only=" C04 ")
    common.verdict(v, st, prop, res)
    common.proof_coverage(v, st, prop, TB)
    v.coverage.update(dict(
        evaluations=res["evals"], distinct_nontrivial=res["distinct"],
        rule="cases = (source tree, destination tree, exclude list, --delete, --jobs in {1,2,4,16}, --verbose, direction in {local, push, pull}) from one SplitMix64 stream plus the directed corpus: up to 6 source files at nesting <= 3 with names from a hostile alphabet (space, single and double quote, backslash, `$HOME`, `*`, `?`, `[..]`, newline, leading dash, non-ASCII incl. one-character names, leading dot, leading/trailing space, trailing newline, tab), contents from 0 B to 300 kB, source mtimes from {0, 1, 10^9 with fractions, 2^31-1, 2^31, 2^32+1} with sub-second parts, per-file destination state in {absent, same size+mtime with other bytes, other size, other (older or newer) mtime with the same or with other bytes of the same size, identical}, up to 2 destination-only files, 0-2 exclude patterns (incl. `?.b`, `ün?`, `??`: `?` facing non-ASCII characters); the exclusion oracle is the independent wildcard definition of C15, not the implementation's matcher. Per case the real binary runs a dry run, the real run and a second run; kind, exit status, plan lists, skipped count, sent/failed counters and the final destination tree (bytes + whole-second mtimes) of the dry and the real run are compared line by line with the extracted model. Independent oracles on the implementation (tag C04): source tree unchanged; exit 0 => every non-excluded source file that was absent or differed in size/mtime is at the destination with the source's bytes and mtime, quick-check matches untouched, --delete removed exactly the non-excluded destination-only files, nothing else created/modified/removed, no staging file left; a non-zero exit is reported. distinct_nontrivial = distinct cases whose plan has both a transfer and a skipped file.",
        samples=[s_[:400] for s_ in res["samples"]] or ["(none)"], distribution=res["stats"], disagreements=res["dis"]))
    v.assumptions = TB
    return v.finish()
