"""C18 - the three-way reconcile decision is exactly the documented table."""
import vlib
from . import common

TB = ["modelled, not verified: BTreeMap<PathBuf, Fingerprint> as a sorted association list (Model/Path.v), sort_unstable + dedup as stable sort + dedup (identical when no two keys of the two maps are path-equal with different spellings; otherwise sort_unstable leaves the retained spelling unspecified), [u8; 32] equality as equality of an arbitrary type with decidable equality",
      "the documented table (docs/specifications/distributed-sync.md, section '3-way reconcile') is transcribed twice, independently of the code's case analysis: Model/Reconcile.v `table` (proved equal to the modelled reconcile_path) and harness/src/c18.rs `table_oracle` (property oracle on the real function); the driver prints the Coq table next to the Rust one on every case"]


def run(prop, tier, seed, replay):
    v = vlib.Verdict(prop, tier, seed)
    st = common.front(v, prop)
    res = common.correspondence(v, st, prop, "c18", "c18", tier, seed, replay, canary_kind="c18",
                                model_desc="Model/Reconcile.v", impl_desc="reconcile.rs reconcile_path/reconcile")
    common.verdict(v, st, prop, res)
    common.proof_coverage(v, st, prop, TB)
    v.coverage.update(dict(
        evaluations=res["evals"], distinct_nontrivial=res["distinct"], exhaustive=True,
        exhaustive_spaces=dict(quotient_triples=res["stats"].get("release.class_quotient_343", 0),
                               trees_3path=res["stats"].get("release.class_trees_3path_exhaustive", 0),
                               equality_patterns_covered=res["stats"].get("release.equality_patterns_covered", 0)),
        rule="reconcile_path: all 343 triples over {absent} + {3 digests} x {File, Symlink} (every equality pattern and type combination), random 32-byte digests from a 4-element pool with a one-bit near miss; reconcile: all 27^3 assignments of {absent, d1, d2} to (a, b, base) on the 3-path universe {a, b/c, b/d} x both trust settings, plus random trees (nested names, symlinks, base-only paths, shuffled insertion). Oracle on the real functions: documented table, mirror symmetry, invariance under an injective renaming of fingerprints, no delete without base, delete only with an equal survivor, tree result = non-Noop table entries over the sorted union. Output compared line by line with the extracted model. equality_patterns_covered counts the distinct (presence, a=b, a=base, b=base) patterns seen (15 exist). distinct_nontrivial = distinct case bodies with at least one side present (paths) / at least one action (trees).",
        canary=res.get("canary", {}), samples=res["samples"] or ["(none)"], distribution=res["stats"], disagreements=res["dis"]))
    v.assumptions = TB
    return v.finish()
