"""C06 - bisync converges, records what it did, and is idempotent."""
from . import c02

TB = c02.TB + ["mtime_irrelevant: the model's trees carry no modification times (true by construction); the tie randomises every mtime independently of contents and compares bytes only. pair_identity (archive file name = BLAKE3 of the two canonical roots) is not modelled; the harness recomputes it to find and validate the archive file",
               "swap_symmetric is proved for one run under the premise that dge is the comparison of a total order on different digests (true of byte-wise >=); the harness re-runs every 4th history with the directories exchanged (own archive) and compares the final trees"]


def run(prop, tier, seed, replay):
    return c02.run(prop, tier, seed, replay, only=" C06 ", tb=TB)
