"""C02 - bisync never loses a file version."""
import vlib
from . import common, nameclash

TB = ["modelled, not verified: both directories as maps path -> bytes of regular files (no symlinks, modes, file/directory clashes between the trees - the property's stated domain); discover_local_fingerprints = BLAKE3 of every file; copy_atomic = read the source now, replace the destination; the archive file as an optional map path -> digest (None = absent / damaged / foreign, decided by Archive::load); BLAKE3 = quantified Hh (premise: no collision between the two files of one path; across a history: injective on the contents in play), executed with the real digests supplied by the harness; PathBuf order = quantified kle (nothing assumed about it by the proofs), executed as component-wise byte order",
      "premise of the theorems, not of the tie: Fresh = for every both-changed path of the plan with loser l and conflict name q: each side holds at q nothing or exactly l, and if exactly one side holds it the record for q is not l's digest (so q absent, l on both sides = the repeated conflict, and l on one side with no/another record = a crash leftover are inside); and distinct both-changed paths have distinct conflict names (proved automatic for the real name format: C06_conflict_name_format_injective). Outside Fresh nothing is proved; it is the documented known class F5 and both parts are shown real by closed witness theorems: (i) q live with another content - an edited conflict copy is overwritten on both sides (C02_name_clash_loses_version); (ii) l at q on exactly one side and recorded - the planned delete removes the re-created copy and the trees end up different (C06_name_clash_one_sided_diverges). The generated histories never write or delete a conflict copy, so the tie stays inside Fresh",
      "the real `copia bisync` binary is run with HOME redirected; the harness's tree snapshotter and its reading of the archive JSON (same version/pair test as Archive::load) are trusted glue"]

RULE = ("histories over 4 paths in 2 directories and a pool of 5 contents (empty, three short, one 40 B / 70 kB): arbitrary initial trees, then 3-12 operations {write(side,path,content) 30 %, delete(side,path) 20 %, bisync 40 %, archive fault 10 % (9 kinds, recorded in the case line as F0..F8: removed, zero length, truncated at a random point, garbage, JSON of the wrong shape, format_version 2, foreign pair hash, only .bak left, the NAME of one root re-pointed to another directory holding the same files - both roots are named through symbolic links)}; one write in three takes the opposite side's exact mtime (operation MA/MB: cp -p / touch -r), one run in twelve is stopped by an injected I/O fault (operation X<k>: the k-th mutating call fails with EIO; such histories are checked by the oracles only); plus directed classes (delete on both sides then recreate, the same conflict repeated with the same loser, an edited conflict copy, fault before a run, a same-size edit carrying the peer's mtime, an I/O fault then plain re-runs, a name that is a directory on one side and becomes a file on the other - checked by the oracles only, the tool refuses such a run); all other mtimes randomised independently of contents. After EVERY operation both trees and the archive are compared with the extracted model's state, and for every run the exit class and the `--dry-run` plan. Oracles on the implementation's own snapshots, per run: C02 - every version present before is on both sides afterwards unless it is what both sides held at the end of the previous completed run and the other side changed/deleted it; C06 - trees equal, archive = tree entry for entry, an immediate second run plans 0 actions, every 4th history re-run with the directories swapped; C07 - after a fault: SAFE no-base banner, no Delete* planned, no path removed; C15 - the dry run touches nothing. distinct_nontrivial = distinct histories with at least 2 runs.")


def run(prop, tier, seed, replay, only=" C02 ", tb=TB):
    v = vlib.Verdict(prop, tier, seed)
    st = common.front(v, prop, need_cli=True, need_shim=True, profiles=("release",))
    extra = ["--copia", vlib.COPIA, "--shim", vlib.SHIM]
    res = common.correspondence(v, st, prop, "c02", "cbisync", tier, seed, replay, profiles=("release",), extra=extra,
                                model_desc="Model/Bisync.v (hrun: state after every operation, exit and plan of every run)",
                                impl_desc="real `copia bisync` on generated histories", only=only)
    common.verdict(v, st, prop, res, nameclash.known_match)
    common.proof_coverage(v, st, prop, tb)
    v.coverage.update(dict(
        evaluations=res["evals"], distinct_nontrivial=res["distinct"], rule=RULE,
        bisync_runs=res["stats"].get("release.bisync_runs", 0),
        runs_with_conflicts=res["stats"].get("release.runs_with_conflicts", 0),
        samples=[s_[:300] for s_ in res["samples"]] or ["(none)"], distribution=res["stats"], disagreements=res["dis"]))
    v.assumptions = tb
    return v.finish()
