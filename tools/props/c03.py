"""C03 - hub commits are a linearizable compare-and-swap: no lost update."""
import vlib
from . import common

TB = ["modelled, not verified: Linux semantics assumed by Model/Hub.v - each gated libc call is atomic; rename atomically replaces the directory entry; flock(LOCK_EX) is mutual exclusion released when its holder dies; a killed process takes no further step; paths are flat names (no file/directory clash between the paths in play); BLAKE3 = quantified Hh, executed instance Hh := identity on contents",
      "interpose/libvpsched.c + harness/src/hubctl.rs (gate-mode scheduler): the shim must not reorder/drop calls; schedules are controlled at libc-call granularity (kernel-internal interleavings inside one call are assumed atomic)",
      "List is used only in quiescent states (C13); requests covered under interleaving: Put, Delete, Get"]


def run(prop, tier, seed, replay):
    v = vlib.Verdict(prop, tier, seed)
    st = common.front(v, prop, need_cli=True, need_shim=True, profiles=("release",))
    extra = ["--copia", vlib.COPIA, "--shim", vlib.SHIM]
    res = common.correspondence(v, st, prop, "c03", "chub", tier, seed, replay, profiles=("release",), extra=extra,
                                model_desc="Model/Hub.v (step/run under the observed schedule)",
                                impl_desc="N real `copia serve` processes under the gate-mode shim", only=" C03 ")
    common.verdict(v, st, prop, res, replay_file="scen.txt")
    common.proof_coverage(v, st, prop, TB)
    v.coverage.update(dict(
        evaluations=res["evals"], distinct_nontrivial=res["distinct"],
        rule="scenarios = initial tree + 2-3 client programs over {Put (content in 1-3 pieces, some with wrong hash / short length), Delete, Get} on shared and distinct paths + a schedule (which server advances one gated libc call next; optional kill), all from one SplitMix64 stream; three scenarios in ten are directed (a Get held just before it opens the file while another server commits content of another length; an overwriting commit held just before its publishing rename while another server reads; the three-party lock hand-off (p0 holds the tree lock, p1 queues, p0 releases, p1 stops before its rename, p2 arrives)), one in six runs every server as pid 1 of its own pid namespace (`unshare --pid --fork`: equal pids in different processes); plus the directed corpus schedules. Each is executed on real `copia serve` processes; replies, final tree and the tree after every essential step are compared with the extracted model run under the same schedule; independently a brute-force linearizability checker (CAS-map spec, real-time order) is run on the observed history. distinct_nontrivial = distinct model-level cases with more than 6 essential steps.",
        samples=res["samples"] or ["(none)"], distribution=res["stats"], disagreements=res["dis"]))
    v.assumptions = TB
    return v.finish()
