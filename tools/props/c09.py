"""C09 - one-way delivery is atomic under a crash at any point."""
import os
import vlib
from . import common

TB = ["modelled, not verified: each libc call is atomic; rename atomically replaces the entry; a killed process takes no further step; for push the remote command `cat > T && [ size ] && mv && touch` is Model/ShellQuote.v remote_push / Model/OneWaySteps.v remote_finish (GNU cat/wc/mv/touch and bash of this sandbox are exercised, not proved); the ssh transport is a stand-in (EOF on the pipe when the sender dies, as an ssh channel close does)",
      "interpose/libvpsched.c KILL_AT mode: the process kills itself immediately BEFORE its k-th mutating call; the calls executed so far and their return values (partial pipe writes) are read from the shim log of that very run",
      "durability across power loss and real sshd session teardown are outside the model"]


def run(prop, tier, seed, replay):
    v = vlib.Verdict(prop, tier, seed)
    st = common.front(v, prop, need_cli=True, need_shim=True, profiles=("release",))
    extra = ["--copia", vlib.COPIA, "--shim", vlib.SHIM, "--standin", os.path.join(vlib.VERIF, "tools", "ssh-standin")]
    res = common.correspondence(v, st, prop, "c09", "ccrash", tier, seed, replay, profiles=("release",), extra=extra,
                                model_desc="Model/OneWaySteps.v run/remote_finish under the observed step prefix",
                                impl_desc="real `copia sync -r --jobs 1` killed before its k-th mutating call", only=" C09 ")
    common.verdict(v, st, prop, res)
    common.proof_coverage(v, st, prop, TB)
    v.coverage.update(dict(
        evaluations=res["stats"].get("release.kill_points", 0), distinct_nontrivial=res["distinct"],
        rule="scenarios = (direction local/push/pull, 1-3 files of 0 B .. several 256 KiB chunks, per-file destination state absent/old version/partial, optional --delete) from one SplitMix64 stream plus the directed multi-chunk push; for EVERY k = 1..N (N = mutating calls of the uninterrupted run; sampled beyond 24 in the quick tier) the run is repeated and killed before its k-th file-system or pipe write call; for push the remote command is left to finish. The destination bytes at every path and the staging files are compared with the extracted step model run on the step prefix read from the shim log; oracles: every non-staging path holds its old or the complete new bytes, files outside the plan unchanged, re-running the same command completes and equals the uninterrupted result. distinct_nontrivial = distinct crashed destination states observed.",
        samples=res["samples"] or ["(none)"], distribution=res["stats"], disagreements=res["dis"]))
    v.assumptions = TB
    return v.finish()
