"""C13 - hub-sync lands the local tree on the hub and skips what is already there."""
import os
import vlib
from . import common, dirclash

TB = ["modelled, not verified: the hub as the CAS-map specification (justified for every interleaving by C03's theorems and tie); discover_local_fingerprints = the local tree in PathBuf order; process spawning, pipes and the ssh transport (replaced by tools/ssh-standin/ssh: no sshd in the sandbox); BLAKE3 (quantified; no collision between the hub's and the local file of one path)",
      "hypothesis made explicit by the proof: no local file under the hub's hidden control directory `.copia/` (such a file is re-sent and conflicts on every later run); no file/directory clash between local and hub paths",
      "stale listings are forced by gating the client's server child under interpose/libvpsched.c while another client commits"]


def run(prop, tier, seed, replay):
    v = vlib.Verdict(prop, tier, seed)
    st = common.front(v, prop, need_cli=True, need_shim=True, profiles=("release",))
    extra = ["--copia", vlib.COPIA, "--shim", vlib.SHIM, "--standin", os.path.join(vlib.VERIF, "tools", "ssh-standin")]
    res = common.correspondence(v, st, prop, "c13", "csync", tier, seed, replay, profiles=("release",), extra=extra,
                                model_desc="Model/HubClient.v hub_sync_from", impl_desc="real `copia hub-sync` runs")
    common.verdict(v, st, prop, res, dirclash.known_match)
    common.proof_coverage(v, st, prop, TB)
    v.coverage.update(dict(
        evaluations=res["evals"] or res["stats"].get("release.runs", 0), distinct_nontrivial=res["distinct"],
        rule="histories of 3-6 hub-sync runs by 1-3 clients with small local trees (paths incl. a space and a quote, and a FILE `d` that clashes with the directory of d/x, d/y - runs with a file/directory clash between the local tree and the hub are checked by the oracles only; contents 0 B - 300 kB, edited between runs; history 0 is the directed stale-listing clash of the known finding DirClashStale) against one hub, target given as a local path or as host:root through the ssh stand-in; a quarter of the later runs have their listing forced stale (the client's server is held at its first staging open while another client commits to the same path). Per run: exit status, the `N sent, M unchanged, K conflict(s)` counters and the hub tree are compared with the extracted model; oracles: exit 0 => every local file on the hub byte-identical (unless superseded by another client's later commit), other hub files untouched, an immediate second run is a no-op; non-zero exit while the hub changed between this run's listing and its Puts => every local file at its path or at its conflict-copy; nothing another client committed after the listing is overwritten. distinct_nontrivial = distinct (hub, local) pairs with both sent and skipped files.",
        samples=[s_[:300] for s_ in res["samples"]] or ["(none)"], distribution=res["stats"], disagreements=res["dis"]))
    v.assumptions = TB
    return v.finish()
