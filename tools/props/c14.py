"""C14 - an unchanged tree is never re-sent."""
import os
import vlib
from . import common

TB = ["modelled, not verified: Model/OneWay.v (trees path -> (bytes, whole-second mtime)); the three mtime paths - local read (SystemTime -> whole seconds), local write (set_modified(secs, 0 ns)), remote write (`touch -d @secs`), remote read (`find -printf %T@` truncated at the dot, C19's listing model) - are represented by the whole-second mtime of the model's trees; that they round-trip for the swept timestamps is what the binary-level second runs check",
      "ssh replaced by tools/ssh-standin (no sshd in the sandbox); real bash/cat/mv/touch/find/xargs of this sandbox",
      "domain as C04: regular files, no file/directory clash, names not ending in `.copia-tmp`, mtimes at or after the epoch up to 2^32+1 (larger values are bounded by what the sandbox file system stores)",
      "the theorems' premise `no delivery failed` is exit status 0 of the first run (exit_zero_iff_no_failure)"]


def run(prop, tier, seed, replay):
    v = vlib.Verdict(prop, tier, seed)
    st = common.front(v, prop, need_cli=True, profiles=("release",))
    extra = ["--copia", vlib.COPIA, "--standin", os.path.join(vlib.VERIF, "tools", "ssh-standin")]
    res = common.correspondence(v, st, prop, "c04", "coneway", tier, seed, replay, profiles=("release",), extra=extra,
                                model_desc="Model/OneWay.v run_oneway (Model/OneWayExec.v ow_exec)",
                                impl_desc="real `copia sync -r` runs (local, push and pull through the ssh stand-in)", only=" C14 ")
    common.verdict(v, st, prop, res)
    common.proof_coverage(v, st, prop, TB)
    second = res["stats"].get("release.second_runs", 0)
    v.coverage.update(dict(
        evaluations=res["evals"], distinct_nontrivial=res["distinct"], second_runs=second,
        rule="the generated and corpus cases of the one-way harness (see C04: hostile names, contents 0 B - 300 kB, source mtimes from {0, 1, 10^9 + .5 s, 10^9 + .999999999 s, 2^31-1, 2^31 + 1 ns, 2^32+1, 1.7*10^9} incl. sub-second parts, every per-file destination state, flag sets over --delete / --exclude / --jobs / --verbose, three directions). After every real run that exits 0 the SAME command is run again on the real binary (second_runs counts them); oracle (tag C14): it prints `Already up to date` / `No files found` or a plan with 0 transfers and 0 deletes, exits 0 and leaves both tree snapshots (bytes and whole-second mtimes) identical. The first run's result is compared with the extracted model, whose second plan is proved empty. distinct_nontrivial = distinct cases whose plan has both a transfer and a skipped file.",
        samples=[s_[:400] for s_ in res["samples"]] or ["(none)"], distribution=res["stats"], disagreements=res["dis"]))
    v.assumptions = TB
    return v.finish()
