"""C17 - rolling checksums equal their definition after any operations."""
import json, os
import vlib
from vlib import log
from . import common

TB = ["modelled, not verified: the Rust compiler's integer semantics (u32/u64 wrap in release, trap with overflow-checks) as written in Model/Checksum.v",
      "window bound of the theorems: 65536 bytes (the library maximum block size); lemmas hold up to 2^28"]


def compare(v, outdir, tag, st):
    """model vs impl, impl vs definition for one profile directory."""
    n_dis = 0
    kinds = {"release": "c17", "checked": "c17-checked"}
    if st["driver_ok"]:
        ok, msg = vlib.run_model_sharded(kinds[tag], os.path.join(outdir, "cases.txt"), os.path.join(outdir, "model.txt"))
        if not ok:
            st["broken"].append(msg)
        else:
            bad = vlib.diff_lines(os.path.join(outdir, "model.txt"), os.path.join(outdir, "impl.txt"))
            if bad:
                n_dis = len(bad)
                cases = open(os.path.join(outdir, "cases.txt")).read().split("\n")
                i = bad[0][0]
                st["broken"].append("correspondence Model/Checksum.v vs src/checksum.rs (%s profile) differs on case line %d" % (tag, i))
                st.setdefault("corr_replay", cases[i] if 0 <= i < len(cases) else "")
    return n_dis


def run(prop, tier, seed, replay):
    v = vlib.Verdict(prop, tier, seed)
    st = common.front(v, prop)
    stats, samples, evals, dis = {}, [], 0, 0
    spec_fail = []
    if st["harness_ok"]:
        for tag in ("release", "checked"):
            outdir = os.path.join(vlib.BUILD, "run", "c17-" + tag)
            extra = ["--replay", replay] if replay else []
            # corpus first
            if not replay:
                cdir = os.path.join(vlib.BUILD, "run", "c17-corpus-" + tag)
                for cf_ in sorted(os.listdir(os.path.join(vlib.VERIF, "corpus", "C17"))):
                    rc, out = vlib.run_harness("c17", cdir, seed, tier, tag, ["--replay", os.path.join(vlib.VERIF, "corpus", "C17", cf_)])
                    if os.path.exists(os.path.join(cdir, "specfail.txt")):
                        spec_fail += [(tag, l, cdir) for l in open(os.path.join(cdir, "specfail.txt")).read().split("\n") if l]
                    dis += compare(v, cdir, tag, st)
            rc, out = vlib.run_harness("c17", outdir, seed, tier, tag, extra)
            if rc != 0:
                st["broken"].append("harness c17 (%s) exited %d: %s" % (tag, rc, out[-300:]))
                continue
            s = json.load(open(os.path.join(outdir, "stats.json")))
            for k, val in s["stats"].items():
                stats[tag + "." + k] = val
            samples += s["samples"][:3]
            evals += s["stats"].get("histories", 0)
            if os.path.exists(os.path.join(outdir, "specfail.txt")):
                spec_fail += [(tag, l, outdir) for l in open(os.path.join(outdir, "specfail.txt")).read().split("\n") if l]
            dis += compare(v, outdir, tag, st)
            if tag == "release" and st["driver_ok"]:
                cok, cn, cmsg = vlib.canary(prop, "c17", os.path.join(outdir, "cases.txt"), tier=tier)
                stats["canary_examples"] = cn
                log("canary: " + cmsg)
                if not cok:
                    st["broken"].append(cmsg)
    # verdict
    for tag, line, outdir in spec_fail[:3]:
        cid = line.split()[0]
        src_file = "soak.txt" if cid.startswith("soak") else "cases.txt"
        case = next((c for c in open(os.path.join(outdir, src_file)).read().split("\n") if c.split(" ")[0] == cid), "")
        v.violation("specfail-%s-%s.txt" % (tag, cid), "# C17: implementation digest differs from the definition (profile %s): %s\n%s" % (tag, line, case),
                    "implementation differs from the definition: " + line[:200])
    if not spec_fail and st["broken"]:
        body = "# C17: no failing input found; what no longer checks:\n" + "\n".join("# " + b for b in st["broken"]) + "\n" + st.get("corr_replay", "")
        v.violation("unproved.txt", body, "; ".join(st["broken"])[:400], found_input=False)
    common.proof_coverage(v, st, prop, TB)
    nontriv = stats.get("release.histories", 0) - stats.get("release.ops_bucket_0-4", 0)
    v.coverage.update(dict(
        evaluations=evals, distinct_nontrivial=max(nontriv, 0),
        rule="histories = New(window) followed by Push/Roll ops, generated from one SplitMix64 stream (classes: window lengths {1,2,3,255..257,512,4096,4999..5001,8192,65520..65522,65530,65535,65536}+random; byte laws uniform/0xFF/0x00/high-sum/ramp/single/sum congruent to a small value mod 65521; roll runs 1..40, 4999..15003, >20000; push-grown; mixed; every 50th history a periodic stream of 3000 (thorough 12000) slides over a sum-aligned window of 65521..65536 bytes). Each history is run on both public types in the shipped and the checked profile, compared op-by-op with the exact-sum definition (Rust i128 oracle) and at checkpoints with the extracted Coq model. Non-trivial = history with more than 4 operations (release profile count).",
        samples=samples or ["(no samples)"], distribution=stats, disagreements=dis))
    v.assumptions = TB
    return v.finish()
