"""Known class of C13 (DirClashStale): evaluated on a failing hub-sync run.

A run is in the class when it exited non-zero, the hub changed between the client's listing and its Puts, and a local
FILE path is a directory on the hub at Put time (or a local path lies under a hub FILE): the server answers
`Error(commit failed: Is a directory)` / cannot create the parent, writes no conflict copy (there is no name under
which it could), and the client stops at the first error reply, so that file and the local files after it are on the
hub in no form.  A run that exits 0 is never in the class."""


def _paths(field):
    if field in ("-", ""):
        return []
    return [bytes.fromhex(e.split(":")[0]).decode(errors="replace") for e in field.split(";") if e]


def known_match(line, case, outdir=None):
    if "C13 non-zero exit and local file" not in line or "file/directory clash" not in line:
        return None
    f = dict(x.split("=", 1) for x in case.split()[1:] if "=" in x)
    local, listing, hub = _paths(f.get("C", "-")), _paths(f.get("L", "-")), _paths(f.get("H", "-"))
    if sorted(listing) == sorted(hub) and f.get("L") == f.get("H"):
        return None  # the hub did not change underneath the run
    clash = [(p, q) for p in local for q in hub if p.startswith(q + "/") or q.startswith(p + "/")]
    if not clash:
        return None
    return ("class=DirClashStale hub-sync stopped on `commit failed` because another client committed, after the listing, a file under a path "
            "where the local tree has a regular file (or a file where the local tree has a directory): that local file and the local files "
            "after it are on the hub in no form (directed history 0 of harness command c13 reproduces it on every run)")
