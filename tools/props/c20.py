"""C20 - codecs round-trip and reject malformed input without crashing."""
import vlib
from . import common

TB = ["modelled, not verified: bincode 1.3.3 + serde 1.0.228 (Model/Bincode.v: fixint little-endian, usize as u64, u32 variant index, u64 counts, bool/Option tag in {0,1}, trailing bytes allowed) - validated by the differential run, not derived from their source",
      "UTF-8 validation is a quantified function `utf8` in the theorems; the executed model receives std::str::from_utf8(..).is_ok() of the one string payload per case from the harness",
      "memory: the model states the frame-buffer reservation (<= MAX_PAYLOAD_SIZE) and serde's cautious pre-reservation (<= 1 MiB); on the implementation a counting global allocator checks the largest single request per decode call; allocation failure itself is not modelled",
      "CLI: `copia delta|patch` observed by exit status, stderr and whether the output file was created, under `ulimit -v 6000000` and `timeout 20`; the engine behind Proceed is C01/C05's subject",
      "block sizes >= 2^32 in a delta file cannot occur (u32 field); usize is 64-bit"]


def known_match(line, case):
    return None


def fresh_cli_binary():
    """The CLI target directory is shared between checkouts (VERIF_REPO): cargo does not re-link release/copia when the
    package it built last for THIS checkout is still fresh, and the two checkouts
    share one unit hash, so a binary of another checkout (with newer mtimes) could be left in place. Whenever the
    checkout changed, drop the copia units so that cargo rebuilds them from the checkout in use."""
    import os
    stamp = os.path.join(vlib.CLI_TARGET, ".c20-repo")
    prev = open(stamp).read() if os.path.exists(stamp) else None
    if prev != vlib.REPO:
        import glob, shutil
        for f in [vlib.COPIA] + glob.glob(os.path.join(vlib.CLI_TARGET, "release", "deps", "copia-*")) \
                + glob.glob(os.path.join(vlib.CLI_TARGET, "release", "deps", "libcopia-*")):
            if os.path.exists(f):
                os.remove(f)
        for d in glob.glob(os.path.join(vlib.CLI_TARGET, "release", ".fingerprint", "copia-*")):
            shutil.rmtree(d, ignore_errors=True)
        os.makedirs(vlib.CLI_TARGET, exist_ok=True)
        open(stamp, "w").write(vlib.REPO)


def run(prop, tier, seed, replay):
    v = vlib.Verdict(prop, tier, seed)
    fresh_cli_binary()
    st = common.front(v, prop, need_cli=True)
    extra = ["--copia", vlib.COPIA] if st["cli_ok"] else []
    res = common.correspondence(v, st, prop, "c20", "c20", tier, seed, replay, extra=extra,
                                model_desc="Model/Protocol.v + Model/Bincode.v",
                                impl_desc="FrameHeader / Message / Codec / bincode::{serialize,deserialize} / copia delta|patch")
    common.verdict(v, st, prop, res, known_match)
    common.proof_coverage(v, st, prop, TB)
    v.coverage.update(dict(
        evaluations=res["evals"], distinct_nontrivial=res["distinct"],
        rule="Encode side: random messages of all seven kinds (extreme integers, empty/large signatures and deltas, empty/long/non-ASCII strings) through Message::encode, Codec::write_message, bincode::serialize(Signature|Delta), FrameHeader::encode - bytes compared with the extracted model. Decode side: the valid encodings (with trailing bytes), every truncation of small ones, single-field corruptions (block size 0 / non power of two / 2^63, counts and lengths at 0, 2^20, 2^32-1, 2^63, 2^64-1, +-1, enum tags, bool/Option bytes, invalid UTF-8, cut multi-byte characters), random edits, random byte strings, a grid of header fields, frames whose length field disagrees with the payload - through FrameHeader::decode/read_from, Message::decode, Codec::read_message, bincode::deserialize under catch_unwind in both profiles; Ok(value)/error kind and the decoded value compared with the model. CLI: `copia delta`/`copia patch` on crafted files (incl. deltas whose Copy runs past the end of the real basis behind a forged basis_size); refusal vs. engine start compared with the Cli model. Oracles on the implementation alone: no panic, no accepted invalid header, re-encode of a decoded value equals the bytes consumed, round trip, frame shape, write refusal exactly above 16 MiB, largest single allocation per call <= 16 MiB (+4 KiB), no signal/timeout. distinct_nontrivial = distinct case lines longer than 30 characters (shipped-profile run).",
        samples=res["samples"] or ["(none)"], distribution=res["stats"], disagreements=res["dis"]))
    v.assumptions = TB
    return v.finish()
