"""C01 - delta round-trip reconstructs the source byte-for-byte."""
import vlib
from . import common

TB = ["modelled, not verified: BLAKE3 (universally quantified H; hypothesis: no collision between a basis block and a block-sized window of the source); rayon par_chunks == chunks; tokio readers; bincode file format of the CLI chain (exercised by the tie, see C20)",
      "executed model instance uses H := identity (only equality of digests matters); strong hashes and the delta checksum are checked against the BLAKE3 crate by the harness",
      "block sizes >= 2^32 (block_size as u32 truncates) are outside the theorem"]


def run(prop, tier, seed, replay):
    v = vlib.Verdict(prop, tier, seed)
    st = common.front(v, prop, need_cli=True)
    extra = ["--copia", vlib.COPIA] if st["cli_ok"] else []
    res = common.correspondence(v, st, prop, "c01", "cdelta", tier, seed, replay, canary_kind="cdelta", extra=extra,
                                model_desc="Model/Delta.v (signature, compute_delta_fast, patch)",
                                impl_desc="Signature::generate / CopiaSync::delta / patch")
    common.verdict(v, st, prop, res, with_previous=True)   # the sync engine object is shared by consecutive cases
    common.proof_coverage(v, st, prop, TB)
    v.coverage.update(dict(
        evaluations=res["evals"], distinct_nontrivial=res["distinct"],
        rule="(basis, source, block size) triples from one SplitMix64 stream: block sizes {512..65536 powers of two} and library-level {1,2,3,7,100,1000,5000,70000}; bases random/0xFF/high-sum/periodic/ramp/binary, some > 64 KiB (parallel signature path); sources identical/insert/delete/replace k bytes at any offset/block permutation/weak-collision blocks/two or three weak-colliding blocks INSIDE the basis with the source using the later ones/unrelated/empty/multi-edit. Each triple: Sync trait + AsyncCopiaSync (randomly fragmented reads) in the shipped and checked profile, signatures+deltas compared op-for-op with the extracted model, patched output compared with the source; every 8th valid-block-size triple also through `copia signature|delta|patch` files and `copia sync`. distinct_nontrivial = distinct deltas containing both a copy and a literal.",
        canary=res.get("canary", {}), samples=res["samples"] or ["(none)"], distribution=res["stats"], disagreements=res["dis"]))
    v.assumptions = TB
    return v.finish()
