"""C11 - a hub client can never reach outside the served directory."""
import vlib
from . import common

TB = ["modelled, not verified: std::path::Path::components / PathBuf::join as written in Model/SafeJoin.v (validated on every generated string against the server's own refusal); kernel path resolution on a symlink-free tree ([resolve]); NAME_MAX/PATH_MAX failures end the session with an I/O error (not a refusal)",
      "interpose/libvpsched.c in logging mode: every request-driven libc file-system call of the server is checked to lie under the served directory (mkdir/stat of an existing ancestor allowed: it opens, creates, renames, removes nothing)"]


def run(prop, tier, seed, replay):
    v = vlib.Verdict(prop, tier, seed)
    st = common.front(v, prop, need_cli=True, need_shim=True, profiles=("release",))
    extra = ["--copia", vlib.COPIA, "--shim", vlib.SHIM]
    res = common.correspondence(v, st, prop, "c11", "crefuse", tier, seed, replay, profiles=("release",), extra=extra,
                                model_desc="Model/SafeJoin.v safe_join", impl_desc="serve.rs safe_join as observed through Error(bad path) replies")
    common.verdict(v, st, prop, res)
    common.proof_coverage(v, st, prop, TB)
    v.coverage.update(dict(
        evaluations=res["evals"] or res["stats"].get("release.accepted", 0) + res["stats"].get("release.refused", 0),
        distinct_nontrivial=res["distinct"],
        rule="path strings from the component grammar {.., ., empty, names, names containing .. as a substring, ..., 255- and 300-byte names, non-ASCII, space, -rf} x separators {/, //} x leading/trailing / plus directed strings (empty, /, ., .., /etc/passwd, ../outside.txt, 5000-byte name); each sent as Get / Put-with-content / Delete followed by a probe Get, six per real session. Checked: refusal == (absolute or has a .. component) == the extracted model's verdict; the probe after a refused request is answered normally; sentinel files outside the served directory unchanged; every logged file-system call lies under the served directory; the same session WITHOUT the refused requests gives identical replies to the others and the same tree. distinct_nontrivial = distinct path strings.",
        samples=res["samples"] or ["(none)"], distribution=res["stats"], disagreements=res["dis"]))
    v.assumptions = TB
    return v.finish()
