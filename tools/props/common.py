"""Shared front part of every property check: constants, lint, proofs, driver, harness."""
import os
import vlib
from vlib import log


def front(v, prop, need_driver=True, need_harness=True, need_cli=False, profiles=("release", "checked")):
    """Returns dict(proof=<check_props result>, driver_ok, harness_ok, cli_ok). Never raises on a broken proof:
    the caller still runs the search for a failing input."""
    st = dict(proof=None, driver_ok=False, harness_ok=False, cli_ok=False, broken=[])
    ok, msg = vlib.gen_constants()
    if not ok:
        st["broken"].append("constants translator: " + msg)
        log("gen_constants failed: " + msg)
    problems = vlib.lint_coq()
    if problems:
        st["broken"].append("lint: " + "; ".join(problems[:5]))
    pr = vlib.check_props(prop)
    st["proof"] = pr
    if not pr["ok"]:
        st["broken"].append(pr["detail"])
        log("PROOF BROKEN: " + pr["detail"])
    else:
        log("proofs: %d/%d theorems of Props/%s.v re-checked; assumptions: %s" % (
            pr["discharged"], pr["obligations"], prop,
            "closed under the global context" if not any(pr["axioms"].values()) else pr["axioms"]))
    if need_driver:
        ok, msg = vlib.build_driver()
        st["driver_ok"] = ok
        if not ok:
            st["broken"].append(msg)
            log(msg)
    if need_harness:
        ok, msg = vlib.build_harness(profiles)
        st["harness_ok"] = ok
        if not ok:
            st["broken"].append(msg)
            log(msg)
    if need_cli:
        ok, msg = vlib.build_cli()
        st["cli_ok"] = ok
        if not ok:
            st["broken"].append(msg)
            log(msg)
    return st


def proof_coverage(v, st, prop, extra_tb=()):
    pr = st["proof"]
    v.coverage.update(dict(
        obligations=pr["obligations"], discharged=pr["discharged"],
        checker_cmd="make -C coq Props/%s.vo  (coqc 8.16.1, full .vo build; Print Assumptions audited)" % prop,
        trusted_base=vlib.TRUSTED_BASE_COMMON + list(extra_tb),
        theorems=pr.get("theorems", []),
        print_assumptions={k: (v2 or ["Closed under the global context"]) for k, v2 in pr["axioms"].items()},
    ))
