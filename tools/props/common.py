"""Shared front part of every property check: constants, lint, proofs, driver, harness."""
import os
import json
import vlib
from vlib import log


def front(v, prop, need_driver=True, need_harness=True, need_cli=False, profiles=("release", "checked"), need_shim=False):
    """Returns dict(proof=<check_props result>, driver_ok, harness_ok, cli_ok). Never raises on a broken proof:
    the caller still runs the search for a failing input."""
    # the build steps share coq/, .build/driver and the cargo target directories: one check builds at a time
    import fcntl
    os.makedirs(vlib.BUILD, exist_ok=True)
    with open(os.path.join(vlib.BUILD, "build.lock"), "w") as lk:
        fcntl.flock(lk, fcntl.LOCK_EX)
        return _front(v, prop, need_driver, need_harness, need_cli, profiles, need_shim)


def _front(v, prop, need_driver, need_harness, need_cli, profiles, need_shim):
    st = dict(proof=None, driver_ok=False, harness_ok=False, cli_ok=False, broken=[])
    ok, msg = vlib.gen_constants()
    if not ok:
        st["broken"].append("constants translator: " + msg)
        log("gen_constants failed: " + msg)
    else:
        # a part of the source that could not be translated concerns only the properties whose models use it
        for pb in vlib.translator_problems(prop):
            st["broken"].append(pb)
            log("translator: " + pb)
    problems = vlib.lint_coq()
    if problems:
        st["broken"].append("lint: " + "; ".join(problems[:5]))
    pr = vlib.check_props(prop)
    st["proof"] = pr
    if not pr["ok"]:
        st["broken"].append(pr["detail"])
        log("PROOF BROKEN: " + pr["detail"])
    else:
        log("proofs: %d/%d theorems of Props/%s.v re-checked; assumptions: %s" % (
            pr["discharged"], pr["obligations"], prop,
            "closed under the global context" if not any(pr["axioms"].values()) else pr["axioms"]))
    if need_driver:
        ok, msg = vlib.build_driver()
        st["driver_ok"] = ok
        if not ok:
            st["broken"].append(msg)
            log(msg)
    if need_harness:
        ok, msg = vlib.build_harness(profiles)
        st["harness_ok"] = ok
        if not ok:
            st["broken"].append(msg)
            log(msg)
    if need_shim:
        ok, msg = vlib.build_shim()
        st["shim_ok"] = ok
        if not ok:
            st["broken"].append(msg)
            log(msg)
    if need_cli:
        ok, msg = vlib.build_cli()
        st["cli_ok"] = ok
        if not ok:
            st["broken"].append(msg)
            log(msg)
    return st


def proof_coverage(v, st, prop, extra_tb=()):
    pr = st["proof"]
    v.coverage.update(dict(
        obligations=pr["obligations"], discharged=pr["discharged"],
        checker_cmd="make -C coq Props/%s.vo  (coqc 8.16.1, full .vo build; Print Assumptions audited)" % prop,
        trusted_base=vlib.TRUSTED_BASE_COMMON + list(extra_tb),
        theorems=pr.get("theorems", []),
        print_assumptions={k: (v2 or ["Closed under the global context"]) for k, v2 in pr["axioms"].items()},
    ))


import json


def correspondence(v, st, prop, cmd, model_kind, tier, seed, replay=None, profiles=("release", "checked"),
                   extra=(), model_desc="", impl_desc="", kind_for=None, timeout=3000, only=None, case_file="cases.txt", strip_model=None,
                   canary_kind=None, canary_pick=None):
    """Generic differential run: harness (per profile) writes cases.txt / impl.txt / specfail.txt / stats.json,
    the extracted model replays cases.txt. Returns dict(stats, samples, evals, distinct, dis, spec_fail[(tag,line,outdir)])."""
    res = dict(stats={}, samples=[], evals=0, distinct=0, dis=0, spec_fail=[])
    if not st["harness_ok"]:
        return res
    runs = []
    cdir = os.path.join(vlib.VERIF, "corpus", prop)
    for tag in profiles:
        if replay:
            runs.append((tag, "replay", ["--replay", replay]))
        else:
            if os.path.isdir(cdir):
                for f in sorted(os.listdir(cdir)):
                    if f.startswith(cmd + "-") or f.startswith("all-"):
                        runs.append((tag, "corpus-" + f, ["--replay", os.path.join(cdir, f)]))
            runs.append((tag, "gen", []))
    for tag, name, rextra in runs:
        # per property: checks that share a harness command (C02/C06/C07, C04/C14/C15, ...) may run side by side
        outdir = os.path.join(vlib.BUILD, "run", "%s-%s-%s-%s" % (prop, cmd, name.replace("/", "_"), tag))
        rc, out = vlib.run_harness(cmd, outdir, seed, tier, tag, list(rextra) + list(extra), timeout=timeout)
        if rc != 0:
            st["broken"].append("harness %s (%s,%s) exited %d: %s" % (cmd, name, tag, rc, out[-300:]))
            # the process died inside the implementation: the case in flight is a concrete failing input when it dies again alone
            inf = os.path.join(outdir, "inflight.txt")
            if os.path.exists(inf) and not replay:
                case = open(inf).read().strip()
                keep = os.path.join(vlib.BUILD, "run", "%s-%s-inflight-%s.txt" % (prop, cmd, tag))
                open(keep, "w").write(case + "\n")
                rc2, out2 = vlib.run_harness(cmd, outdir + "-inflight", seed, tier, tag, ["--replay", keep] + list(extra), timeout=600)
                if rc2 != 0:
                    res.setdefault("died", []).append((tag, case, ("the implementation did not return within the watchdog limit (hang; harness exit 97, again %d when replayed alone) on this input" % rc2) if rc == 97 else "harness process died (exit %d, again %d when replayed alone) while the implementation processed this input: %s" % (rc, rc2, out2[-200:].replace("\n", " "))))
            continue
        s = json.load(open(os.path.join(outdir, "stats.json")))
        if name == "gen" or replay:
            for k, val in s["stats"].items():
                res["stats"][tag + "." + k] = val
            res["samples"] += s["samples"][:3]
            if tag == profiles[0]:
                res["distinct"] += s["stats"].get("distinct_nontrivial", 0)
        res["evals"] += sum(val for k, val in s["stats"].items() if k in ("pairs", "hostile_pairs", "cases", "histories", "scenarios", "sessions"))
        sf = os.path.join(outdir, "specfail.txt")
        if os.path.exists(sf):
            res["spec_fail"] += [(tag, l, outdir) for l in open(sf).read().split("\n") if l and (only is None or only in l)]
        if st["driver_ok"] and os.path.exists(os.path.join(outdir, "cases.txt")):
            mk = kind_for(tag) if kind_for else model_kind
            ok, msg = vlib.run_model_sharded(mk, os.path.join(outdir, "cases.txt"), os.path.join(outdir, "model.txt"))
            if not ok:
                st["broken"].append(msg)
                continue
            if canary_kind and (name == "gen" or replay) and tag == profiles[0]:
                # the extraction canary: a sample of these very cases re-computed inside the kernel
                cok, cn, cmsg = vlib.canary(prop, canary_kind, os.path.join(outdir, "cases.txt"), tier=tier, pick=canary_pick)
                res["canary"] = dict(kind=canary_kind, examples=cn, ok=cok, detail=cmsg)
                log("canary: " + cmsg)
                if not cok:
                    st["broken"].append(cmsg)
            if strip_model:
                import re as _re
                mp = os.path.join(outdir, "model.txt")
                txt = open(mp).read()
                open(mp, "w").write("\n".join(_re.sub(strip_model, "", l) for l in txt.split("\n")))
            bad = vlib.diff_lines(os.path.join(outdir, "model.txt"), os.path.join(outdir, "impl.txt"))
            if bad:
                res["dis"] += len(bad)
                cases = open(os.path.join(outdir, "cases.txt")).read().split("\n")
                i = bad[0][0]
                st["broken"].append("correspondence %s vs %s (%s profile, %s) differs on case line %d: model `%s` impl `%s`" % (
                    model_desc, impl_desc, tag, name, i, bad[0][1][:120], bad[0][2][:120]))
                st.setdefault("corr_replay", cases[i] if 0 <= i < len(cases) else "")
    return res


def case_line(outdir, cid, fname="cases.txt"):
    if not os.path.exists(os.path.join(outdir, fname)):
        fname = "cases.txt"
    # cases-oracle.txt: cases that are checked by the oracles only (not replayed by the model)
    for fn in (fname, "cases-oracle.txt"):
        if not os.path.exists(os.path.join(outdir, fn)):
            continue
        with open(os.path.join(outdir, fn)) as f:
            for c in f:
                if c.split(" ", 1)[0] == cid:
                    return c.rstrip("\n")
    return ""


def previous_case_line(outdir, cid, fname="cases.txt"):
    """the case line just before the one with this id (engines that carry state from one call to the next need it)"""
    prev = ""
    p = os.path.join(outdir, fname)
    if os.path.exists(p):
        with open(p) as f:
            for c in f:
                if c.split(" ", 1)[0] == cid:
                    return prev
                prev = c.rstrip("\n")
    return ""


def verdict(v, st, prop, res, known_match=None, max_report=3, replay_file="cases.txt", with_previous=False):
    """spec failures -> VIOLATION with replay (or KNOWN-FINDING); else broken proof/correspondence -> no-failing-input-found."""
    reported = 0
    for tag, case, why in res.get("died", [])[:max_report]:
        cid = case.split(" ", 1)[0]
        v.violation("died-%s-%s.txt" % (tag, cid), "# %s: %s\n%s" % (prop, why, case), "%s: %s" % (prop, why[:300]))
        reported += 1
    for tag, line, outdir in res["spec_fail"]:
        cid = line.split()[0]
        case = case_line(outdir, cid, replay_file)
        if with_previous:
            pc = previous_case_line(outdir, cid, replay_file)
            if pc:
                case = pc + "\n" + case
        k = None
        if known_match:
            try:
                k = known_match(line, case, outdir)
            except TypeError:
                k = known_match(line, case)
        if k:
            # a class predicate only suppresses what KNOWN_FINDINGS.txt lists for this property
            import re as _re
            mcls = _re.search(r"class=(\w+)", k)
            listed, _fixed = vlib.load_known(prop)
            if mcls and any(("class=%s " % mcls.group(1)) in kl for kl in listed):
                v.known(k)
                continue
        if reported < max_report:
            # corpus runs number their cases from 0 again: keep their replay files apart
            base = os.path.basename(outdir)
            sfx = ""
            if "-corpus-" in base:
                import hashlib as _h
                sfx = "-corpus" + _h.sha1(base.encode()).hexdigest()[:6]
            v.violation("specfail-%s-%s%s.txt" % (tag, cid, sfx), "# %s: property oracle failed on the implementation (profile %s): %s\n%s" % (prop, tag, line, case),
                        "property fails on the implementation: " + line[:240])
            reported += 1
    if reported == 0 and st["broken"]:
        body = "# %s: no failing input found; what no longer checks:\n" % prop + "\n".join("# " + b.replace("\n", " ")[:600] for b in st["broken"]) + "\n" + st.get("corr_replay", "")
        v.violation("unproved.txt", body, "; ".join(st["broken"])[:500], found_input=False)
