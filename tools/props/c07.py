"""C07 - a lost, damaged or foreign archive never causes a delete."""
from . import c02

TB = c02.TB + ["partial: serde_json is not modelled - `parse` is a quantified function in Model/Archive.v and C07_load_checks shows that whatever it returns only the current format version and the expected pair are trusted; that every damaged byte string fails to parse or fails these checks rests on the fault kinds executed against the real binary (removed, zero length, random truncation point, garbage, JSON of the wrong shape, format_version 2, foreign pair hash, only .bak left), not on a theorem; the exhaustive every-truncation-point sweep of DESIGN 5.14(a) against Archive::load is not built",
               "same runs as C02: the histories with an archive fault before a run; oracle lines tagged C07 (banner present, no Delete* planned, nothing removed, every version on both sides)"]


def run(prop, tier, seed, replay):
    return c02.run(prop, tier, seed, replay, only=" C07 ", tb=TB)
