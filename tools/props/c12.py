"""C12 - the hub's wire input is handled totally, boundedly and in step."""
import os, re
import vlib
from . import common

TB = ["modelled, not verified: the CBOR decoder (ciborium + serde derive) is a Section variable of Model/Wire.v; in the executed instance it is a table produced by calling the REAL read_frame on every candidate payload; its totality/bounded memory on arbitrary bytes is validated by the hostile-CBOR class under `ulimit -v`, not proved",
      "handlers of the executed instance: Model/HubSeq.v (sequential CAS-map semantics + safe_join refusal) on canonical paths; stdin/stdout pipe semantics (read_exact, EOF)",
      "frame-buffer reservations are a model-level trace (not observable on the binary except through the address-space limit)"]


def run(prop, tier, seed, replay):
    v = vlib.Verdict(prop, tier, seed)
    st = common.front(v, prop, need_cli=True, profiles=("release",))
    extra = ["--copia", vlib.COPIA]
    res = common.correspondence(v, st, prop, "c12", "cwire", tier, seed, replay, profiles=("release",), extra=extra,
                                model_desc="Model/Wire.v serve_input + Model/HubSeq.v", impl_desc="real `copia serve` fed the byte string",
                                strip_model=r" A=\S+$")
    common.verdict(v, st, prop, res)
    common.proof_coverage(v, st, prop, TB)
    v.coverage.update(dict(
        evaluations=res["evals"], distinct_nontrivial=res["distinct"],
        rule="input byte strings for one real `copia serve` each: valid sessions built with the real write_frame (Hello/List/Get/Put/Delete incl. refused paths, wrong hashes), then truncated at a random offset / random bytes after the magic / bad or bannered prologue / length prefixes {0,1,2^20-1,2^20,2^20+1,2^31,2^32-1} / duplicated or reordered frames / payload bit flips / hostile CBOR (huge declared lengths, 20000-deep nesting, indefinite maps) / short content then EOF. Observed under ulimit -v and a timeout: exit class, reply stream, final tree - compared with the extracted model; oracles: no signal/timeout, no tree change without an answered request, bad prologue rejected without effect. distinct_nontrivial = distinct inputs with at least two replies.",
        samples=res["samples"] or ["(none)"], distribution=res["stats"], disagreements=res["dis"]))
    v.assumptions = TB
    return v.finish()
