#!/usr/bin/env python3
"""usage: tools/tie_coverage.py [--update]
For every recorded seeded change (seeded/<id>/patch.diff): apply it to a scratch checkout of /repo, run the logic translator
on that checkout into a scratch copy of coq/, and re-check every Proofs/*.v there (regenerated constants feed the model proofs too).  Reports, per change, which
functions the translator refused and which tie proofs no longer check - i.e. whether the change is flagged at proof level,
independently of any generator.  /repo, /verif/coq and .build are not touched.  --update writes seeded/TIE_COVERAGE.md."""
import glob, json, os, re, shutil, subprocess, sys, tempfile
HERE = os.path.dirname(os.path.abspath(__file__))
ROOT = os.path.join(HERE, "..")
S = tempfile.mkdtemp(prefix="vp-tiecov.", dir="/var/tmp")
repo = os.path.join(S, "repo")
subprocess.run(["git", "-C", "/repo", "worktree", "add", "--detach", repo, "HEAD"], check=True, capture_output=True)
coq = os.path.join(S, "coq")
shutil.copytree(os.path.join(ROOT, "coq"), coq)
env = dict(os.environ, VERIF_REPO=repo, VERIF_LOGIC_OUT=os.path.join(coq, "Gen", "LogicGen.v"), VERIF_LOGIC_STATUS=os.path.join(S, "status.json"))
ties = sorted(os.path.basename(f)[:-2] for f in glob.glob(os.path.join(coq, "Proofs", "*.v")))
def run_ties():
    subprocess.run(["python3", os.path.join(HERE, "gen_constants.py")], env=dict(env, VERIF_CONST_OUT=os.path.join(coq, "Gen", "Constants.v"), VERIF_CONST_STATUS=os.path.join(S, "cstatus.json")), capture_output=True)
    try:
        cst = json.load(open(os.path.join(S, "cstatus.json")))
    except Exception:
        cst = {}
    p0 = subprocess.run(["python3", os.path.join(HERE, "gen_checksum.py")], env=dict(env, VERIF_GEN_OUT=os.path.join(coq, "Gen", "ChecksumGen.v")), capture_output=True, text=True)
    subprocess.run(["python3", os.path.join(HERE, "gen_logic.py")], env=env, capture_output=True)
    st = json.load(open(env["VERIF_LOGIC_STATUS"]))
    refused = [f["function"] for f in st.get("failed", [])]
    if "cannot translate" in (p0.stdout + p0.stderr):
        refused.append("rolling checksum (gen_checksum.py)")
    for g in cst.get("failed", []):
        refused.append("constants group %s" % g.get("group"))
    if cst.get("constants_fatal"):
        refused.append("constants (fatal)")
    p = subprocess.run(["timeout", "1500", "make", "-k", "-j8"] + ["Proofs/%s.vo" % t for t in ties], cwd=coq, capture_output=True, text=True)
    broken = sorted(set(re.findall(r"\[Makefile:\d+: (?:Proofs|Gen)/(\w+)\.vo\] Error", p.stdout + p.stderr)))
    return refused, broken
try:
    base_ref, base_bro = run_ties()
    rows = []
    for d in sorted(glob.glob(os.path.join(ROOT, "seeded", "*", "patch.diff"))):
        mid = os.path.basename(os.path.dirname(d))
        a = subprocess.run(["git", "-C", repo, "apply", d], capture_output=True)
        if a.returncode != 0:
            rows.append((mid, None, None))
            continue
        refused, broken = run_ties()
        subprocess.run(["git", "-C", repo, "checkout", "--", "."], check=True)
        subprocess.run(["git", "-C", repo, "clean", "-fdq"], check=True)
        rows.append((mid, [r for r in refused if r not in base_ref], [b for b in broken if b not in base_bro]))
        print(mid, rows[-1][1], rows[-1][2], flush=True)
    flagged = sum(1 for _, r, b in rows if r or b)
    applicable = sum(1 for _, r, b in rows if r is not None)
    lines = ["# Seeded changes flagged by the translator ties alone", "",
             "Produced by `tools/tie_coverage.py` (no generator, no harness: only `tools/gen_logic.py` on the changed checkout and the",
             "`Proofs/*.v` files) - plus `gen_constants.py` and `gen_checksum.py`.  *refused* = the translator no longer accepts the function (fails closed); *broken* = the",
             "function still translates but the generated file or a tie proof no longer checks.  Baseline (unchanged tree): refused %s, broken %s." % (base_ref or "none", base_bro or "none"), "",
             "**%d of %d applicable changes are flagged** (%d recorded; the others no longer apply to HEAD)." % (flagged, applicable, len(rows)), "",
             "| change | refused by the translator | tie proofs that no longer check |", "|---|---|---|"]
    for mid, r, b in rows:
        lines.append("| %s | %s | %s |" % (mid, "(does not apply)" if r is None else ", ".join(r) or "-", "" if b is None else ", ".join(b) or "-"))
    out = "\n".join(lines) + "\n"
    if "--update" in sys.argv:
        open(os.path.join(ROOT, "seeded", "TIE_COVERAGE.md"), "w").write(out)
    print("%d of %d applicable changes flagged" % (flagged, applicable))
finally:
    subprocess.run(["git", "-C", "/repo", "worktree", "remove", "--force", repo], capture_output=True)
    subprocess.run(["git", "-C", "/repo", "worktree", "prune"], capture_output=True)
    shutil.rmtree(S, ignore_errors=True)
