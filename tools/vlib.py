"""Common machinery for ./check: constants regeneration, Coq build + assumption
audit, extraction + OCaml driver, harness build, sharded model runs, verdicts,
evidence.  Everything runs offline from files on disk."""
import concurrent.futures as cf
import glob
import hashlib
import json
import os
import re
import shutil
import subprocess
import sys
import time

VERIF = os.path.dirname(os.path.dirname(os.path.abspath(__file__)))
REPO = os.environ.get("VERIF_REPO", "/repo")
BUILD = os.path.join(VERIF, ".build")
COQ = os.path.join(VERIF, "coq")
NCPU = 16

ALLOWED_AXIOMS = {
    # standard-library axioms only; each use is reported per theorem in the evidence
    "functional_extensionality_dep", "FunctionalExtensionality.functional_extensionality_dep",
    "Coq.Logic.FunctionalExtensionality.functional_extensionality_dep",
    "classic", "Coq.Logic.Classical_Prop.classic", "Classical_Prop.classic",
    "eq_rect_eq", "Eqdep.Eq_rect_eq.eq_rect_eq", "Coq.Logic.Eqdep.Eq_rect_eq.eq_rect_eq",
    "proof_irrelevance", "Coq.Logic.ProofIrrelevance.proof_irrelevance",
    "JMeq_eq", "Coq.Logic.JMeq.JMeq_eq",
}

FORBIDDEN = re.compile(
    r"\b(Admitted|admit|Axiom|Axioms|Parameter|Parameters|Conjecture|Conjectures)\b|Unset\s+Guard|bypass_check|"
    r"type-in-type|impredicative-set|Admit\s+Obligations|Unset\s+Universe\s+Checking|Unset\s+Positivity")

ENV = dict(os.environ, CARGO_NET_OFFLINE="true")


def sh(cmd, timeout=3600, cwd=None, env=None, stdin=None):
    p = subprocess.run(cmd, shell=isinstance(cmd, str), cwd=cwd, env=env or ENV, input=stdin,
                       stdout=subprocess.PIPE, stderr=subprocess.STDOUT, timeout=timeout, text=True, errors="replace")
    return p.returncode, p.stdout


def log(msg):
    print("[check] " + msg, flush=True)


# ---------------------------------------------------------------- constants
def gen_constants():
    """Runs both translators (constants, checksum arithmetic).  Returns (ok, message); ok is False only when a
    translator could produce nothing at all.  Partial failures are in .build/translator_status.json and are turned
    into per-property problems by translator_problems()."""
    rc, out = sh([sys.executable, os.path.join(VERIF, "tools", "gen_constants.py")])
    rc2, out2 = sh([sys.executable, os.path.join(VERIF, "tools", "gen_checksum.py")])
    rc3, out3 = sh([sys.executable, os.path.join(VERIF, "tools", "gen_logic.py")])
    st = {"failed": []}
    sp = os.path.join(BUILD, "translator_status.json")
    if rc in (0, 3) and os.path.exists(sp):
        st = json.load(open(sp))
    st["checksum_translator"] = None if rc2 == 0 else out2.strip()[-400:]
    st["constants_fatal"] = None if rc in (0, 3) else out.strip()[-400:]
    lp = os.path.join(BUILD, "logic_status.json")
    st["logic_failed"] = json.load(open(lp)).get("failed", []) if rc3 in (0, 3) and os.path.exists(lp) else [
        {"function": "*", "group": "*", "source": "tools/gen_logic.py", "why": out3.strip()[-300:]}]
    with open(sp, "w") as f:
        json.dump(st, f, indent=1)
    return rc in (0, 3), (out.strip() + " " + out2.strip() + " " + out3.strip()).strip()


def coq_closure(prop):
    """the .v files (relative to coq/) that Props/<prop>.v depends on, itself included"""
    seen, todo = set(), ["Props/%s.v" % prop]
    while todo:
        f = todo.pop()
        if f in seen or not os.path.exists(os.path.join(COQ, f)):
            continue
        seen.add(f)
        src = strip_comments(open(os.path.join(COQ, f)).read())
        for m in re.finditer(r"From\s+Copia\s+Require\s+(?:Import\s+|Export\s+)?(.*?)\.(?=\s|$)", src, re.S):
            for mod in m.group(1).split():
                todo.append(mod.replace(".", "/") + ".v")
        for m in re.finditer(r"^\s*Require\s+(?:Import\s+|Export\s+)?((?:Copia\.[\w.]+?\s+)*Copia\.[\w.]+?)\.(?=\s|$)", src, re.M):
            for mod in m.group(1).split():
                todo.append(mod[len("Copia."):].replace(".", "/") + ".v")
    return seen


def translator_problems(prop):
    """translator failures that concern this property: a failed constants group whose constants are mentioned in the
    property's Coq dependency closure, or a failed checksum translation when the closure contains the checksum model"""
    sp = os.path.join(BUILD, "translator_status.json")
    if not os.path.exists(sp):
        return []
    st = json.load(open(sp))
    if st.get("constants_fatal"):
        return ["constants translator: " + st["constants_fatal"]]
    files = coq_closure(prop)
    text = "\n".join(strip_comments(open(os.path.join(COQ, f)).read()) for f in files if not f.startswith("Gen/"))
    out = []
    for g in st.get("failed", []):
        used = [k for k in g["constants"] if re.search(r"\b%s\b" % re.escape(k), text)]
        if used:
            out.append("constants translator, group %s: %s (the model of this property uses %s)" % (g["group"], g["why"], ", ".join(used[:6])))
    if st.get("checksum_translator") and "Model/Checksum.v" in files:
        out.append("checksum translator: " + st["checksum_translator"])
    for f in st.get("logic_failed", []):
        # a function that could not be translated concerns the properties whose Props file restates its tie
        if f["group"] == "*" or ("Gen/%sGen.v" % f["group"]) in files:
            out.append("logic translator: %s (%s) could not be translated from the current source: %s" % (f["function"], f["source"], f["why"]))
    return out


# ---------------------------------------------------------------- Coq
def strip_comments(src):
    out, depth, i = [], 0, 0
    while i < len(src):
        if src.startswith("(*", i):
            depth += 1
            i += 2
        elif src.startswith("*)", i) and depth > 0:
            depth -= 1
            i += 2
        else:
            if depth == 0:
                out.append(src[i])
            elif src[i] == "\n":
                out.append("\n")
            i += 1
    return "".join(out)


def lint_coq():
    """Forbidden vernacular anywhere in the development; Variable/Hypothesis/Context only inside a Section."""
    problems = []
    for path in sorted(glob.glob(os.path.join(COQ, "**", "*.v"), recursive=True)):
        rel = os.path.relpath(path, COQ)
        src = strip_comments(open(path, encoding="utf-8").read())
        for n, line in enumerate(src.split("\n"), 1):
            if FORBIDDEN.search(line):
                problems.append("%s:%d: forbidden: %s" % (rel, n, line.strip()[:80]))
        depth = 0
        for n, line in enumerate(src.split("\n"), 1):
            s = line.strip()
            if re.match(r"^(Section|Module\s+Type)\b", s):
                depth += 1 if s.startswith("Section") else 0
            elif re.match(r"^End\b", s) and depth > 0:
                depth -= 1
            elif re.match(r"^(Variable|Variables|Hypothesis|Hypotheses|Context)\b", s) and depth == 0:
                problems.append("%s:%d: %s outside a Section" % (rel, n, s.split()[0]))
    # a double quote inside a comment opens a string in which "*)" does not end the comment: the rest of the file
    # would silently become a comment (and its theorems vanish). Require balanced quotes inside every comment.
    for path in sorted(glob.glob(os.path.join(COQ, "**", "*.v"), recursive=True)):
        raw = open(path, encoding="utf-8").read()
        depth, i, quotes, start = 0, 0, 0, 0
        while i < len(raw):
            if raw.startswith("(*", i):
                if depth == 0:
                    quotes, start = 0, raw.count("\n", 0, i) + 1
                depth += 1
                i += 2
            elif raw.startswith("*)", i) and depth > 0:
                depth -= 1
                i += 2
                if depth == 0 and quotes % 2 == 1:
                    problems.append("%s:%d: odd number of double quotes inside a comment" % (os.path.relpath(path, COQ), start))
            else:
                if depth > 0 and raw[i] == '"':
                    quotes += 1
                i += 1
        if depth != 0:
            problems.append("%s: unterminated comment" % os.path.relpath(path, COQ))
    proj = open(os.path.join(COQ, "_CoqProject")).read()
    if re.search(r"type-in-type|impredicative-set|-vos|-vok|-noinit", proj):
        problems.append("_CoqProject: forbidden flag")
    return problems


def coq_makefile():
    mk = os.path.join(COQ, "Makefile")
    proj = os.path.join(COQ, "_CoqProject")
    if not os.path.exists(mk) or os.path.getmtime(mk) < os.path.getmtime(proj):
        rc, out = sh("coq_makefile -f _CoqProject -o Makefile", cwd=COQ)
        if rc != 0:
            raise RuntimeError("coq_makefile failed: " + out)


def coq_make(targets, timeout=1800):
    coq_makefile()
    rc, out = sh(["timeout", str(timeout), "make", "-j%d" % NCPU] + targets, cwd=COQ, timeout=timeout + 60)
    return rc == 0, out


def parse_assumptions(out):
    """Split coqc output of a Props file into one block per `Print Assumptions`."""
    blocks, cur = [], None
    for line in out.split("\n"):
        if line.startswith("Closed under the global context"):
            blocks.append([])
            cur = None
        elif line.startswith("Axioms:"):
            cur = []
            blocks.append(cur)
        elif cur is not None:
            m = re.match(r"^(\S+)\s*:", line)
            if m:
                cur.append(m.group(1))
            elif line.strip() == "" or not line.startswith(" "):
                if line.strip() and not line.startswith(" "):
                    cur = None
    return blocks


def theorem_names(props_file):
    src = strip_comments(open(props_file, encoding="utf-8").read())
    thms = re.findall(r"^\s*Theorem\s+(\w+)", src, re.M)
    prints = re.findall(r"^\s*Print\s+Assumptions\s+(\w+)\s*\.", src, re.M)
    return thms, prints


def check_props(prop):
    """Recompile Props/<prop>.v (always, so that Print Assumptions output is fresh) and audit it.
    Returns dict(ok, obligations, discharged, axioms{thm:[..]}, detail)."""
    pf = os.path.join(COQ, "Props", prop + ".v")
    thms, prints = theorem_names(pf)
    res = dict(ok=False, obligations=len(thms), discharged=0, axioms={}, detail="", theorems=thms)
    src = strip_comments(open(pf, encoding="utf-8").read())
    # property files contain only statements closed by `exact`
    bodies = re.findall(r"Proof\.(.*?)Qed\.", src, re.S)
    for t in thms:
        if t not in prints:
            res["detail"] = "theorem %s has no Print Assumptions" % t
            return res
    vo = os.path.join(COQ, "Props", prop + ".vo")
    if os.path.exists(vo):
        os.remove(vo)
    ok, out = coq_make(["Props/%s.vo" % prop])
    if not ok:
        m = re.search(r'File "([^"]+)", line (\d+).*?\n(Error:.*?)(?:\n\n|\nmake)', out, re.S)
        res["detail"] = ("proof obligation no longer checks: %s line %s: %s" % (m.group(1), m.group(2), " ".join(m.group(3).split())[:300])) if m else out[-600:]
        res["failed_file"] = m.group(1) if m else "?"
        return res
    blocks = parse_assumptions(out)
    if len(blocks) != len(prints):
        res["detail"] = "expected %d Print Assumptions outputs, saw %d" % (len(prints), len(blocks))
        return res
    bad = []
    for name, ax in zip(prints, blocks):
        res["axioms"][name] = ax
        extra = [a for a in ax if a not in ALLOWED_AXIOMS and a.split(".")[-1] not in ALLOWED_AXIOMS]
        if extra:
            bad.append("%s depends on %s" % (name, ",".join(extra)))
    if bad:
        res["detail"] = "non-allow-listed assumptions: " + "; ".join(bad)
        return res
    res["discharged"] = len(thms)
    res["ok"] = True
    return res


# ---------------------------------------------------------------- extraction / driver
def build_driver():
    ok, out = coq_make(["Extract/Extract.vo"])
    if not ok:
        return False, "extraction failed: " + out[-500:]
    src_ml = os.path.join(COQ, "model.ml")
    d = os.path.join(BUILD, "ocaml")
    os.makedirs(d, exist_ok=True)
    h = hashlib.sha256()
    for p in (src_ml, os.path.join(COQ, "model.mli"), os.path.join(VERIF, "ocaml", "driver.ml")):
        h.update(open(p, "rb").read())
    stamp = os.path.join(d, "stamp")
    exe = os.path.join(BUILD, "driver")
    if os.path.exists(exe) and os.path.exists(stamp) and open(stamp).read() == h.hexdigest():
        return True, "driver up to date"
    for p in (src_ml, os.path.join(COQ, "model.mli"), os.path.join(VERIF, "ocaml", "driver.ml")):
        shutil.copy(p, d)
    rc, out = sh("ocamlfind ocamlopt -O3 -w -a model.mli model.ml driver.ml -o ../driver 2>&1", cwd=d, timeout=900)
    if rc != 0:
        return False, "driver build failed: " + out[-800:]
    open(stamp, "w").write(h.hexdigest())
    return True, "driver rebuilt"


DRIVER = os.path.join(BUILD, "driver")


def run_model_sharded(kind, cases_file, out_file, shards=NCPU, timeout=1800):
    """Run the extracted model over a case file, sharded by line (balanced by byte size); output keeps case order."""
    lines = [l for l in open(cases_file).read().split("\n") if l and not l.startswith("#")]
    if not lines:
        open(out_file, "w").write("")
        return True, ""
    shards = max(1, min(shards, len(lines)))
    order = sorted(range(len(lines)), key=lambda i: -len(lines[i]))
    buckets = [[] for _ in range(shards)]
    load = [0] * shards
    for i in order:
        k = load.index(min(load))
        buckets[k].append(i)
        load[k] += len(lines[i]) + 50
    tmpd = out_file + ".shards"
    shutil.rmtree(tmpd, ignore_errors=True)
    os.makedirs(tmpd)

    def one(k):
        inp = os.path.join(tmpd, "in%d" % k)
        idx = sorted(buckets[k])
        open(inp, "w").write("\n".join(lines[i] for i in idx) + "\n")
        p = subprocess.run(["bash", "-c", "ulimit -s unlimited 2>/dev/null; exec %s %s %s" % (DRIVER, kind, inp)],
                           stdout=subprocess.PIPE, stderr=subprocess.PIPE, timeout=timeout, text=True)
        return k, idx, p.returncode, p.stdout, p.stderr

    results = {}
    with cf.ThreadPoolExecutor(shards) as ex:
        for k, idx, rc, so, se in ex.map(one, range(shards)):
            if rc != 0:
                return False, "driver %s failed: %s" % (kind, se[-300:])
            outl = [l for l in so.split("\n") if l]
            if len(outl) != len(idx):
                return False, "driver %s: %d outputs for %d cases" % (kind, len(outl), len(idx))
            for i, l in zip(idx, outl):
                results[i] = l
    open(out_file, "w").write("\n".join(results[i] for i in range(len(lines))) + "\n")
    shutil.rmtree(tmpd, ignore_errors=True)
    return True, ""


def canary(prop, kind, cases_file, quick_n=48, thorough_n=400, tier="quick", pick=None):
    """Extraction canary: a sample of the SAME case lines the extracted driver ran is turned, by the driver itself,
    into Coq `Example`s (model function applied to the arguments written as Gallina terms = the value the extracted
    code computed) and re-computed inside the kernel with vm_compute.  Returns (ok, n_examples, message)."""
    if not os.path.exists(cases_file) or not os.path.exists(DRIVER):
        return True, 0, "no cases"
    lines = [l for l in open(cases_file).read().split("\n") if l and not l.startswith("#")]
    if pick:
        lines = pick(lines)
    n = thorough_n if tier == "thorough" else quick_n
    # the shortest cases first (kernel evaluation of the spec-style functions is quadratic), spread over the file
    step = max(1, len(lines) // (4 * n))
    sample = sorted(lines[::step], key=len)[:n]
    d = os.path.join(BUILD, "canary", prop + "-" + kind)
    shutil.rmtree(d, ignore_errors=True)
    os.makedirs(d)
    open(os.path.join(d, "sample.txt"), "w").write("\n".join(sample) + "\n")
    p = subprocess.run(["bash", "-c", "ulimit -s unlimited 2>/dev/null; exec %s canary-%s %s" % (DRIVER, kind, os.path.join(d, "sample.txt"))],
                       stdout=subprocess.PIPE, stderr=subprocess.PIPE, timeout=600, text=True)
    if p.returncode != 0:
        return False, 0, "driver canary-%s failed: %s" % (kind, p.stderr[-300:])
    nex = p.stdout.count("\nExample ")
    open(os.path.join(d, "Cases.v"), "w").write(p.stdout)
    if nex == 0:
        return True, 0, "no case small enough for the kernel"
    rc, out = sh(["timeout", "900", "coqc", "-q", "-Q", COQ, "Copia", os.path.join(d, "Cases.v")], timeout=960)
    if rc != 0:
        m = re.search(r"line (\d+).*?\n(Error:.*)", out, re.S)
        which = ""
        if m:
            src = p.stdout.split("\n")
            ln = int(m.group(1)) - 1
            which = (src[ln][:200] if 0 <= ln < len(src) else "") + " :: " + " ".join(m.group(2).split())[:300]
        return False, nex, "extraction canary: the kernel (vm_compute) and the extracted OCaml model disagree: " + (which or out[-400:])
    return True, nex, "%d cases re-computed inside the kernel (vm_compute) agree with the extracted model" % nex


# ---------------------------------------------------------------- Rust side
HARNESS_DIR = os.path.join(VERIF, "harness")
_SUFFIX = "" if REPO == "/repo" else "-" + hashlib.sha256(REPO.encode()).hexdigest()[:8]   # one cargo target dir per checkout
HARNESS_TARGET = os.path.join(BUILD, "harness-target" + _SUFFIX)
GUARD = "copia_verif"


def build_harness(profiles=("release", "checked")):
    """The crate manifest is generated per checkout (VERIF_REPO) into .build/, with absolute paths to the sources under
    harness/, so that runs against different checkouts never share a Cargo.toml / Cargo.lock / target dir."""
    crate = os.path.join(BUILD, "harness-crate" + _SUFFIX)
    os.makedirs(os.path.join(crate, ".cargo"), exist_ok=True)
    shutil.copy(os.path.join(REPO, "Cargo.lock"), os.path.join(crate, "Cargo.lock"))
    toml = open(os.path.join(HARNESS_DIR, "Cargo.toml.in")).read().replace("@REPO@", REPO).replace("@HARNESS@", HARNESS_DIR)
    tp = os.path.join(crate, "Cargo.toml")
    if not os.path.exists(tp) or open(tp).read() != toml:
        open(tp, "w").write(toml)
    cfg = os.path.join(crate, ".cargo", "config.toml")
    if not os.path.exists(cfg):
        open(cfg, "w").write("[net]\noffline = true\n")
    env = dict(ENV, RUSTFLAGS="--cfg %s" % GUARD, CARGO_TARGET_DIR=HARNESS_TARGET, VERIF_REPO=REPO)
    for prof in profiles:
        rc, out = sh(["cargo", "build", "--offline", "--profile", prof, "--manifest-path", tp], cwd=crate, env=env, timeout=3000)
        if rc != 0:
            return False, "harness build (%s) failed:\n%s" % (prof, out[-1500:])
    return True, ""


def harness_exe(profile="release"):
    return os.path.join(HARNESS_TARGET, profile, "copia-verif-harness")


CLI_TARGET = os.path.join(BUILD, "copia-target" + _SUFFIX)


def build_cli():
    """Build the real `copia` binary from /repo's current working tree."""
    env = dict(ENV, RUSTFLAGS="--cfg %s" % GUARD, CARGO_TARGET_DIR=CLI_TARGET)
    rc, out = sh(["cargo", "build", "--offline", "--release", "--features", "cli",
                  "--config", "profile.release.lto=false", "--config", "profile.release.codegen-units=16",
                  "--manifest-path", os.path.join(REPO, "Cargo.toml")], env=env, timeout=3000)
    if rc != 0:
        return False, "copia CLI build failed:\n" + out[-1500:]
    return True, ""


COPIA = os.path.join(CLI_TARGET, "release", "copia")
SHIM = os.path.join(BUILD, "libvpsched.so")


def build_shim():
    rc, out = sh(["make", "-C", os.path.join(VERIF, "interpose")], timeout=300)
    if rc != 0 or not os.path.exists(SHIM):
        return False, "shim build failed: " + out[-500:]
    return True, ""



def run_harness(cmd, outdir, seed, tier, profile="release", extra=(), timeout=3000):
    rc, out = sh([harness_exe(profile), cmd, "--seed", str(seed), "--tier", tier, "--out", outdir] + list(extra), timeout=timeout)
    return rc, out


# ---------------------------------------------------------------- comparing / reporting
def diff_lines(a_file, b_file, limit=5):
    a = open(a_file).read().split("\n")
    b = open(b_file).read().split("\n")
    bad = []
    if len(a) != len(b):
        bad.append((-1, "line count %d vs %d" % (len(a), len(b)), ""))
    for i, (x, y) in enumerate(zip(a, b)):
        if x != y:
            bad.append((i, x, y))
            if len(bad) >= limit:
                break
    return bad


def load_known(prop):
    known, fixed = [], []
    p = os.path.join(VERIF, "KNOWN_FINDINGS.txt")
    if os.path.exists(p):
        for line in open(p):
            line = line.strip()
            if line.startswith("known:") and ("property=%s " % prop) in line:
                known.append(line)
            elif line.startswith("fixed:") and ("property=%s " % prop) in line:
                fixed.append(line)
    return known, fixed


class Verdict:
    def __init__(self, prop, tier, seed):
        self.prop, self.tier, self.seed = prop, tier, seed
        self.t0 = time.time()
        self.violations = []   # (replay_path, note, found_input: bool)
        self.known_hits = []   # text
        self.coverage = {}
        self.assumptions = []
        self.notes = []
        os.makedirs(os.path.join(VERIF, "replays", prop), exist_ok=True)
        # runs against another checkout (VERIF_REPO, used for seeded changes) describe that checkout, not /repo:
        # their evidence goes to .build/ so the committed evidence/ always describes /repo
        self.evdir = os.path.join(VERIF, "evidence") if os.path.realpath(REPO) == "/repo" else os.path.join(BUILD, "evidence-other")
        os.makedirs(self.evdir, exist_ok=True)

    def replay_path(self, name):
        return os.path.join(VERIF, "replays", self.prop, name)

    def violation(self, name, content, note, found_input=True):
        p = self.replay_path(name)
        with open(p, "w") as f:
            f.write(content if content.endswith("\n") else content + "\n")
        if not any(q == p for q, _, _ in self.violations):
            self.violations.append((p, note, found_input))

    def known(self, text):
        # one line per listed finding (class), whatever the number of generated inputs that fall into it
        m = re.search(r"class=(\w+)", text)
        key = m.group(1) if m else text
        if key not in [k for k, _ in getattr(self, "_known_keys", [])]:
            self._known_keys = getattr(self, "_known_keys", []) + [(key, text)]
            self.known_hits.append(text)

    def finish(self, level="proof"):
        cov = self.coverage
        ev = dict(property_id=self.prop, tier=self.tier, seed=self.seed, level=level, coverage=cov,
                  assumptions=self.assumptions, wall_s=round(time.time() - self.t0, 2),
                  violations=len(self.violations), notes=self.notes)
        with open(os.path.join(self.evdir, self.prop + ".json"), "w") as f:
            json.dump(ev, f, indent=1, sort_keys=True)
            f.write("\n")
        for k in self.known_hits:
            print("KNOWN-FINDING: property=%s %s" % (self.prop, k), flush=True)
        for p, note, found in self.violations:
            log(note)
            print("VIOLATION property=%s replay=%s%s" % (self.prop, p, "" if found else " no-failing-input-found"), flush=True)
        return 1 if self.violations else 0


TRUSTED_BASE_COMMON = [
    "Coq 8.16.1 kernel (coqc; vm_compute used in witness/non-vacuity lemmas; native_compute not used)",
    "no axioms declared by the development; Print Assumptions output audited against a standard-library allow-list on every run",
    "tools/gen_constants.py (regex translator of source constants into coq/Gen/Constants.v)",
    "tools/gen_logic.py + tools/rustmini.py (parser and translator of the pure decision functions - Fingerprint::same, reconcile_path, reconcile, cas_decide, needs_transfer, glob_match, is_excluded, build_plan, MessageType::from_u8, FrameHeader::validate, Delta::validate, safe_join - from the current Rust source into coq/Gen/<Group>Gen.v; Proofs/Tie<Group>.v proves generated = model for all inputs; the tables that name model vocabulary for Rust paths/fields/error texts, and the reading of usize index arithmetic as exact, are trusted)",
    "extraction: Require Extraction + ExtrOcamlBasic only (bool/option/unit/list/prod/sumbool/sumor mapped to OCaml types; N/Z/positive/nat extracted as inductives); OCaml 4.13.1 ocamlopt; ocaml/driver.ml parsing/printing glue",
    "correspondence harness (Rust crate /verif/harness: generators, canonicalisation, oracles); BLAKE3 crate as digest oracle",
]
