#!/bin/bash
# usage: tools/try_mutant.sh <checkout-with-the-change-applied> <Cxx> [<Cyy> ...]
# Runs the given checks with every tool pointed at that checkout (VERIF_REPO) instead of /repo.
# Evidence files written by these runs describe the MUTANT: re-run the checks on /repo afterwards.
set -u
cd "$(dirname "$0")/.."
export VERIF_REPO="$1"; shift
for p in "$@"; do
  echo "=== $p on $VERIF_REPO"
  timeout 1800 ./check "$p" 2>&1 | grep -E "VIOLATION|KNOWN-FINDING|PROOF BROKEN|failed|error" | cut -c1-400
  echo "exit=${PIPESTATUS[0]}"
done
# the generated constants file is shared: put back the one that describes /repo
unset VERIF_REPO
python3 tools/gen_constants.py >/dev/null 2>&1 || echo "WARNING: gen_constants on /repo failed"
python3 tools/gen_checksum.py >/dev/null 2>&1 || echo "WARNING: gen_checksum on /repo failed"
python3 tools/gen_logic.py >/dev/null 2>&1 || echo "WARNING: gen_logic on /repo failed"
