#!/usr/bin/env python3
"""usage: tools/record_seeded.py <ID> <meta-json-file>   (copies /tmp/mut/<ID>-work artefacts into seeded/<ID>/)"""
import json, os, shutil, sys
k, mf = sys.argv[1], sys.argv[2]
m = json.load(open(mf))
src = m.pop("_workdir", "/tmp/mut/%s-work" % k)
d = "/verif/seeded/%s" % m.get("id", k)
os.makedirs(d + "/demo", exist_ok=True)
shutil.copy(src + "/patch.diff", d + "/patch.diff")
for f in os.listdir(src):
    if f in ("NOTES.md", "confirm-clean.out", "confirm-mut.out") or f.startswith("demo.") or f.endswith((".c", ".py", ".rs")):
        shutil.copy(os.path.join(src, f), d + "/demo/" + f)
    elif f == "demo-crate" and os.path.isdir(os.path.join(src, f)):
        shutil.copytree(os.path.join(src, f), d + "/demo/demo-crate", dirs_exist_ok=True, ignore=shutil.ignore_patterns("target", "Cargo.lock"))
meta = dict(id=m.get("id", k), origin="independent sub-agent given only the property text and a scratch worktree of /repo")
meta.update(m)
meta.setdefault("confirmed", "by the framework author in the scratch worktree: git diff == patch.diff; builds; tools/baseline.sh <worktree>: 254/254 stable tests pass; the demonstration fails with the change (demo/confirm-mut.out) and passes on a clean checkout (demo/confirm-clean.out)")
json.dump(meta, open(d + "/meta.json", "w"), indent=1)
open(d + "/meta.json", "a").write("\n")
print("recorded", d)
