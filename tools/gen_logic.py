#!/usr/bin/env python3
"""Translator: pure decision functions of /repo's CURRENT Rust source -> coq/Gen/LogicGen.v   (fails closed per function).

Each listed function is parsed (tools/rustmini.py: a recursive-descent parser for a small Rust subset) and translated
construct by construct into Gallina:

  match (with tuple / Option / enum / literal patterns and guards)   ->  match (guards: `if g then body else <the remaining arms>`)
  if / else if / if let / let-else                                   ->  if / match
  let, shadowing, `x = e`, `x += e` on locals                        ->  let (assignments are shadowing lets; the code after a branch
                                                                        is duplicated into the branches, so it sees the new values)
  early `return e`                                                   ->  the value of the enclosing function (or `inr e` inside a loop body)
  while c { body }                                                   ->  LoopLib.while_loop fuel (state = the locals assigned in the body)
  for x in xs { body }                                               ->  LoopLib.for_loop
  Option::map_or / is_some_and / is_some / is_none, closures         ->  match
  == / != / < / <= / > / >= / && / || / !                            ->  typed comparison (by the declared Rust type of the operands)
  usize / u64 arithmetic on indices and lengths                      ->  exact Z arithmetic (an index never reaches 2^64); saturating_add -> Z.min
  v[i], v.len()                                                      ->  LoopLib.nthZ v i, LoopLib.lenZ v

Everything else raises Unsupported, the function is reported as not translated (.build/logic_status.json) and every
property whose Coq closure contains Proofs/LogicTie.v (which proves `generated = model` for each function) fails closed
with the name of that function.  The per-function tables below (how a Rust path / field / error text is written in the
model's vocabulary) are part of the trusted base, like the translator itself.
"""
import json, os, re, sys

HERE = os.path.dirname(os.path.abspath(__file__))
sys.path.insert(0, HERE)
import rustmini as R
from rustmini import Unsupported

REPO = os.environ.get("VERIF_REPO", "/repo")
OUT = os.environ.get("VERIF_LOGIC_OUT", os.path.join(HERE, "..", "coq", "Gen", "LogicGen.v"))   # its directory receives <Group>Gen.v
STATUS = os.environ.get("VERIF_LOGIC_STATUS", os.path.join(HERE, "..", ".build", "logic_status.json"))

INTS = {"u8", "u16", "u32", "u64", "u128", "usize", "i8", "i16", "i32", "i64", "isize", "char", "int"}
WIDTH = {"u8": 8, "u16": 16, "u32": 32, "u64": 64, "usize": 64}


def norm_type(t):
    t = re.sub(r"\s+", "", t or "")
    t = re.sub(r"&('\w+)?(mut)?", "", t)
    return t


class Fn:
    """translation context of one function"""

    def __init__(self, spec):
        self.spec = spec
        self.paths = spec.get("paths", {})          # Rust path (joined by ::, or last segment) -> Gallina text
        self.fields = spec.get("fields", {})        # (type, field) -> (Gallina accessor text template with {0}, field type)
        self.eqs = spec.get("eq", {})               # type -> Gallina binary boolean function text
        self.consts = spec.get("consts", {})        # Rust const name -> (Gallina text, type)
        self.errs = spec.get("errs", [])            # [(regex on the text of an Err(..) argument, Gallina text)]
        self.calls = spec.get("calls", {})          # Rust function path -> (Gallina function text, return type)
        self.structs = spec.get("structs", {})      # struct/variant path -> (Gallina constructor, [field order])
        self.uses_fuel = False
        self.gensym = 0
        self.in_closure = False                     # inside the closure of an inlined call (with_commit_lock(.., || ..))
        self.buffers = {}                           # local fixed-size byte buffer -> its length
        self.handles = {}                           # local file-handle variable -> Gallina text of the path it was opened on

    def fresh(self, base):
        self.gensym += 1
        return "%s_%d" % (base, self.gensym)

    # ------------------------------------------------------------ types
    def ty(self, e, env):
        k = e[0]
        if k == "num":
            return "int"
        if k == "char":
            return "char"
        if k == "bool":
            return "bool"
        if k == "path":
            name = "::".join(e[1])
            if len(e[1]) == 1 and e[1][0] in env:
                return env[e[1][0]]
            if name in self.consts:
                return self.consts[name][1]
            if e[1][-1] in self.consts:
                return self.consts[e[1][-1]][1]
            if e[1][-1] == "None":
                return "Option<?>"
            return None
        if k == "field" and e[2] == "await":
            return self.ty(e[1], env)
        if k == "field":
            t = self.ty(e[1], env)
            if t and (t, e[2]) in self.fields:
                return self.fields[(t, e[2])][1]
            return None
        if k == "slice":
            return self.ty(e[1], env)
        if k == "try" and self.spec.get("try_transparent"):
            return self.ty(e[1], env)
        if k == "index":
            t = self.ty(e[1], env)
            if t:
                m = re.match(r"Vec<(.*)>$|\[(\w+);.*\]$|\[(\w+)\]$", t)
                if m:
                    return m.group(1) or m.group(2) or m.group(3)
            return None
        if k == "mcall":
            if e[2] == "len":
                return "usize"
            if e[2] in ("saturating_add", "wrapping_add"):
                return self.ty(e[1], env)
            if e[2] in ("is_some", "is_none", "is_some_and", "is_empty", "contains_key", "is_absolute"):
                return "bool"
            if e[2] in ("copied", "cloned", "clone", "collect", "to_string_lossy", "chain", "iter", "ok", "to_string", "to_owned"):
                return self.ty(e[1], env)
            if e[2] in ("or_else", "filter") and re.match(r"Option<(.*)>$", self.ty(e[1], env) or ""):
                return self.ty(e[1], env)
            if self.spec.get("iterators"):
                rt0 = self.ty(e[1], env)
                if e[2] in ("chunks", "par_chunks"):
                    return "Vec<%s>" % (rt0 or "Vec<u8>")
                if e[2] == "enumerate":
                    m0 = re.match(r"Vec<(.*)>$", rt0 or "")
                    return "Vec<(usize,%s)>" % m0.group(1) if m0 else None
                if e[2] in ("iter", "into_iter", "collect"):
                    return rt0
                if e[2] in ("map", "find") and len(e[3]) == 1 and e[3][0][0] == "closure" and len(e[3][0][1]) == 1:
                    m0 = re.match(r"Vec<(.*)>$", rt0 or "")
                    if m0:
                        if e[2] == "find":
                            return "Option<%s>" % m0.group(1)
                        try:
                            _ps, add0 = self.pat(e[3][0][1][0], env, m0.group(1))
                        except Unsupported:
                            return None
                        bt = self.ty(e[3][0][2], dict(env, **add0))
                        return "Vec<%s>" % bt if bt else None
            if e[2] == "next" and e[1][0] == "mcall" and e[1][2] == "split" and len(e[1][3]) == 1 and e[1][3][0][0] == "char":
                return "Option<%s>" % (self.ty(e[1][1], env) or "str")
            if e[2] == "and_then" and len(e[3]) == 1 and e[3][0][0] == "closure" and len(e[3][0][1]) == 1:
                m = re.match(r"Option<(.*)>$", self.ty(e[1], env) or "")
                if m and e[3][0][1][0][0] == "pbind":
                    return self.ty(e[3][0][2], dict(env, **{e[3][0][1][0][1]: m.group(1)}))
                return None
            if e[2] == "unwrap_or":
                m = re.match(r"Option<(.*)>$", self.ty(e[1], env) or "")
                return m.group(1) if m else None
            if e[2] == "strip_prefix":
                return "Option<%s>" % (self.ty(e[1], env) or "str")
            if e[2] == "map_or_else" and len(e[3]) == 2 and e[3][0][0] == "path" and "::".join(e[3][0][1]) in self.calls:
                return self.calls["::".join(e[3][0][1])][1]
            if e[2] == "unwrap_or_else":
                m = re.match(r"Option<(.*)>$", self.ty(e[1], env) or "")
                return m.group(1) if m else None
            if e[2] in ("as_ref",):
                return self.ty(e[1], env)
            if e[2] == "map" and len(e[3]) == 1 and e[3][0][0] == "closure" and len(e[3][0][1]) == 1:
                m = re.match(r"Option<(.*)>$", self.ty(e[1], env) or "")
                if m:
                    try:
                        _ps, add = self.pat(e[3][0][1][0], env, m.group(1))
                    except Unsupported:
                        return None
                    t = self.ty(e[3][0][2], dict(env, **add))
                    return "Option<%s>" % t if t else None
            if ("." + e[2]) in self.calls:
                rt = self.calls["." + e[2]][1]
                return rt(self.ty(e[1], env)) if callable(rt) else rt
            return None
        if k == "call":
            if e[1][0] == "path":
                name = "::".join(e[1][1])
                if name == "Some" and e[2]:
                    t = self.ty(e[2][0], env)
                    return "Option<%s>" % t if t else None
                m = re.match(r"(u\d+|usize)::from$", name)
                if m:
                    return m.group(1)
                if name in self.calls:
                    return self.calls[name][1]
            return None
        if k == "tuple":
            ts = [self.ty(x, env) for x in e[1]]
            return "(" + ",".join(t or "?" for t in ts) + ")"
        if k == "if" and e[3] is not None:
            t1 = self.ty(e[2], env)
            return t1 or self.ty(e[3], env)
        if k == "block":
            return self.ty(e[2], env) if e[2] is not None and not e[1] else None
        if k in ("iflet", "match"):
            return None
        if k == "unary":
            return "bool" if e[1] == "!" else self.ty(e[2], env)
        if k == "bin":
            if e[1] in ("==", "!=", "<", "<=", ">", ">=", "&&", "||"):
                return "bool"
            return self.ty(e[2], env) or self.ty(e[3], env)
        if k == "cast":
            return norm_type(e[2])
        return None

    def eq_fn(self, t):
        if t is None:
            raise Unsupported("== on operands of unknown type")
        if t in INTS:
            return "Z.eqb"
        if t == "bool":
            return "Bool.eqb"
        if t in self.eqs:
            return self.eqs[t]
        m = re.match(r"Option<(.*)>$", t)
        if m and m.group(1) != "?":
            return "(opt_eqb %s)" % self.eq_fn(m.group(1))
        raise Unsupported("== at type %s" % t)

    # ------------------------------------------------------------ names
    def path(self, segs, env):
        name = "::".join(segs)
        if len(segs) == 1 and segs[0] in env:
            return self.var(segs[0])
        for key in (name, segs[-1]):
            if key in self.paths:
                return self.paths[key]
            if key in self.consts:
                return self.consts[key][0]
        if segs[-1] == "None":
            return "None"
        raise Unsupported("unknown name %s" % name)

    def var(self, n):
        return self.spec.get("rename", {}).get(n, n if n not in ("S", "O", "end", "at", "in", "fix", "cofix", "len", "mod", "list") else n + "_")

    # ------------------------------------------------------------ patterns
    def pat(self, p, env, t=None):
        """-> (Gallina pattern text, env additions)"""
        k = p[0]
        if k == "pwild":
            return "_", {}
        if k == "pbind":
            return self.var(p[1]), {p[1]: t}
        if k == "pref":
            return self.pat(p[1], env, t)
        if k == "plit":
            v = p[1]
            if v[0] == "bool":
                return ("true" if v[1] else "false"), {}
            raise Unsupported("literal pattern (use the if-chain form)")
        if k == "ptuple":
            ts = [None] * len(p[1])
            if t and t.startswith("(") and t.endswith(")"):
                parts = split_top(t[1:-1])
                if len(parts) == len(p[1]):
                    ts = parts
            outs, add = [], {}
            for q, tt in zip(p[1], ts):
                s, a = self.pat(q, env, tt)
                outs.append(s)
                add.update(a)
            return "(" + ", ".join(outs) + ")", add
        if k == "ppath":
            name = "::".join(p[1])
            if p[1][-1] == "Some" or (p[1][-1] == "Ok" and self.paths.get("Ok") == "Some" and p[2] and len(p[2]) == 1):
                inner = None
                m = re.match(r"Option<(.*)>$", t or "")
                if m:
                    inner = m.group(1)
                s, a = self.pat(p[2][0], env, inner)
                return "Some " + paren(s), a
            if p[1][-1] == "None":
                return "None", {}
            if name in self.paths and self.paths[name] is None:
                return None, {}          # a variant that does not exist on this platform (Component::Prefix): never matches
            ctor = self.paths.get(name) or self.paths.get(p[1][-1])
            if ctor is None:
                raise Unsupported("unknown constructor pattern %s" % name)
            if p[2] is None:
                return ctor, {}
            outs, add = [], {}
            for q in p[2]:
                s, a = self.pat(q, env)
                outs.append(paren(s))
                add.update(a)
            return ctor + " " + " ".join(outs), add
        if k == "pstruct":
            name = "::".join(p[1])
            st = self.structs.get(name) or self.structs.get(p[1][-1])
            if not st:
                raise Unsupported("unknown struct pattern %s" % name)
            ctor, order, ftypes = st
            given = dict(p[2])
            outs, add = [], {}
            for f, ft in zip(order, ftypes):
                if f in given:
                    s, a = self.pat(given[f], env, ft)
                    outs.append(paren(s))
                    add.update(a)
                else:
                    outs.append("_")
            return ctor + " " + " ".join(outs), add
        if k == "por":
            outs = []
            for q in p[1]:
                s, a = self.pat(q, env, t)
                if a:
                    raise Unsupported("or-pattern with bindings")
                outs.append(s)
            return " | ".join(outs), {}
        raise Unsupported("pattern " + k)

    def format_bytes(self, toks, env):
        """format!("lit{name}lit{}", args..) as the concatenation of byte lists: literal text, named captures, positional
        arguments; a `{x:02x}` piece is two lower-case hex digits of the byte x (spec format_bytes maps piece -> template)"""
        if not toks or toks[0][0] != "str":
            raise Unsupported("format! without a literal format string")
        fmt = toks[0][1]
        if fmt.startswith('"') and fmt.endswith('"'):
            fmt = fmt[1:-1]
        args, cur, depth = [], [], 0
        for tk in toks[1:]:
            depth += tk[0] == "op" and tk[1] in ("(", "[", "{")
            depth -= tk[0] == "op" and tk[1] in (")", "]", "}")
            if tk == ("op", ",") and depth == 0:
                if cur:
                    args.append(cur)
                cur = []
            else:
                cur.append(tk)
        if cur:
            args.append(cur)
        args = [R.Parser(a).expr() for a in args]
        parts, i, lit = [], 0, ""
        def flush():
            nonlocal lit
            if lit:
                parts.append("[%s]" % "; ".join(str(b) for b in lit.encode()))
                lit = ""
        while i < len(fmt):
            c = fmt[i]
            if c == "{" and fmt[i:i + 2] == "{{":
                lit += "{"
                i += 2
            elif c == "{":
                j = fmt.index("}", i)
                piece = fmt[i + 1:j]
                flush()
                name, _, spec_ = piece.partition(":")
                a0 = args.pop(0) if name == "" else None
                val = self.ex(a0, env) if name == "" else self.var(name) if name in env else None
                if val is None:
                    raise Unsupported("format! captures the unknown name %s" % name)
                if spec_ == "" and ((a0 is not None and self.ty(a0, env) in INTS) or (a0 is None and env.get(name) in INTS)):
                    if not self.spec.get("format_int"):
                        raise Unsupported("format! of an integer")
                    parts.append(self.apply(self.spec["format_int"], [val]))
                elif spec_ == "":
                    parts.append(val)
                elif spec_ in self.spec["format_bytes"]:
                    parts.append(self.apply(self.spec["format_bytes"][spec_], [val]))
                else:
                    raise Unsupported("format! piece {%s}" % piece)
                i = j + 1
            elif c == "\\":
                lit += rust_unescape(fmt[i:i + 2])
                i += 2
            elif c == "}" and fmt[i:i + 2] == "}}":
                lit += "}"
                i += 2
            else:
                lit += c
                i += 1
        flush()
        if args:
            raise Unsupported("format! with unused arguments")
        return "(" + " ++ ".join(parts or ["[]"]) + ")"

    # ------------------------------------------------------------ pure expressions
    def ex(self, e, env):
        k = e[0]
        if k == "str" and self.spec.get("str_literals"):
            body0 = e[1][1:-1] if (len(e[1]) >= 2 and e[1][0] == '"' and e[1][-1] == '"') else e[1]
            return "[%s]" % "; ".join(str(b) for b in rust_unescape(body0).encode())
        if k == "num":
            return str(e[1])
        if k == "bchar":
            v0 = e[1]
            return str(v0 if isinstance(v0, int) else ord(v0[2:-1]) if len(v0) == 4 else ord(rust_unescape(v0[2:-1])))
        if k == "char":
            return str(e[1])
        if k == "bool":
            return "true" if e[1] else "false"
        if k == "path":
            return self.path(e[1], env)
        if k == "try" and self.spec.get("try_transparent"):
            return self.ex(e[1], env)
        if k == "str":
            lit = self.spec.get("strings", {}).get(e[1])
            if lit is None:
                raise Unsupported("string literal %r" % e[1])
            return lit
        if k == "tuple":
            return "(" + ", ".join(self.ex(x, env) for x in e[1]) + ")"
        if k == "array":
            return "[" + "; ".join(self.ex(x, env) for x in e[1]) + "]"
        if k == "field" and e[2] == "await":
            return self.ex(e[1], env)
        if k == "field":
            t = self.ty(e[1], env)
            if (t, e[2]) in self.fields:
                return self.fields[(t, e[2])][0].format(self.ex(e[1], env))
            raise Unsupported("field .%s of type %s" % (e[2], t))
        if k == "index":
            it0 = self.ty(e[1], env)
            if it0 in self.spec.get("index_fn", {}):
                return "(%s %s %s)" % (self.spec["index_fn"][it0], self.ex(e[1], env), self.ex(e[2], env))
            return "(nthZ %s %s)" % (self.ex(e[1], env), self.ex(e[2], env))
        if k == "slice":
            base = self.ex(e[1], env)
            if e[2] is not None:
                base = "(skipn (Z.to_nat %s) %s)" % (self.ex(e[2], env), base)
                if e[3] is not None:
                    return "(firstn (Z.to_nat (%s - %s)) %s)" % (self.ex(e[3], env), self.ex(e[2], env), base)
                return base
            if e[3] is not None:
                return "(firstn (Z.to_nat %s) %s)" % (self.ex(e[3], env), base)
            return base
        if k == "unary":
            if e[1] == "!":
                return "(negb %s)" % self.ex(e[2], env)
            if e[1] == "*":
                return self.ex(e[2], env)
            if e[1] == "-" and e[2][0] == "num":
                return "(-%d)" % e[2][1]
            raise Unsupported("unary " + e[1])
        if k == "cast":
            src_t = self.ty(e[1], env)
            dst_t = norm_type(e[2])
            if src_t in WIDTH and dst_t in WIDTH and WIDTH[src_t] <= WIDTH[dst_t]:
                return self.ex(e[1], env)
            if src_t in self.spec.get("enum_casts", {}):
                return self.apply(self.spec["enum_casts"][src_t], [self.ex(e[1], env)])
            if src_t in WIDTH and dst_t == "u32" and self.spec.get("narrow_u32"):
                return "(%s %s)" % (self.spec["narrow_u32"], self.ex(e[1], env))
            raise Unsupported("cast %s as %s" % (src_t, dst_t))
        if k == "bin":
            op, l, r = e[1], e[2], e[3]
            if op in ("&&", "||"):
                return "(%s %s %s)" % (self.ex(l, env), op, self.ex(r, env))
            if op in ("==", "!="):
                t = self.ty(l, env)
                if t in (None, "int", "Option<?>"):
                    t2 = self.ty(r, env)
                    t = t2 if t2 not in (None,) else t
                if t == "Option<?>":
                    raise Unsupported("== None on both sides")
                s = "(%s %s %s)" % (self.eq_fn(t), self.ex(l, env), self.ex(r, env))
                return s if op == "==" else "(negb %s)" % s
            if op in ("<", "<=", ">", ">="):
                t = self.ty(l, env) or self.ty(r, env)
                if t not in INTS:
                    if t in self.spec.get("ord", {}):
                        return "(%s %s %s)" % (self.spec["ord"][t][op], self.ex(l, env), self.ex(r, env))
                    raise Unsupported("%s at type %s" % (op, t))
                cop = {"<": "<?", "<=": "<=?", ">": ">?", ">=": ">=?"}[op]
                return "(%s %s %s)" % (self.ex(l, env), cop, self.ex(r, env))
            if op in ("+", "-", "*"):
                t = self.ty(l, env) or self.ty(r, env)
                if t not in ("usize", "int") and not self.spec.get("exact_arith"):
                    raise Unsupported("arithmetic %s at type %s (only exact usize arithmetic is translated)" % (op, t))
                if op == "-":
                    raise Unsupported("usize subtraction")
                return "(%s %s %s)" % (self.ex(l, env), op, self.ex(r, env))
            raise Unsupported("operator " + op)
        if k == "call":
            f = e[1]
            if f[0] == "path":
                name = "::".join(f[1])
                if f[1][-1] == "Some" and len(e[2]) == 1:
                    return "(Some %s)" % self.ex(e[2][0], env)
                if f[1][-1] == "Ok" and len(e[2]) == 1:
                    return self.ok(e[2][0], env)
                if f[1][-1] == "Err" and len(e[2]) == 1:
                    return self.err(e[2][0])
                m = re.match(r"(u\d+|usize)::from$", name)
                if m and len(e[2]) == 1:
                    return self.ex(e[2][0], env)       # widening
                if name in self.spec.get("only_under_lock", ()) and not self.in_closure:
                    raise Unsupported("%s is called outside the closure passed to with_commit_lock (the compare-and-swap must read, decide and rename under the lock)" % name)
                if name in self.calls:
                    return self.apply(self.calls[name][0], [self.ex(a, env) for a in e[2]])
                if name in self.paths or f[1][-1] in self.paths:      # enum constructor with arguments
                    return "(%s %s)" % (self.path(f[1], env), " ".join(paren(self.ex(a, env)) for a in e[2]))
            raise Unsupported("call of %s" % (f,))
        if k == "mcall" and (self.ty(e[1], env), e[2]) in self.spec.get("typed_methods", {}):
            return self.apply(self.spec["typed_methods"][(self.ty(e[1], env), e[2])], [self.ex(a, env) for a in [e[1]] + e[3]])
        if k == "mcall":
            recv, name, args = e[1], e[2], e[3]
            if name in ("copied", "cloned", "clone", "to_owned", "iter", "as_ref", "collect", "to_path_buf", "to_string_lossy", "ok", "as_os_str", "to_string", "into") and not args:
                return self.ex(recv, env)
            if name == "map_err" and len(args) == 1:
                return self.ex(recv, env)
            if name == "chain" and len(args) == 1:
                return "(%s ++ %s)" % (self.ex(recv, env), self.ex(args[0], env))
            if name == "len" and not args:
                return "(lenZ %s)" % self.ex(recv, env)
            if name == "is_empty" and not args:
                return "(lenZ %s =? 0)" % self.ex(recv, env)
            if name == "is_some" and not args:
                return "(match %s with Some _ => true | None => false end)" % self.ex(recv, env)
            if name == "is_none" and not args:
                return "(match %s with Some _ => false | None => true end)" % self.ex(recv, env)
            if name in ("is_some_and", "map_or") and args and args[-1][0] == "closure":
                clo = args[-1]
                if len(clo[1]) != 1:
                    raise Unsupported("closure arity")
                t = self.ty(recv, env)
                m = re.match(r"Option<(.*)>$", t or "")
                ps, add = self.pat(clo[1][0], env, m.group(1) if m else None)
                env2 = dict(env, **add)
                dflt = "false" if name == "is_some_and" else self.ex(args[0], env)
                return "(match %s with Some %s => %s | None => %s end)" % (self.ex(recv, env), paren(ps), self.ex(clo[2], env2), dflt)
            if name == "split" and len(args) == 1 and args[0][0] == "closure" and len(args[0][1]) == 1 and args[0][1][0][0] == "pref" \
                    and args[0][1][0][1][0] == "pbind" and args[0][2][0] == "bin" and args[0][2][1] == "==" \
                    and args[0][2][2] == ("path", [args[0][1][0][1][1]]) and args[0][2][3][0] == "num":
                # bytes.split(|&b| b == C): the pieces between occurrences of C
                return "(split_on %s %s)" % (args[0][2][3][1], self.ex(recv, env))
            if name == "next" and not args and recv[0] == "mcall" and recv[2] == "split" and len(recv[3]) == 1 and recv[3][0][0] == "char":
                # s.split(c).next(): the text before the first c (always Some)
                return "(Some (before_sep %s %s))" % (recv[3][0][1], self.ex(recv[1], env))
            if name == "and_then" and len(args) == 1 and args[0][0] == "closure" and len(args[0][1]) == 1 and re.match(r"Option<(.*)>$", self.ty(recv, env) or ""):
                m = re.match(r"Option<(.*)>$", self.ty(recv, env))
                ps, add = self.pat(args[0][1][0], env, m.group(1))
                return "(match %s with Some %s => %s | None => None end)" % (self.ex(recv, env), paren(ps), self.ex(args[0][2], dict(env, **add)))
            if name == "unwrap_or" and len(args) == 1 and re.match(r"Option<(.*)>$", self.ty(recv, env) or ""):
                v = self.fresh("v")
                return "(match %s with Some %s => %s | None => %s end)" % (self.ex(recv, env), v, v, self.ex(args[0], env))
            if name == "replace" and len(args) == 2 and args[0][0] == "char" and args[1][0] == "str" and self.spec.get("format_bytes") is not None:
                lit = rust_unescape(args[1][1][1:-1] if args[1][1].startswith('"') else args[1][1])
                return "(replace_char %s [%s] %s)" % (args[0][1], "; ".join(str(b) for b in lit.encode()), self.ex(recv, env))
            if name == "strip_prefix" and len(args) == 1 and args[0][0] == "str":
                lit = args[0][1].strip('"')
                return "(strip_prefix_lit [%s] %s)" % ("; ".join(str(ord(c)) for c in lit), self.ex(recv, env))
            if self.spec.get("iterators"):
                if name in ("chunks", "par_chunks") and len(args) == 1:
                    return "(chunksZ %s %s)" % (self.ex(args[0], env), self.ex(recv, env))
                if name == "enumerate" and not args:
                    return "(enumerateZ %s)" % self.ex(recv, env)
                if name in ("iter", "into_iter", "collect") and not args:
                    return self.ex(recv, env)
                if name in ("map", "find") and len(args) == 1 and args[0][0] == "closure" and len(args[0][1]) == 1 \
                        and re.match(r"Vec<(.*)>$", self.ty(recv, env) or ""):
                    et = re.match(r"Vec<(.*)>$", self.ty(recv, env)).group(1)
                    ps, add = self.pat(args[0][1][0], env, et)
                    lam = "(fun %s => %s)" % (paren(ps) if not ps.startswith("(") else "'" + ps, self.ex(args[0][2], dict(env, **add)))
                    return "(%s %s %s)" % ("map" if name == "map" else "find", lam, self.ex(recv, env))
            if name == "contains" and len(args) == 1 and recv[0] == "range" and recv[3]:
                x = self.ex(args[0], env)
                return "((%s <=? %s) && (%s <=? %s))" % (self.ex(recv[1], env), x, x, self.ex(recv[2], env))
            if name == "map_or_else" and len(args) == 2 and args[1][0] == "closure" and len(args[1][1]) == 1 and args[0][0] == "path" \
                    and re.match(r"Option<(.*)>$", self.ty(recv, env) or "") and "::".join(args[0][1]) in self.calls:
                m = re.match(r"Option<(.*)>$", self.ty(recv, env))
                ps, add = self.pat(args[1][1][0], env, m.group(1))
                return "(match %s with Some %s => %s | None => %s end)" % (self.ex(recv, env), paren(ps), self.ex(args[1][2], dict(env, **add)),
                                                                          self.apply(self.calls["::".join(args[0][1])][0], []))
            if name == "unwrap_or_else" and len(args) == 1 and args[0][0] == "closure" and (not args[0][1] or list(args[0][1]) == [("pwild",)]) and re.match(r"Option<(.*)>$", self.ty(recv, env) or ""):
                v = self.fresh("v")
                return "(match %s with Some %s => %s | None => %s end)" % (self.ex(recv, env), v, v, self.ex(args[0][2], env))
            if name == "or_else" and len(args) == 1 and args[0][0] == "closure" and not args[0][1] and re.match(r"Option<(.*)>$", self.ty(recv, env) or ""):
                v = self.fresh("v")
                return "(match %s with Some %s => Some %s | None => %s end)" % (self.ex(recv, env), v, v, self.ex(args[0][2], env))
            if name == "filter" and len(args) == 1 and args[0][0] == "closure" and len(args[0][1]) == 1 and re.match(r"Option<(.*)>$", self.ty(recv, env) or ""):
                m = re.match(r"Option<(.*)>$", self.ty(recv, env))
                ps, add = self.pat(args[0][1][0], env, m.group(1))
                return "(match %s with Some %s => if %s then Some %s else None | None => None end)" % (self.ex(recv, env), paren(ps), self.ex(args[0][2], dict(env, **add)), paren(ps))
            if name == "map" and len(args) == 1 and args[0][0] == "closure" and re.match(r"Option<(.*)>$", self.ty(recv, env) or ""):
                clo = args[0]
                if len(clo[1]) != 1:
                    raise Unsupported("closure arity")
                m = re.match(r"Option<(.*)>$", self.ty(recv, env))
                ps, add = self.pat(clo[1][0], env, m.group(1))
                return "(match %s with Some %s => Some %s | None => None end)" % (self.ex(recv, env), paren(ps), paren(self.ex(clo[2], dict(env, **add))))
            if name == "saturating_add" and len(args) == 1:
                t = self.ty(recv, env)
                if t not in WIDTH:
                    raise Unsupported("saturating_add at type %s" % t)
                return "(Z.min (%s + %s) %d)" % (self.ex(recv, env), self.ex(args[0], env), 2 ** WIDTH[t] - 1)
            key = "." + name
            if key in self.calls:
                return self.apply(self.calls[key][0], [self.ex(a, env) for a in [recv] + args])
            raise Unsupported("method .%s()" % name)
        if k == "macro" and e[1] == "format" and self.spec.get("format_bytes"):
            return self.format_bytes(e[2], env)
        if k == "macro":
            if e[1] == "matches":
                toks = e[2]
                # matches!(expr, pattern)
                depth, cut = 0, None
                for i, (kk, vv) in enumerate(toks):
                    depth += vv in ("(", "[", "{")
                    depth -= vv in (")", "]", "}")
                    if vv == "," and depth == 0:
                        cut = i
                        break
                if cut is None:
                    raise Unsupported("matches! without pattern")
                pe = R.Parser(toks[:cut]).expr()
                pp = R.Parser([t for t in toks[cut + 1:] if t[1] != ","] if toks[-1][1] == "," else toks[cut + 1:])
                patt = pp.pattern()
                alts = patt[1] if patt[0] == "por" else [patt]
                arms = []
                for a in alts:
                    s, _ = self.pat(a, env)
                    if s is not None:
                        arms.append(s)
                return "(match %s with %s => true | _ => false end)" % (self.ex(pe, env), " | ".join(arms))
            raise Unsupported("macro %s!" % e[1])
        if k in ("if", "iflet", "match", "block"):
            return paren(self.tail(e, env, Ctx(val=lambda s: s, ret=None, fall=None)))
        if k == "struct":
            name = "::".join(e[1])
            st = self.structs.get(name) or self.structs.get(e[1][-1])
            if not st:
                raise Unsupported("struct literal %s" % name)
            given = dict(e[2])
            return "(%s %s)" % (st[0], " ".join(paren(self.ex(given[f], env)) for f in st[1]))
        raise Unsupported("expression kind " + k)

    def apply(self, template, args):
        if "{" in template:
            return "(" + template.format(*[paren(a) for a in args]) + ")"
        if not args:
            return template
        return "(%s %s)" % (template, " ".join(paren(a) for a in args))

    def ok(self, e, env):
        f = self.spec.get("ok")
        if f is None:
            raise Unsupported("Ok(..) in a function without a result mapping")
        if e == ("tuple", []):
            return f("tt")
        return f(self.ex(e, env))

    def err(self, e):
        text = flat_text(e)
        for rx, out in self.errs:
            if re.search(rx, text):
                return out
        raise Unsupported("Err(..) not classified: " + text[:60])

    # ------------------------------------------------------------ statements / tail position
    def tail(self, e, env, ctx):
        """expression in tail position of a block whose value goes to ctx.val"""
        k = e[0]
        if k == "block":
            return self.block(e, env, ctx)
        if k == "return":
            if ctx.ret is None:
                raise Unsupported("return inside an expression")
            return ctx.ret(self.ex(e[1], env) if e[1] is not None else "tt")
        if k == "if" and e[3] is None and e[1][0] == "mcall" and e[1][2] == "is_err" and e[1][1][0] == "macro" and e[1][1][1] == "write" \
                and self.spec.get("format_bytes") and ctx.val is None:
            return self.stmts([("expr", e, False)], None, env, ctx)
        if k == "if":
            els = e[3]
            if els is None:
                if ctx.fall is None:
                    raise Unsupported("if without else in value position")
                other = ctx.fall(env)
            else:
                other = self.tail(els, env, ctx)
            return "if %s then %s else %s" % (self.ex(e[1], env), paren(self.tail(e[2], env, ctx)), paren(other))
        if k == "iflet" and self.spec.get("opens") and e[1][0] == "ppath" and e[1][1][-1] == "Ok" and e[1][2] and e[1][2][0][0] == "pbind" \
                and e[2][0] == "call" and e[2][1][0] == "path" and "::".join(e[2][1][1]) in self.spec["opens"] and e[4] is None:
            # `if let Ok(h) = File::open(p) { .. }`: the handle is bound to p and the body translated as if the open succeeded
            # (a failed open skips the body in the source; the model's step list has the body's calls unconditionally)
            self.handles[e[1][2][0][1]] = self.ex(e[2][2][0], env)
            return self.tail(e[3], dict(env, **{e[1][2][0][1]: "File"}), ctx)
        if k == "iflet":
            t = self.ty(e[2], env)
            ps, add = self.pat(e[1], env, t)
            env2 = dict(env, **add)
            els = e[4]
            if els is None:
                if ctx.fall is None:
                    raise Unsupported("if let without else in value position")
                other = ctx.fall(env)
            else:
                other = self.tail(els, env, ctx)
            return "match %s with %s => %s | _ => %s end" % (self.ex(e[2], env), ps, self.tail(e[3], env2, ctx), other)
        if k == "match":
            return self.match(e, env, ctx)
        if k == "continue":
            if ctx.cont is None:
                raise Unsupported("continue outside a loop")
            return ctx.cont(env)
        if k == "break":
            if getattr(ctx, "brk", None) is None:
                raise Unsupported("break outside a `for` loop")
            return ctx.brk(env)
        if self.spec.get("effects") and ctx.val is not None:
            teff = self.effect_of(("expr", e, False), env)
            if teff is not None:
                return ctx.val("effs ++ [%s]" % teff)
        if ctx.val is None:
            # an expression in statement position (the arm of a `match` used as a statement, ..): translated as the
            # statement `e;` - an effect, an update, a state call - and refused when it is none of these (it used to be
            # dropped unseen: `match dir { Push => create_remote_dirs(..).await?, .. }` lost its calls)
            if ctx.fall is None:
                raise Unsupported("expression statement without continuation")
            if e[0] == "tuple" and not e[1]:
                return ctx.fall(env)
            return self.stmts([("expr", e, True)], None, env, Ctx(val=None, ret=ctx.ret, fall=ctx.fall, cont=getattr(ctx, "cont", None), brk=getattr(ctx, "brk", None)))
        return ctx.val(self.ex(e, env))

    def match(self, e, env, ctx):
        scrut = e[1]
        if self.spec.get("assume_ok") and scrut[0] == "call" and scrut[1][0] == "path" and "::".join(scrut[1][1]) in self.spec.get("state_updates", {}) \
                and len(e[2]) == 2 and e[2][0][0][0] == "ppath" and e[2][0][0][1][-1] == "Ok" and e[2][1][0][0] == "ppath" and e[2][1][0][1][-1] == "Err":
            # `match rename(a, b) { Ok(()) => A, Err(e) => B }`: in the flat-name model the call cannot fail: the state is
            # updated and A is the value (B - the error reply of a failed rename - has no counterpart in the model)
            if "::".join(scrut[1][1]) in self.spec.get("only_under_lock", ()) and not self.in_closure:
                raise Unsupported("%s is called outside the closure passed to with_commit_lock" % "::".join(scrut[1][1]))
            st = self.spec["state"]
            tmpl = self.spec["state_updates"]["::".join(scrut[1][1])]
            return "let %s := %s in %s" % (st, self.apply(tmpl, [self.ex(a, env) for a in scrut[2]]), self.tail(e[2][0][2], env, ctx))
        st = self.ty(scrut, env)
        if scrut[0] == "tuple":
            ts = [self.ty(x, env) for x in scrut[1]]
            st = "(" + ",".join(t or "?" for t in ts) + ")"
        ss = self.ex(scrut, env)
        arms = e[2]
        # integer literal patterns: an if-chain on equality
        if any(a[0][0] == "plit" and a[0][1][0] in ("num", "char") for a in arms):
            out = None
            for pat, guard, body in reversed(arms):
                if guard is not None:
                    raise Unsupported("guard on a literal arm")
                b = self.tail(body, env, ctx)
                if pat[0] == "pwild":
                    out = b
                elif pat[0] == "plit":
                    if out is None:
                        raise Unsupported("literal match without a default arm")
                    out = "if (%s =? %s) then %s else %s" % (ss, self.ex(pat[1], env), paren(b), paren(out))
                else:
                    raise Unsupported("mixed literal match")
            return out

        def subsumes(p, q):
            """every value matched by q is matched by p (syntactic)"""
            if p[0] in ("pwild", "pbind"):
                return True
            if p[0] == "pref":
                return subsumes(p[1], q)
            if q[0] == "pref":
                return subsumes(p, q[1])
            if p[0] == "ptuple" and q[0] == "ptuple" and len(p[1]) == len(q[1]):
                return all(subsumes(a, b) for a, b in zip(p[1], q[1]))
            if p[0] == "ppath" and q[0] == "ppath" and p[1][-1] == q[1][-1]:
                if p[2] is None or q[2] is None:
                    return p[2] is None and q[2] is None
                return len(p[2]) == len(q[2]) and all(subsumes(a, b) for a, b in zip(p[2], q[2]))
            if p[0] == "plit" and q[0] == "plit":
                return p[1] == q[1]
            return False

        def render(idx_from):
            """the arms from idx_from on, knowing that no earlier arm applies.  Earlier UNGUARDED arms are repeated (they
            cannot match, and keep the Gallina match exhaustive: Rust's exhaustiveness check ignores guarded arms)."""
            parts = []
            shadow = []                 # patterns of guarded arms already emitted in this match
            for i, (pat, guard, body) in enumerate(arms):
                if i < idx_from and guard is not None:
                    continue
                if any(subsumes(g, pat) for g in shadow):
                    continue            # reached through the `else` branch of that guarded arm instead
                ps, add = self.pat(pat, env, st)
                env2 = dict(env, **add)
                b = self.tail(body, env2, ctx)
                if guard is not None:
                    g = self.ex(guard, env2)
                    b = "if %s then %s else %s" % (g, paren(b), paren(render(i + 1)))
                    shadow.append(pat)
                parts.append("| %s => %s" % (ps, b))
            return "match %s with %s end" % (ss, " ".join(parts))
        return render(0)

    def effect_of(self, s, env):
        """an effectful statement of the function (table spec['effects']) -> the Gallina effect term, else None"""
        table = self.spec.get("effects")
        if not table:
            return None
        e = None
        if s[0] == "expr":
            e = s[1]
        elif s[0] == "let" and s[1][0] == "pwild" and s[3] is not None:
            e = s[3]
        if e is None:
            return None
        def strip(x):
            while True:
                if x[0] == "try":
                    x = x[1]
                elif x[0] == "field" and x[2] == "await":
                    x = x[1]
                elif x[0] == "mcall" and x[2] == "map_err":
                    x = x[1]
                else:
                    return x
        e = strip(e)
        if e[0] == "call" and e[1][0] == "path":
            name = "::".join(e[1][1])
            if name in table:
                return self.apply(table[name], [self.ex(a, env) for a in e[2]])
        # <File::open(x)?>.sync_all()  and  <handle var>.write_all(..) / .sync_all()
        if e[0] == "mcall":
            recv = e[1]
            while recv[0] == "try":
                recv = recv[1]
            if recv[0] == "call" and recv[1][0] == "path":
                key = "::".join(recv[1][1]) + "()." + e[2]
                if key in table:
                    return self.apply(table[key], [self.ex(a, env) for a in recv[2]])
            if recv[0] == "path" and len(recv[1]) == 1 and recv[1][0] in self.handles:
                key = "<handle>." + e[2]
                if key in table:
                    return self.apply(table[key], [self.handles[recv[1][0]]])
        if e[0] == "mcall" and e[1][0] == "path" and len(e[1][1]) == 1:
            key = e[1][1][0] + "." + e[2]
            if key in table:
                return self.apply(table[key], [self.ex(a, env) for a in e[3]])
        return None

    def sorter(self, t):
        f = self.spec.get("sort", {}).get(t)
        if not f:
            raise Unsupported("sort at type %s" % t)
        return f

    def deduper(self, t):
        f = self.spec.get("dedup", {}).get(t)
        if not f:
            raise Unsupported("dedup at type %s" % t)
        return f

    def set_place(self, place, val, env):
        """`let <root> := <root with place replaced by val> in ` for a local or a field of a local record"""
        if place[0] == "path" and len(place[1]) == 1 and place[1][0] in env:
            return "let %s := %s in " % (self.var(place[1][0]), val)
        if place[0] == "field" and place[1][0] == "path" and len(place[1][1]) == 1 and place[1][1][0] in env:
            v = place[1][1][0]
            t = env[v]
            rec = self.spec.get("records", {}).get(t)
            if not rec:
                raise Unsupported("update of a field of %s" % t)
            ctor, fields = rec
            parts = []
            for f in fields:
                if f == place[2]:
                    parts.append(paren(val))
                else:
                    parts.append(paren(self.fields[(t, f)][0].format(self.var(v))))
            return "let %s := %s %s in " % (self.var(v), ctor, " ".join(parts))
        raise Unsupported("assignment target")

    def assigned(self, block):
        """local variables assigned anywhere in a block (loop state)"""
        out = []

        def root(e):
            while e[0] == "field":
                e = e[1]
            return e[1][0] if e[0] == "path" and len(e[1]) == 1 else None

        def walk(n):
            if isinstance(n, tuple):
                if n and n[0] == "assign":
                    v = root(n[1])
                    if v is not None and v not in out:
                        out.append(v)
                if n and n[0] == "mcall" and n[1][0] == "path" and len(n[1][1]) == 1 and (n[1][1][0] + "." + n[2]) in self.spec.get("state_calls", {}):
                    if self.spec["state"] not in out:
                        out.append(self.spec["state"])
                if n and n[0] == "call" and len(n) == 3 and n[1][0] == "path" and "::".join(n[1][1]) in self.spec.get("effects", {}):
                    if "effs" not in out:
                        out.append("effs")
                if n and n[0] == "call" and len(n) == 3 and n[1][0] == "path" and "::".join(n[1][1]) in self.spec.get("state_fn_calls", {}):
                    for bv in self.spec["state_fn_calls"]["::".join(n[1][1])][1]:
                        if bv not in out:
                            out.append(bv)
                if n and n[0] == "mcall" and n[1][0] == "path" and len(n[1][1]) == 1 and (n[1][1][0] + "." + n[2]) in self.spec.get("updates", {}):
                    if n[1][1][0] not in out:
                        out.append(n[1][1][0])
                if n and n[0] == "mcall" and len(n) == 4 and n[2] == "push" and n[1][0] == "mcall" and n[1][2] == "or_default" and n[1][1][0] == "mcall" \
                        and n[1][1][2] == "entry" and n[1][1][1][0] == "path" and len(n[1][1][1][1]) == 1 and self.spec.get("iterators"):
                    if n[1][1][1][1][0] not in out:
                        out.append(n[1][1][1][1][0])
                if n and n[0] == "mcall" and len(n) == 4 and n[2] == "is_err" and n[1][0] == "macro" and n[1][1] == "write" and n[1][2] and n[1][2][0][0] == "id" \
                        and self.spec.get("format_bytes"):
                    if n[1][2][0][1] not in out:
                        out.append(n[1][2][0][1])
                if n and n[0] == "let" and len(n) == 5 and n[1] == ("pwild",) and n[3] is not None and n[3][0] == "macro" and n[3][1] == "write" \
                        and n[3][2] and n[3][2][0][0] == "id" and self.spec.get("format_bytes"):
                    if n[3][2][0][1] not in out:
                        out.append(n[3][2][0][1])
                if n and n[0] == "expr" and n[1][0] == "mcall" and n[1][2] in MUTATORS:
                    v = root(n[1][1])
                    if v is not None and v not in out:
                        out.append(v)
                for c in n:
                    walk(c)
            elif isinstance(n, list):
                for c in n:
                    walk(c)
        walk(block)
        return out

    def block(self, b, env, ctx):
        stmts, tl = b[1], b[2]
        return self.stmts(list(stmts), tl, env, ctx)

    def stmts(self, stmts, tl, env, ctx):
        if not stmts:
            if tl is None:
                if ctx.fall is None:
                    raise Unsupported("block without a value")
                return ctx.fall(env)
            return self.tail(tl, env, ctx)
        s, rest = stmts[0], stmts[1:]
        k = s[0]

        def after(env_):
            return self.stmts(rest, tl, env_, ctx)
        if k == "item":
            return after(env)
        if k == "cfg":
            # accepted only when, with the feature on or off, the result is the same: a block of `tracing::Span::current().record(..)`
            inner = s[2]
            ok_ = False
            if s[1].replace(" ", "") == 'cfg(feature="tracing")' and inner[0] == "expr" and inner[1][0] == "block" and inner[1][2] is None:
                ok_ = all(x[0] == "expr" and x[1][0] == "mcall" and x[1][2] == "record" and x[1][1] == ("call", ("path", ["tracing", "Span", "current"]), [])
                          for x in inner[1][1])
            if s[1].replace(" ", "") == 'cfg(feature="tracing")' and inner[0] == "expr" and inner[1][0] == "mcall" and inner[1][2] == "record" \
                    and inner[1][1] == ("call", ("path", ["tracing", "Span", "current"]), []):
                ok_ = True
            if not ok_:
                raise Unsupported("statement under #[%s]" % s[1])
            return after(env)
        def print_only(n):
            """a statement whose only effect is text on stdout/stderr"""
            if n[0] == "expr" and n[1][0] == "macro" and n[1][1] in ("println", "eprintln"):
                return True
            if n[0] == "for" and n[3][2] is None and all(print_only(x) for x in n[3][1]):
                return True
            def pure_cond(c):
                """no macro, no function call, only a few known-pure methods: skipping the `if` cannot skip an effect"""
                if isinstance(c, tuple):
                    if c and c[0] in ("macro", "call", "try", "closure", "assign"):
                        return False
                    if c and c[0] == "mcall" and c[2] not in ("is_empty", "len", "is_some", "is_none", "contains_key"):
                        return False
                    return all(pure_cond(x) for x in c)
                if isinstance(c, list):
                    return all(pure_cond(x) for x in c)
                return True
            if n[0] == "expr" and n[1][0] == "if" and pure_cond(n[1][1]) and n[1][2][2] is None and all(print_only(x) for x in n[1][2][1]) \
                    and (n[1][3] is None or (n[1][3][0] == "block" and n[1][3][2] is None and all(print_only(x) for x in n[1][3][1]))):
                return True
            return False
        if self.spec.get("prints_ignored") and k in ("for", "expr") and print_only(s) and not (k == "expr" and s[1][0] == "macro"):
            # `for x in list { println!(.. x ..) }` on stdout is recorded as "the list was printed" when the spec asks for it
            pr = self.spec.get("printed_var")
            if k == "for" and pr and len(s[3][1]) == 1 and s[3][1][0][1][1] == "println":
                names = set()
                def pv(q):
                    if q[0] == "pbind":
                        names.add(q[1])
                    elif q[0] == "ptuple":
                        for z in q[1]:
                            pv(z)
                pv(s[1])
                toks = " ".join(str(t[1]) for t in s[3][1][0][1][2])
                if not all(re.search(r"\b%s\b" % re.escape(nm), toks) for nm in names):
                    raise Unsupported("a printing loop does not print every component of its element")
                fmt0 = s[3][1][0][1][2][0][1] if s[3][1][0][1][2] and s[3][1][0][1][2][0][0] == "str" else ""
                for key, tag in self.spec.get("print_tags", []):
                    if key in fmt0:
                        return "let %s := %s ++ map %s %s in %s" % (pr, pr, tag, self.ex(s[2], env), after(env))
                if self.spec.get("print_tags"):
                    raise Unsupported("a printing loop with an unknown line format %s" % fmt0)
                return "let %s := %s ++ %s in %s" % (pr, pr, self.ex(s[2], env), after(env))
            return after(env)
        if k == "expr" and s[1][0] == "mcall" and s[1][2] == "push" and s[1][1][0] == "mcall" and s[1][1][2] == "or_default" and s[1][1][1][0] == "mcall" \
                and s[1][1][1][2] == "entry" and s[1][1][1][1][0] == "path" and len(s[1][1][1][1][1]) == 1 and self.spec.get("iterators"):
            mv = s[1][1][1][1][1][0]
            return "let %s := al_push %s %s %s in %s" % (self.var(mv), self.ex(s[1][1][1][3][0], env), self.ex(s[1][3][0], env), self.var(mv), after(env))
        if k == "expr" and s[1][0] == "if" and s[1][3] is None and s[1][1][0] == "mcall" and s[1][1][2] == "is_err" and s[1][1][1][0] == "macro" \
                and s[1][1][1][1] == "write" and self.spec.get("format_bytes") and all(x[0] == "expr" and x[1][0] == "macro" and x[1][1] in ("println", "eprintln") for x in s[1][2][1]) \
                and s[1][2][2] is None:
            # `if write!(buf, ..).is_err() { eprintln!(..) }`: writing to a String cannot fail; the statement is the write
            return self.stmts([("let", ("pwild",), None, s[1][1][1], None)] + rest, tl, env, ctx)
        if k == "expr" and s[1][0] == "mcall" and self.spec.get("arg_builders"):
            chain, cur = [], s[1]
            while cur[0] == "mcall" and cur[2] == "arg" and len(cur[3]) == 1:
                chain.append(cur[3][0])
                cur = cur[1]
            if chain and cur[0] == "path" and len(cur[1]) == 1 and cur[1][0] in env and cur[1][0] in self.spec["arg_builders"]:
                v = cur[1][0]
                return "let %s := %s ++ [%s] in %s" % (self.var(v), self.var(v), "; ".join(self.ex(a, env) for a in reversed(chain)), after(env))
        if k == "let" and s[1][0] == "pwild" and s[3] is not None and s[3][0] == "macro" and s[3][1] == "write" and self.spec.get("format_bytes") \
                and len(s[3][2]) >= 3 and s[3][2][0][0] == "id" and s[3][2][1] == ("op", ",") and s[3][2][0][1] in env:
            tgt = s[3][2][0][1]
            return "let %s := %s ++ %s in %s" % (self.var(tgt), self.var(tgt), self.format_bytes(list(s[3][2][2:]), env), after(env))
        if k == "let" and s[1][0] == "pbind" and s[3] is not None and s[3][0] == "try" and s[3][1][0] == "call" and s[3][1][1][0] == "path" \
                and "::".join(s[3][1][1][1]) in self.spec.get("res_try_calls", {}):
            tmpl, binds, errw = self.spec["res_try_calls"]["::".join(s[3][1][1][1])]
            ev = self.fresh("e")
            env9 = dict(env, **{s[1][1]: binds.get("type")})
            return "match %s with RErr %s => %s | ROk %s => %s end" % (self.apply(tmpl, [self.ex(a, env) for a in s[3][1][2]]), ev, errw.format(ev),
                                                                     binds["pattern"].format(self.var(s[1][1])), after(env9))
        if k == "let" and s[1][0] == "pbind" and s[3] is not None and s[3][0] == "try" and s[3][1][0] == "mcall" and s[3][1][2] == "map_err" \
                and s[3][1][1][0] == "call" and s[3][1][1][1] == ("path", ["u32", "try_from"]) and self.spec.get("u32_try_from"):
            x = self.ex(s[3][1][1][2][0], env)
            return "if %s >=? 4294967296 then %s else let %s := %s in %s" % (x, self.spec["u32_try_from"], self.var(s[1][1]), x, after(dict(env, **{s[1][1]: "u32"})))
        if k == "let" and s[1][0] == "pbind" and s[1][1] in self.spec.get("print_only_lets", ()):
            def uses(n):
                if isinstance(n, tuple):
                    if len(n) == 2 and n[0] == "path" and list(n[1]) == [s[1][1]]:
                        return True
                    return any(uses(x) for x in n)
                if isinstance(n, list):
                    return any(uses(x) for x in n)
                return False
            if uses(rest) or (tl is not None and uses(tl)):
                raise Unsupported("`%s` is no longer used by messages only" % s[1][1])
            return after(env)
        if k == "expr" and self.spec.get("state_fn_calls"):
            e7 = s[1]
            tried = False
            while e7[0] == "try":
                e7, tried = e7[1], True
            if e7[0] == "call" and e7[1][0] == "path" and "::".join(e7[1][1]) in self.spec["state_fn_calls"]:
                tmpl, binds, failed, errv = self.spec["state_fn_calls"]["::".join(e7[1][1])]
                if not tried:
                    raise Unsupported("the result of %s is no longer propagated with `?`" % "::".join(e7[1][1]))
                call = self.apply(tmpl, [self.ex(a, env) for a in e7[2]])
                return "let '(%s) := %s in if %s then %s else %s" % (", ".join(binds), call, failed, ctx.ret(errv), paren(after(env)))
        if k == "assign" and s[1][0] == "field" and s[1][1][0] == "path" and len(s[1][1][1]) == 1:
            key = (env.get(s[1][1][1][0]), s[1][2])
            if key in self.spec.get("ignored_field_assigns", ()):
                return after(env)
            if key in self.spec.get("field_is_self", ()) and s[2] == "=":
                return "let %s := %s in %s" % (self.var(s[1][1][1][0]), self.ex(s[3], env), after(env))
        if k == "expr" and self.spec.get("effects_set"):
            e8 = s[1]
            while e8[0] == "try":
                e8 = e8[1]
            if e8[0] == "mcall" and e8[1][0] == "path" and len(e8[1][1]) == 1 and (e8[1][1][0] + "." + e8[2]) in self.spec["effects_set"]:
                var, tmpl = self.spec["effects_set"][e8[1][1][0] + "." + e8[2]]
                return "let %s := %s in %s" % (var, self.apply(tmpl, [self.var(e8[1][1][0])] + [self.ex(a, env) for a in e8[3]]), after(env))
        if k == "let" and s[1][0] == "pbind" and s[3] is not None and s[3][0] == "repeat" and s[3][1] == ("num", 0) and s[3][2][0] == "path" \
                and "::".join(s[3][2][1]) in self.spec.get("buffer_sizes", {}) and self.spec.get("read_exact"):
            self.buffers[s[1][1]] = self.spec["buffer_sizes"]["::".join(s[3][2][1])]
            return after(dict(env, **{s[1][1]: "Vec<u8>"}))
        if k == "let" and s[1][0] == "pbind" and s[3] is not None and s[3][0] == "repeat" and s[3][1] == ("num", 0) and s[3][2][0] == "num" and self.spec.get("read_exact"):
            # `let mut m = [0u8; N];` - a buffer that a following `r.read_exact(&mut m)?` fills
            self.buffers[s[1][1]] = s[3][2][1]
            return after(dict(env, **{s[1][1]: "[u8;%d]" % s[3][2][1]}))
        if k == "let" and s[1][0] == "pbind" and s[3] is not None and s[3][0] == "macro" and s[3][1] == "vec" and self.spec.get("read_exact") \
                and len(s[3][2]) >= 3 and s[3][2][0][0] == "num" and str(s[3][2][0][1]) in ("0", "0u8") and s[3][2][1] == ("op", ";"):
            # `let mut buf = vec![0u8; n];` - a buffer of n bytes (n an expression) that a following read_exact fills
            n_e = R.Parser(list(s[3][2][2:])).expr()
            self.buffers[s[1][1]] = paren(self.ex(n_e, env))
            return after(dict(env, **{s[1][1]: "Vec<u8>"}))
        if k == "expr" and self.spec.get("read_exact"):
            e0 = s[1]
            while e0[0] == "try":
                e0 = e0[1]
            if e0[0] == "mcall" and e0[2] == "read_exact" and e0[1][0] == "path" and len(e0[3]) == 1 and e0[3][0][0] == "path" and e0[3][0][1][0] in self.buffers:
                rv, bv = self.var(e0[1][1][0]), self.var(e0[3][0][1][0])
                fail = self.spec["read_exact"]
                if isinstance(fail, dict):
                    fail = fail[e0[3][0][1][0]]
                return "match take_exact %s %s with Some (%s, %s) => %s | None => %s end" % (self.buffers[e0[3][0][1][0]], rv, bv, rv, after(env), fail)
        if k == "let" and s[1][0] == "pbind" and s[3] is not None and self.spec.get("opens"):
            e0 = s[3]
            while e0[0] == "try":
                e0 = e0[1]
            if e0[0] == "call" and e0[1][0] == "path" and "::".join(e0[1][1]) in self.spec["opens"] and len(e0[2]) == 1:
                tmpl = self.spec["opens"]["::".join(e0[1][1])]
                ptxt = self.ex(e0[2][0], env)
                self.handles[s[1][1]] = ptxt
                rest_txt = after(dict(env, **{s[1][1]: "File"}))
                return ("let effs := effs ++ [%s] in %s" % (self.apply(tmpl, [ptxt]), rest_txt)) if tmpl else rest_txt
        su = s[1] if k == "expr" else None
        while su is not None and ((su[0] == "try" and self.spec.get("try_transparent")) or (su[0] == "field" and su[2] == "await")):
            su = su[1]
        if su is not None and su[0] == "mcall" and su[1][0] == "path" and len(su[1][1]) == 1 and (su[1][1][0] + "." + su[2]) in self.spec.get("updates", {}):
            v = su[1][1][0]
            tmpl = self.spec["updates"][v + "." + su[2]]
            return "let %s := %s in %s" % (self.var(v), self.apply(tmpl, [self.var(v)] + [self.ex(a, env) for a in su[3] if a[0] != "closure"]), after(env))
        sc = s[1] if k == "expr" else None
        while sc is not None and (sc[0] == "try" or (sc[0] == "field" and sc[2] == "await")):
            sc = sc[1]
        if sc is not None and sc[0] == "call" and sc[1][0] == "path" and "::".join(sc[1][1]) in self.spec.get("call_updates", {}):
            idx, tmpl = self.spec["call_updates"]["::".join(sc[1][1])]
            tgt = sc[2][idx]
            if tgt[0] != "path" or len(tgt[1]) != 1 or tgt[1][0] not in env:
                raise Unsupported("%s: argument %d is not a local variable" % ("::".join(sc[1][1]), idx))
            return "let %s := %s in %s" % (self.var(tgt[1][0]), self.apply(tmpl, [self.ex(a, env) for a in sc[2]]), after(env))
        if su is not None and su[0] == "call" and su[1][0] == "path" and "::".join(su[1][1]) in self.spec.get("call_checks", {}):
            if s[1][0] != "try":
                raise Unsupported("the result of %s is no longer propagated with `?`" % "::".join(su[1][1]))
            tmpl, errv = self.spec["call_checks"]["::".join(su[1][1])]
            return "if %s then %s else %s" % (self.apply(tmpl, [self.ex(a, env) for a in su[2]]), paren(after(env)), ctx.ret(errv))
        sm = s[3] if (k == "let" and s[1][0] in ("pbind", "pwild") and s[3] is not None) else su
        while sm is not None and (sm[0] == "try" or (sm[0] == "field" and sm[2] == "await") or (sm[0] == "mcall" and sm[2] == "map_err")):
            sm = sm[1]
        if sm is not None and sm[0] == "mcall" and sm[1][0] == "path" and len(sm[1][1]) == 1 and (sm[1][1][0] + "." + sm[2]) in self.spec.get("mcall_effects", {}):
            efft = self.spec["mcall_effects"][sm[1][1][0] + "." + sm[2]]
            bind = "let %s := tt in " % self.var(s[1][1]) if (k == "let" and s[1][0] == "pbind") else ""
            env9 = dict(env, **{s[1][1]: "()"}) if (k == "let" and s[1][0] == "pbind") else env
            return "let effs := effs ++ [%s] in %s%s" % (efft, bind, after(env9))
        sx = s[1][1] if (k == "expr" and s[1][0] == "try") else None
        if sx is not None and sx[0] == "mcall" and ("." + sx[2]) in self.spec.get("res_check_calls", {}):
            tmpl9, errw9 = self.spec["res_check_calls"]["." + sx[2]]
            ev = self.fresh("e")
            return "match %s with RErr %s => %s | ROk _ => %s end" % (self.apply(tmpl9, [self.ex(sx[1], env)] + [self.ex(a, env) for a in sx[3]]), ev, errw9.format(ev), paren(after(env)))
        if sx is not None and sx[0] == "mcall" and ("." + sx[2]) in self.spec.get("try_res_calls", {}):
            ev = self.fresh("e")
            return "match %s with RErr %s => %s | ROk _ => %s end" % (self.apply(self.spec["try_res_calls"]["." + sx[2]], [self.ex(sx[1], env)] + [self.ex(a, env) for a in sx[3]]),
                                                                       ev, ctx.ret("RErr " + ev) if False else "RErr " + ev, paren(after(env)))
        # `obj.check()?;` where a failure leaves the function with a fixed value
        if su is not None and s[1][0] == "try" and su[0] == "mcall" and ("." + su[2]) in self.spec.get("try_checks", {}):
            tmpl, errv = self.spec["try_checks"]["." + su[2]]
            return "if %s then %s else %s" % (self.apply(tmpl, [self.ex(su[1], env)] + [self.ex(a, env) for a in su[3]]), paren(after(env)), ctx.ret(errv) if False else errv)
        if k == "let" and s[1][0] == "pbind" and s[3] is not None and self.spec.get("effects"):
            le = self.effect_of(("expr", s[3], True), env)
            if le is not None:
                return "let effs := effs ++ [%s] in let %s := tt in %s" % (le, self.var(s[1][1]), after(dict(env, **{s[1][1]: "()"})))
        if self.spec.get("ignored_calls"):
            e9 = s[1] if k == "expr" else (s[3] if k == "let" and s[1][0] == "pwild" else None)
            if e9 is not None:
                while e9[0] == "try":
                    e9 = e9[1]
                if e9[0] == "call" and e9[1][0] == "path" and "::".join(e9[1][1]) in self.spec["ignored_calls"]:
                    return after(env)
        if self.spec.get("state"):
            st = self.spec["state"]
            # let _ = f(..);  /  f(..);  where f updates the state
            e0 = s[1] if k == "expr" else (s[3] if k == "let" and s[1][0] == "pwild" else None)
            if e0 is not None:
                while e0[0] == "try" or (e0[0] == "field" and e0[2] == "await"):
                    e0 = e0[1]
                if e0[0] == "mcall" and e0[1][0] == "path" and len(e0[1][1]) == 1 and (e0[1][1][0] + "." + e0[2]) in self.spec.get("try_out_calls", {}):
                    var, tmpl, errv = self.spec["try_out_calls"][e0[1][1][0] + "." + e0[2]]
                    o = self.fresh("o")
                    return "match %s with Some %s => let %s := %s in %s | None => %s end" % (
                        self.apply(tmpl, [self.ex(a, env) for a in e0[3]]), o, self.var(var), o, after(env), ctx.ret(errv))
                if e0[0] == "call" and e0[1][0] == "path" and "::".join(e0[1][1]) in self.spec.get("state_updates", {}):
                    if "::".join(e0[1][1]) in self.spec.get("only_under_lock", ()) and not self.in_closure:
                        raise Unsupported("%s is called outside the closure passed to with_commit_lock" % "::".join(e0[1][1]))
                    tmpl = self.spec["state_updates"]["::".join(e0[1][1])]
                    return "let %s := %s in %s" % (st, self.apply(tmpl, [self.ex(a, env) for a in e0[2]]), after(env))
            # let x = obj.method(..)?;  where the method acts on the state and returns a value
            if k == "let" and s[1][0] == "pbind" and s[3] is not None:
                e2 = s[3]
                while e2[0] == "try":
                    e2 = e2[1]
                if e2[0] == "mcall" and e2[1][0] == "path" and len(e2[1][1]) == 1 and (e2[1][1][0] + "." + e2[2]) in self.spec.get("state_calls", {}):
                    tmpl = self.spec["state_calls"][e2[1][1][0] + "." + e2[2]]
                    return "let '(%s, %s) := %s in %s" % (st, self.var(s[1][1]), self.apply(tmpl, [self.ex(a, env) for a in e2[3]]), after(dict(env, **{s[1][1]: None})))
            if k == "expr" and s[1][0] == "mcall" and s[1][1][0] == "path" and len(s[1][1][1]) == 1 and (s[1][1][1][0] + "." + s[1][2]) in self.spec.get("ignored_mcalls", ()):
                return after(env)
            # let x = inlined_closure_call(.., || body)?;   ->  let '(state, x) := <body as (state, value)> in
            if k == "let" and s[1][0] == "pbind" and s[3] is not None:
                e1 = s[3]
                while e1[0] == "try":
                    e1 = e1[1]
                if e1[0] == "call" and e1[1][0] == "path" and "::".join(e1[1][1]) in self.spec.get("inline_closure_calls", {}):
                    ci = self.spec["inline_closure_calls"]["::".join(e1[1][1])]
                    clo = e1[2][ci]
                    if clo[0] != "closure" or clo[1]:
                        raise Unsupported("expected a closure without parameters")
                    self.in_closure = True
                    body = self.tail(clo[2], env, Ctx(val=lambda v: "(%s, %s)" % (st, v), ret=None, fall=None))
                    self.in_closure = False
                    return "let '(%s, %s) := %s in %s" % (st, self.var(s[1][1]), paren(body), after(dict(env, **{s[1][1]: None})))
        eff = self.effect_of(s, env)
        if eff is not None:
            return "let effs := effs ++ [%s] in %s" % (eff, after(env))
        if k == "let":
            pat, ty_, e, els = s[1], s[2], s[3], s[4]
            if e is None:
                raise Unsupported("let without initialiser")
            t = norm_type(ty_) if ty_ else None
            if t == "Self":
                t = self.spec.get("self_type", t)
            if els is not None:
                # let PAT = e else { diverge };
                st = self.ty(e, env)
                if e[0] == "tuple":
                    st = "(" + ",".join(self.ty(x, env) or "?" for x in e[1]) + ")"
                ps, add = self.pat(pat, env, st)
                other = self.block(els, env, Ctx(val=None, ret=ctx.ret, fall=None, cont=ctx.cont, brk=getattr(ctx, "brk", None)))
                return "match %s with %s => %s | _ => %s end" % (self.ex(e, env), ps, after(dict(env, **add)), other)
            opt_try = e[0] == "try" and e[1][0] == "call" and e[1][1][0] == "path" and "::".join(e[1][1][1]) in self.spec.get("opt_try_calls", ())
            if pat[0] == "pbind" and e[0] == "try" and (opt_try or not self.spec.get("try_transparent")):
                # `let x = e?;` in a function returning Option: None propagates
                inner = e[1]
                it = self.ty(inner, env)
                m = re.match(r"Option<(.*)>$", it or "")
                tt = t or (m.group(1) if m else None)
                none = self.spec.get("try_none")
                if none is None:
                    raise Unsupported("`?` in a function without a propagation value")
                return "match %s with Some %s => %s | None => %s end" % (self.ex(inner, env), self.var(pat[1]), after(dict(env, **{pat[1]: tt})), ctx.ret(none) if opt_try and ctx.ret else none)
            if pat[0] == "pbind":
                tt = t or self.ty(e, env)
                conv = self.spec.get("let_conv", {}).get(pat[1])
                val = conv if conv is not None else self.ex(e, env)
                return "let %s := %s in %s" % (self.var(pat[1]), val, after(dict(env, **{pat[1]: tt})))
            if pat[0] == "ptuple" and e[0] == "tuple" and len(pat[1]) == len(e[1]) and all(q[0] == "pbind" for q in pat[1]):
                out_env = dict(env)
                lets = []
                for q, x in zip(pat[1], e[1]):
                    tx = self.ty(x, env)
                    if tx == "int":
                        tx = "usize"
                    if tx == "Option<?>":
                        tx = self.spec.get("local_types", {}).get(q[1], tx)
                    lets.append((self.var(q[1]), self.ex(x, env)))
                    out_env[q[1]] = tx
                return "".join("let %s := %s in " % l for l in lets) + after(out_env)
            if pat[0] == "ptuple" and all(q[0] == "pbind" for q in pat[1]):
                # let (x, y, ..) = <any expression of tuple type>;
                tt = self.ty(e, env)
                parts = split_top(tt[1:-1]) if tt and tt.startswith("(") and tt.endswith(")") else []
                out_env = dict(env)
                for i, q in enumerate(pat[1]):
                    out_env[q[1]] = parts[i] if len(parts) == len(pat[1]) and parts[i] != "?" else None
                return "let '(%s) := %s in %s" % (", ".join(self.var(q[1]) for q in pat[1]), self.ex(e, env), after(out_env))
            raise Unsupported("let pattern")
        if k == "assign" and s[1][0] == "field":
            lhs, op, e = s[1], s[2], s[3]
            cur = self.ex(lhs, env)
            if op == "=":
                val = self.ex(e, env)
            elif op == "+=" and self.ty(lhs, env) in ("usize", "int"):
                val = "(%s + %s)" % (cur, self.ex(e, env))
            else:
                raise Unsupported("field assignment %s at type %s" % (op, self.ty(lhs, env)))
            return self.set_place(lhs, val, env) + after(env)
        if k == "expr" and s[1][0] == "mcall" and s[1][2] in MUTATORS:
            recv, name, args = s[1][1], s[1][2], s[1][3]
            cur = self.ex(recv, env)
            t = self.ty(recv, env)
            if name == "push" and len(args) == 1:
                val = "(%s ++ [%s])" % (cur, self.ex(args[0], env))
            elif name in ("sort", "sort_unstable") and not args:
                val = "(%s %s)" % (self.sorter(t), cur)
            elif name == "dedup" and not args:
                val = "(%s %s)" % (self.deduper(t), cur)
            else:
                raise Unsupported("mutating call .%s" % name)
            return self.set_place(recv, val, env) + after(env)
        if k == "assign":
            lhs, op, e = s[1], s[2], s[3]
            if lhs[0] != "path" or len(lhs[1]) != 1 or lhs[1][0] not in env:
                raise Unsupported("assignment to a non-local")
            v = lhs[1][0]
            if op == "=":
                val = self.ex(e, env)
            elif op == "+=":
                if env.get(v) not in ("usize", "int") and v not in self.spec.get("exact_add", ()):
                    raise Unsupported("+= at type %s" % env.get(v))
                val = "(%s + %s)" % (self.var(v), self.ex(e, env))
            else:
                raise Unsupported("assignment operator " + op)
            return "let %s := %s in %s" % (self.var(v), val, after(env))
        if k == "while":
            cond, body = s[1], s[2]
            vs = self.assigned(body)
            if not vs:
                raise Unsupported("while loop without state")
            self.uses_fuel = True
            tup = "(" + ", ".join(self.var(v) for v in vs) + ")"
            lam = "fun '%s" % tup if len(vs) > 1 else "fun %s" % self.var(vs[0])
            fall = lambda env_: "inl " + tup
            bctx = Ctx(val=None, ret=lambda r: "inr " + paren(r), fall=fall, cont=fall)
            bs = self.block(body, env, bctx)
            r = self.fresh("r")
            if ctx.ret is None:
                raise Unsupported("loop in an expression")
            return ("match while_loop fuel (%s => %s) (%s => %s) %s with Some (inl %s) => %s | Some (inr %s) => %s | None => None end"
                    % (lam, self.ex(cond, env), lam, bs, tup, tup, after(env), r, ctx.ret(r)))
        if k == "for":
            pat, it, body = s[1], s[2], s[3]
            vs = self.assigned(body)
            tup = "(" + ", ".join(self.var(v) for v in vs) + ")" if len(vs) != 1 else self.var(vs[0]) if vs else "tt"
            if not vs:
                tup = "tt"
            lam_s = ("fun '%s" % tup) if len(vs) > 1 else ("fun %s" % (self.var(vs[0]) if vs else "_"))
            it_t = self.ty(it, env)
            elem_t = None
            m = re.match(r"Vec<(.*)>$|\[(.*)\]$", it_t or "")
            if m:
                elem_t = m.group(1) or m.group(2)
            ps, add = self.pat(pat, env, elem_t)
            env2 = dict(env, **add)
            fall = lambda env_: "inl " + tup
            if ctx.ret is None:
                raise Unsupported("loop in an expression")
            has_break = '["break"]' in json.dumps(body)
            if has_break:
                # `break` leaves the loop with the CURRENT state: the value of the rest of the function from there; an
                # early `return` inside the loop is wrapped in place, and the caller passes either through unchanged
                bctx = Ctx(val=None, ret=lambda r_: "inr " + paren(ctx.ret(r_)), fall=fall, cont=fall, brk=lambda env_: "inr " + paren(after(env_)))
                bs = self.block(body, env2, bctx)
                r = self.fresh("r")
                return ("match for_loop %s (fun %s => %s => %s) %s with inl %s => %s | inr %s => %s end"
                        % (self.ex(it, env), paren(ps) if ps[0] != "(" else "'" + ps, lam_s, bs, tup, tup if vs else "_", after(env), r, r))
            bctx = Ctx(val=None, ret=lambda r: "inr " + paren(r), fall=fall, cont=fall)
            bs = self.block(body, env2, bctx)
            r = self.fresh("r")
            return ("match for_loop %s (fun %s => %s => %s) %s with inl %s => %s | inr %s => %s end"
                    % (self.ex(it, env), paren(ps) if ps[0] != "(" else "'" + ps, lam_s, bs, tup, tup if vs else "_", after(env), r, ctx.ret(r)))
        if k == "expr":
            e = s[1]
            if e[0] == "return":
                if ctx.ret is None:
                    raise Unsupported("return in an expression")
                return ctx.ret(self.ex(e[1], env) if e[1] is not None else "tt")
            if e[0] == "continue":
                if getattr(ctx, "cont", None) is None:
                    raise Unsupported("continue outside a loop")
                return ctx.cont(env)
            if e[0] == "break":
                if getattr(ctx, "brk", None) is None:
                    raise Unsupported("break outside a `for` loop")
                return ctx.brk(env)
            if e[0] == "macro" and e[1] == "debug_assert_eq" and self.spec.get("debug_asserts"):
                # the checked build panics when the two sides differ: `if checked && negb (a = b) then <panic> else ...`
                parts, cur, depth = [], [], 0
                for tk in e[2]:
                    depth += tk[1] in ("(", "[", "{") and tk[0] == "op"
                    depth -= tk[1] in (")", "]", "}") and tk[0] == "op"
                    if tk == ("op", ",") and depth == 0:
                        parts.append(cur)
                        cur = []
                    else:
                        cur.append(tk)
                if cur:
                    parts.append(cur)
                if len(parts) < 2:
                    raise Unsupported("debug_assert_eq! with %d arguments" % len(parts))
                a, b = R.Parser(parts[0]).expr(), R.Parser(parts[1]).expr()
                flag, panic = self.spec["debug_asserts"]
                return "if %s && negb (%s) then %s else %s" % (flag, self.ex(("bin", "==", a, b), env), panic, paren(after(env)))
            if e[0] == "macro" and e[1] in ("debug_assert", "debug_assert_eq", "debug_assert_ne"):
                return after(env)
            if e[0] == "macro" and e[1] in ("println", "eprintln") and self.spec.get("prints_ignored"):
                fmt = e[2][0][1] if e[2] and e[2][0][0] == "str" else ""
                for key, efft in self.spec.get("print_effects", []):
                    if key in fmt:
                        return "let effs := effs ++ [%s] in %s" % (efft, after(env))
                return after(env)
            if e[0] in ("if", "iflet", "match", "block"):
                # statement position: every branch continues with the rest of the block (duplicated)
                sub = Ctx(val=None, ret=ctx.ret, fall=lambda env_: after(env_), cont=getattr(ctx, "cont", None), brk=getattr(ctx, "brk", None))
                return self.tail(e, env, sub)
            raise Unsupported("expression statement " + e[0])
        raise Unsupported("statement " + k)


MUTATORS = ("push", "sort", "sort_unstable", "dedup")


def rust_unescape(body):
    """the characters of a Rust string literal's body (between the quotes)"""
    out, i = "", 0
    esc = {"n": "\n", "t": "\t", "r": "\r", "0": "\0", "\\": "\\", "'": "'", '"': '"'}
    while i < len(body):
        c = body[i]
        if c == "\\" and i + 1 < len(body) and body[i + 1] in esc:
            out += esc[body[i + 1]]
            i += 2
        elif c == "\\":
            raise Unsupported("string escape \\%s" % body[i + 1:i + 2])
        else:
            out += c
            i += 1
    return out


class Ctx:
    def __init__(self, val, ret, fall, cont=None, brk=None):
        self.val, self.ret, self.fall, self.cont, self.brk = val, ret, fall, cont, brk


def paren(s):
    s = s.strip()
    if re.match(r"^[\w.']+$", s) or (s.startswith("(") and matching(s) == len(s) - 1) or (s.startswith("[") and s.endswith("]") and s.count("[") == 1):
        return s
    return "(" + s + ")"


def matching(s):
    d = 0
    for i, c in enumerate(s):
        d += c == "("
        d -= c == ")"
        if d == 0:
            return i
    return -1


def split_top(t):
    out, depth, cur = [], 0, ""
    for ch in t:
        if ch in "<([":
            depth += 1
        elif ch in ">)]":
            depth -= 1
        if ch == "," and depth == 0:
            out.append(cur)
            cur = ""
        else:
            cur += ch
    if cur:
        out.append(cur)
    return out


def flat_text(e):
    """all string literals and identifiers of an expression, in order (used to classify error values)"""
    out = []

    def walk(n):
        if isinstance(n, tuple):
            if n and n[0] == "str":
                out.append(n[1])
            elif n and n[0] == "path":
                out.append("::".join(n[1]))
            elif n and n[0] == "struct":
                out.append("::".join(n[1]))
            elif n and n[0] == "macro":
                out.extend(v for _, v in n[2])
            for c in n[1:]:
                walk(c)
        elif isinstance(n, list):
            for c in n:
                walk(c)
    walk(e)
    return " ".join(out)


# ---------------------------------------------------------------- the functions that are translated
def check_enum(src, name, expected):
    got = [v for v, _, _ in R.enum_variants(src, name)]
    if got != expected:
        raise Unsupported("enum %s is %s, the model has %s" % (name, got, expected))


def check_struct(src, name, expected):
    got = R.struct_fields(src, name)
    if got != expected:
        raise Unsupported("struct %s is %s, the model has %s" % (name, got, expected))


def read(rel):
    return open(os.path.join(REPO, rel), encoding="utf-8").read()


def translate_fn(src, name, within, spec, gname, gparams, gret, env_types=None, self_type=None):
    params, ret, body = R.find_fn(src, name, within)
    if self_type:
        spec = dict(spec, self_type=self_type)
    fn = Fn(spec)
    env = {}
    for n, t in params:
        t = norm_type(t)
        if t == "Self" and self_type:
            t = self_type
        env[n] = spec.get("param_types", {}).get(n, t)
    if env_types:
        env.update(env_types)
    want = spec.get("signature")
    if want is not None and [(n, norm_type(t)) for n, t in params] != want:
        raise Unsupported("signature of %s is %s, expected %s" % (name, params, want))
    top = Ctx(val=(lambda s: s), ret=(lambda s: s), fall=None)
    loops = "while" in json.dumps(body)
    if loops:
        top = Ctx(val=(lambda s: "Some " + paren(s)), ret=(lambda s: "Some " + paren(s)), fall=None)
    text = spec.get("prologue", "") + fn.block(body, env, top)
    fuel = "(fuel : nat) " if fn.uses_fuel else ""
    rt = ("option " + paren(gret)) if fn.uses_fuel else gret
    return "Definition %s %s%s : %s :=\n  %s." % (gname, fuel, gparams, rt, text)


def functions():
    """[(key, description, thunk -> Gallina text)]"""
    out = []
    rec = "src/bin/copia/reconcile.rs"
    fp_spec = dict(
        fields={("Fingerprint", "blake3"): ("(blake3 {0})", "[u8;32]"), ("Fingerprint", "ftype"): ("(ftype {0})", "FileType")},
        eq={"[u8;32]": "digest_eqb", "FileType": "ftype_eqb"},
        paths={"Noop": "Noop", "PropagateAtoB": "PropagateAtoB", "PropagateBtoA": "PropagateBtoA",
               "ConvergeIdentical": "ConvergeIdentical", "DeleteA": "DeleteA", "DeleteB": "DeleteB", "Conflict": "Conflict",
               "BothChanged": "BothChanged", "DeleteVsModify": "DeleteVsModify"},
        calls={"Fingerprint::same": ("g_same", "bool")},
    )

    def t_same():
        src = read(rec)
        check_struct(src, "Fingerprint", [("blake3", "[u8;32]"), ("ftype", "FileType")])
        check_enum(src, "FileType", ["File", "Symlink"])
        return translate_fn(src, "same", "Fingerprint", fp_spec, "g_same", "(a b : fingerprint digest)", "bool", self_type="Fingerprint")

    def t_reconcile_path():
        src = read(rec)
        check_enum(src, "Action", ["Noop", "PropagateAtoB", "PropagateBtoA", "ConvergeIdentical", "DeleteA", "DeleteB", "Conflict"])
        check_enum(src, "ConflictKind", ["BothChanged", "DeleteVsModify"])
        spec = dict(fp_spec, signature=[("a", "Option<Fingerprint>"), ("b", "Option<Fingerprint>"), ("base", "Option<Fingerprint>")])
        return translate_fn(src, "reconcile_path", None, spec, "g_reconcile_path", "(a b base : option (fingerprint digest))", "action")
    out.append(("same", rec + " Fingerprint::same", "digest", t_same))
    out.append(("reconcile_path", rec + " reconcile_path", "digest", t_reconcile_path))

    def t_reconcile():
        src = read(rec)
        if not re.search(r"pub type FpMap\s*=\s*BTreeMap<PathBuf,\s*Fingerprint>;", src):
            raise Unsupported("FpMap is no longer BTreeMap<PathBuf, Fingerprint>")
        spec = dict(fp_spec, signature=[("a", "FpMap"), ("b", "FpMap"), ("base", "FpMap"), ("trust_base", "bool")],
                    calls={".keys": ("map fst {0}", "Vec<PathBuf>"), ".get": ("al_get cmp {1} {0}", "Option<Fingerprint>"),
                           "reconcile_path": ("g_reconcile_path", "Action"), "Vec::new": ("[]", "Vec<?>")},
                    sort={"Vec<PathBuf>": "sort_keys cmp"}, dedup={"Vec<PathBuf>": "dedup_keys cmp"},
                    eq=dict(fp_spec["eq"], Action="action_eqb"))
        text = translate_fn(src, "reconcile", None, spec, "g_reconcile", "(a b base : list (K * fingerprint digest)) (trust_base : bool)",
                            "list (K * action)")
        return ("Variable K : Type.\nVariable cmp : K -> K -> comparison.\n"
                "Definition action_eqb (x y : action) : bool :=\n  match x, y with\n  | Noop, Noop | PropagateAtoB, PropagateAtoB | PropagateBtoA, PropagateBtoA"
                " | ConvergeIdentical, ConvergeIdentical\n  | DeleteA, DeleteA | DeleteB, DeleteB | Conflict BothChanged, Conflict BothChanged\n"
                "  | Conflict DeleteVsModify, Conflict DeleteVsModify => true\n  | _, _ => false\n  end.\n" + text)
    out.append(("reconcile", rec + " reconcile", "digest", t_reconcile))

    def t_archive_load():
        src = read("src/bin/copia/archive.rs")
        fields = R.struct_fields(src, "Archive")
        if fields[:2] != [("format_version", "u32"), ("root_pair_hash", "String")] or ("entries", "FpMap") not in fields:
            raise Unsupported("struct Archive is %s" % fields)
        spec = dict(signature=[("path", "Path"), ("expected_pair", "str")], try_none="None",
                    # std::fs::read(path) is the model's `file` (None = absent / unreadable); serde_json::from_slice is `parse`
                    calls={"std::fs::read": ("file {0}", "Option<Vec<u8>>"), "serde_json::from_slice": ("parse", "Option<Archive>")},
                    fields={("Archive", "format_version"): ("(fst (fst {0}))", "u32"), ("Archive", "root_pair_hash"): ("(snd (fst {0}))", "String")},
                    consts={"FORMAT_VERSION": ("ARCHIVE_FORMAT_VERSION", "u32")}, eq={"String": "bytes_eqb"},
                    param_types={"expected_pair": "String"})
        return translate_fn(src, "load", "Archive", spec, "g_archive_load",
                            "(path expected_pair : list Z)", "option (Z * list Z * E)", self_type="Archive")
    out.append(("archive_load", "src/bin/copia/archive.rs Archive::load", None, t_archive_load))

    def t_apply():
        src = read("src/bin/copia/bidir.rs")
        params, ret, body = R.find_fn(src, "apply", None)
        # the conflict-copy name: `<rel>.conflict-<host>-<short_hex(loser digest)>` built by a block that is checked literally
        want = ("let", ("pbind", "loser_name"), None,
                ("block",
                 [("let", ("pbind", "n"), None, ("mcall", ("mcall", ("path", ["rel"]), "as_os_str", []), "to_owned", []), None),
                  ("expr", ("mcall", ("path", ["n"]), "push", [("macro", "format", [("str", '".conflict-{host}-{}"'), ("op", ","), ("id", "short_hex"), ("op", "("), ("op", "&"), ("id", "lose_fp"), ("op", "."), ("id", "blake3"), ("op", ")")])]), True)],
                 ("call", ("path", ["PathBuf", "from"]), [("path", ["n"])])), None)
        found = [x for x in json.loads(json.dumps(body), object_hook=None) if False]
        def walk(n):
            if isinstance(n, (list, tuple)):
                if len(n) >= 2 and n[0] == "let" and list(n[1]) == ["pbind", "loser_name"]:
                    yield n
                for c in n:
                    yield from walk(c)
        lets = list(walk(json.loads(json.dumps(body))))
        if len(lets) != 1 or lets[0] != json.loads(json.dumps(want)):
            raise Unsupported("apply: the conflict-copy name is no longer built as `<rel>` + format!(\".conflict-{host}-{}\", short_hex(&lose_fp.blake3))")
        spec = dict(
            signature=[("root_a", "Path"), ("root_b", "Path"), ("rel", "Path"), ("act", "Action"), ("a", "FpMap"), ("b", "FpMap"), ("host", "str"),
                       ("common", "FpMap"), ("conflicts", "Vec<PathBuf>")],
            param_types={"root_a": "Side", "root_b": "Side"},
            rename={"root_a": "SA", "root_b": "SB"},
            paths=dict(fp_spec["paths"]),
            fields={("Fingerprint", "blake3"): ("{0}", "[u8;32]")},
            ord={"[u8;32]": {">=": "dge"}},
            calls={".join": ("{0}, {1}", "Place"), ".get": ("{0} !! {1}", "Option<Fingerprint>"),
                   ".contains_key": ("bool_decide (is_Some ({0} !! {1}))", "bool")},
            effects={"copy_atomic": "ECopy {0} {1}", "std::fs::remove_file": "ERemove {0}", "common.insert": "ERecord {0} {1}",
                     "common.remove": "EForget {0}", "conflicts.push": "EConflict {0}"},
            let_conv={"loser_name": "(cname rel lose_fp)"},
            ok=lambda s_: "effs", prologue="let effs := [] in ")
        return translate_fn(src, "apply", None, spec, "g_apply", "(rel : K) (act : Reconcile.action) (a b : gmap K D)", "list eff")
    out.append(("apply", "src/bin/copia/bidir.rs apply", None, t_apply))

    def t_copy_atomic():
        src = read("src/bin/copia/bidir.rs")
        spec = dict(signature=[("src", "Path"), ("dst", "Path")],
                    calls={".parent": ("parent_of {0}", "Option<Path>"), "PathBuf::from": ("{0}", "Path")},
                    effects={"std::fs::create_dir_all": "SMkdirAll {0}", "std::fs::copy": "SCopy {0} {1}",
                             "std::fs::File::open().sync_all": "SFsync {0}", "std::fs::rename": "SRename {0} {1}"},
                    updates={"tmp.push": "with_suffix {0} {1}"}, strings={".copia-tmp": "SufStaging"},
                    ok=lambda s_: "effs", prologue="let effs := [] in ")
        return translate_fn(src, "copy_atomic", None, spec, "g_copy_atomic", "(src dst : pexpr)", "list sys")
    out.append(("copy_atomic", "src/bin/copia/bidir.rs copy_atomic", None, t_copy_atomic))

    ow_spec = dict(calls={"tmp_path": ("g_tmp_path", "Path"), "PathBuf::from": ("{0}", "Path")},
                   effects={"tokio::fs::copy": "OCopy {0} {1}", "tokio::fs::rename": "ORename {0} {1}", "set_local_mtime": "OSetMtime {0} {1}",
                            "transfer_file_from_remote": "OStream {1} {2}"},
                   ok=lambda s_: "effs", prologue="let effs := [] in ")

    def t_tmp_path():
        src = read("src/bin/copia/incremental.rs")
        spec = dict(signature=[("dst", "Path")], calls={"PathBuf::from": ("{0}", "Path")}, updates={"s.push": "ow_with_suffix {0} {1}"},
                    strings={".copia-tmp": "OSufStaging"})
        return translate_fn(src, "tmp_path", None, spec, "g_tmp_path", "(dst : opath)", "opath")
    out.append(("tmp_path", "src/bin/copia/incremental.rs tmp_path", None, t_tmp_path))

    def t_deliver_local():
        src = read("src/bin/copia/incremental.rs")
        spec = dict(ow_spec, signature=[("src", "Path"), ("dst", "Path"), ("mtime", "Option<i64>")])
        return translate_fn(src, "deliver_local", None, spec, "g_deliver_local", "(src dst : opath) (mtime : option Z)", "list osys")
    out.append(("deliver_local", "src/bin/copia/incremental.rs deliver_local", None, t_deliver_local))

    def t_deliver_pull():
        src = read("src/bin/copia/incremental.rs")
        spec = dict(ow_spec, signature=[("host", "str"), ("remote_file", "str"), ("local_dest", "Path"), ("mtime", "Option<i64>")],
                    rename={"remote_file": "remote_file"})
        return translate_fn(src, "deliver_pull", None, spec, "g_deliver_pull", "(host remote_file : list Z) (local_dest : opath) (mtime : option Z)", "list osys")
    out.append(("deliver_pull", "src/bin/copia/incremental.rs deliver_pull", None, t_deliver_pull))

    def t_archive_save():
        src = read("src/bin/copia/archive.rs")
        spec = dict(signature=[("self", "Self"), ("path", "Path")], try_transparent=True,
                    calls={".parent": ("a_parent {0}", "Option<Path>"), "PathBuf::from": ("{0}", "Path"), ".exists": ("path_exists {0}", "bool"),
                           "serde_json::to_vec_pretty": ("tt (* {0} *)", "Vec<u8>")},
                    opens={"std::fs::File::create": "ACreate {0}", "std::fs::File::open": ""},
                    effects={"std::fs::create_dir_all": "AMkdirAll {0}", "std::fs::rename": "ARename {0} {1}",
                             "<handle>.write_all": "AWrite {0}", "<handle>.sync_all": "AFsync {0}"},
                    updates={"s.push": "a_with_suffix {0} {1}", "bak.push": "a_with_suffix {0} {1}"},
                    strings={".tmp": "ASufTmp", ".bak": "ASufBak"}, rename={"self": "self_"},
                    ok=lambda s_: "effs", prologue="let effs := [] in ")
        return translate_fn(src, "save", "Archive", spec, "g_archive_save", "(path : apath)", "list asys", self_type="Archive")
    out.append(("archive_save", "src/bin/copia/archive.rs Archive::save", None, t_archive_save))

    def t_read_magic():
        src = read("src/bin/copia/wire.rs")
        spec = dict(signature=[("r", "R")], read_exact="None", ok=lambda s_: "Some " + paren(s_),
                    consts={"MAGIC": ("MAGIC", "[u8;6]")}, eq={"[u8;6]": "(list_eqb Z.eqb)"}, param_types={"r": "Input"})
        return translate_fn(src, "read_magic", None, spec, "g_read_magic", "(r : list Z)", "option bool")
    out.append(("read_magic", "src/bin/copia/wire.rs read_magic", None, t_read_magic))

    READ_FRAME_LEN = """{
    match r.read_exact(&mut lenb) {
        Ok(()) => {}
        Err(e) if e.kind() == std::io::ErrorKind::UnexpectedEof => return Ok(None),
        Err(e) => return Err(e),
    }
}"""
    READ_FRAME_TAIL = "{ from_reader(&buf[..]).map(Some).map_err(|e| std::io::Error::new(std::io::ErrorKind::InvalidData, e.to_string())) }"

    def t_read_frame():
        src = read("src/bin/copia/wire.rs")
        params, ret, body = R.find_fn(src, "read_frame", None)
        norm = lambda x: json.loads(json.dumps(x))
        want = R.Parser(R.tokenize(READ_FRAME_LEN)).block()
        want_st = want[1][0] if want[1] else ("expr", want[2], False)
        stmts = list(body[1])
        idx = next((i for i, st in enumerate(stmts) if st[0] == "expr" and st[1][0] == "match" and norm(st[1]) == norm(want_st[1] if want_st[0] == "expr" else want_st)), None)
        if idx is None:
            raise Unsupported("read_frame: the length prefix is no longer read by `match r.read_exact(&mut lenb) { Ok(()) => {}, Err(e) if e.kind() == UnexpectedEof => return Ok(None), Err(e) => return Err(e) }`")
        # read as: fewer than 4 bytes left = clean end of the stream (nothing consumed); any other error cannot occur on a byte string
        stmts[idx] = ("expr", ("try", ("mcall", ("path", ["r"]), "read_exact", [("path", ["lenb"])])), True)
        want_tail = R.Parser(R.tokenize(READ_FRAME_TAIL)).block()[2]
        if norm(body[2]) != norm(want_tail):
            raise Unsupported("read_frame: the payload is no longer decoded by `from_reader(&buf[..]).map(Some).map_err(..)`")
        tail = ("call", ("path", ["DECODE"]), [("path", ["buf"])])
        if [n for n, _ in params] != ["r"]:
            raise Unsupported("signature of read_frame is %s" % params)
        spec = dict(read_exact={"lenb": "FEnd r", "buf": "FShort len_ r"}, consts={"MAX_FRAME": ("MAX_FRAME", "u32")},
                    calls={"u32::from_be_bytes": ("be32 {0}", "u32"), "DECODE": ("match decode {0} with Some v => FOk len_ v r | None => FBad len_ r end", "Frame")},
                    errs=[(r"frame exceeds MAX_FRAME", "FTooBig r")], param_types={"r": "Input"})
        fn = Fn(spec)
        text = fn.block(("block", stmts, tail), {"r": "Input"}, Ctx(val=(lambda x: x), ret=(lambda x: x), fall=None))
        return "Definition g_read_frame (r : list Z) : fres :=\n  %s." % text
    out.append(("read_frame", "src/bin/copia/wire.rs read_frame", None, t_read_frame))

    tgt_calls = {".find": ("findZ {0} {1}", "Option<usize>"), ".contains": ("containsZ {0} {1}", "bool"), "PathBuf::from": ("{0}", "Path")}

    def t_split_target():
        src = read("src/bin/copia/hub.rs")
        spec = dict(signature=[("t", "str")], try_none="None", calls=tgt_calls, param_types={"t": "Vec<char>"})
        return translate_fn(src, "split_target", None, spec, "g_split_target", "(t : list Z)", "option (list Z * list Z)")
    out.append(("split_target", "src/bin/copia/hub.rs split_target", None, t_split_target))

    def t_parse_location():
        src = read("src/bin/copia/main.rs")
        spec = dict(signature=[("s", "str")], calls=tgt_calls, param_types={"s": "Vec<char>"},
                    paths={"Self::Local": "LLocal"}, structs={"Self::Remote": ("LRemote", ["host", "path"], ["String", "String"])})
        return translate_fn(src, "parse", "FileLocation", spec, "g_parse_location", "(s : list Z)", "location")
    out.append(("parse_location", "src/bin/copia/main.rs FileLocation::parse", None, t_parse_location))

    def t_handle_delete():
        src = read("src/bin/copia/serve.rs")
        spec = dict(signature=[("root", "Path"), ("lockdir", "Path"), ("path", "str"), ("expected", "Option<Hash>"), ("w", "W")],
                    state="t", state_updates={"std::fs::remove_file": "delete {0} t"}, only_under_lock=("current_hash", "cas_decide", "std::fs::remove_file"),
                    inline_closure_calls={"with_commit_lock": 1},
                    calls={"safe_join": ("safe_key {1}", "Option<PathBuf>"), "current_hash": ("cur_of Hh t {0}", "Option<Hash>"),
                           "cas_decide": ("g_cas_decide D deqD", "Cas"), "write_frame": ("(t, {1})", "Reply")},
                    paths={"Cas::Commit": "GCommit", "Cas::Conflict": "GConflict"},
                    structs={"Response::DeleteResult": ("RDel", ["deleted", "current"], ["bool", "Option<Hash>"])},
                    errs=[(r"bad path", "RBadPath")], param_types={"root": "Path"})
        # Response::Error("bad path".into()) -> classified by its text
        spec["calls"]["Response::Error"] = ("{0}", "Reply")
        spec["strings"] = {"bad path": "RBadPath"}
        return translate_fn(src, "handle_delete", None, spec, "g_handle_delete", "(t : tree) (path : bytes) (expected : option D)", "tree * sreply")
    out.append(("handle_delete", "src/bin/copia/serve.rs handle_delete", None, t_handle_delete))

    GET_OPEN_LET = """{
    let opened = std::fs::File::open(&dst).and_then(|mut f| {
        use std::io::Seek;
        let mut hasher = blake3::Hasher::new();
        let len = std::io::copy(&mut f, &mut hasher)?;
        f.seek(std::io::SeekFrom::Start(0))?;
        Ok((f, len, *hasher.finalize().as_bytes()))
    });
}"""
    GET_STREAM = """{
    write_frame(w, &Response::Content { len, hash })?;
    std::io::copy(&mut f.take(len), w)?;
    w.flush()
}"""

    def t_handle_get():
        src = read("src/bin/copia/serve.rs")
        params, ret, body = R.find_fn(src, "handle_get", None)
        norm = lambda x: json.loads(json.dumps(x))
        if [n for n, _ in params] != ["root", "path", "w"]:
            raise Unsupported("signature of handle_get is %s" % params)
        want = R.Parser(R.tokenize(GET_OPEN_LET)).block()[1][0]
        stmts = list(body[1])
        idx = next((i for i, st in enumerate(stmts) if st[0] == "let" and st[1] == ("pbind", "opened")), None)
        if idx is None or norm(stmts[idx]) != norm(want):
            raise Unsupported("handle_get: length, hash and bytes no longer come from ONE open descriptor (`File::open(&dst).and_then(|mut f| { hash it; seek to 0; Ok((f, len, hash)) })`)")
        # read as: `opened` = the content the path names at the moment of the open (None = no such file)
        stmts[idx] = ("let", ("pbind", "opened"), None, ("call", ("path", ["OPEN_CONTENT"]), [("path", ["dst"])]), None)
        tail = body[2]
        want_stream = R.Parser(R.tokenize(GET_STREAM)).block()
        if tail is None or tail[0] != "match" or norm(tail[1]) != norm(("path", ["opened"])) or len(tail[2]) != 2 \
                or norm(tail[2][0][0]) != norm(("ppath", ["Ok"], [("ptuple", [("pbind", "f"), ("pbind", "len"), ("pbind", "hash")])])) \
                or norm(tail[2][0][2]) != norm(want_stream):
            raise Unsupported("handle_get: the reply is no longer `Content { len, hash }` followed by exactly `len` bytes of that same descriptor")
        # the Ok arm is read as: reply Content with the bytes of `opened`
        tail = ("match", tail[1], [(("ppath", ["Some"], [("pbind", "c")]), None, ("call", ("path", ["REPLY_CONTENT"]), [("path", ["c"])])),
                                   (("pwild",), tail[2][1][1], tail[2][1][2])])
        spec = dict(state="t", calls={"safe_join": ("safe_key {1}", "Option<PathBuf>"), "OPEN_CONTENT": ("file_at t {0}", "Option<Vec<u8>>"),
                                       "REPLY_CONTENT": ("(t, RContent {0})", "Reply"), "write_frame": ("(t, {1})", "Reply"),
                                       "Response::Error": ("{0}", "Reply")},
                    strings={"bad path": "RBadPath", "not found": "RNotFound"}, param_types={"root": "Path"})
        fn = Fn(spec)
        env = {"root": "Path", "path": "str", "w": "W"}
        text = fn.block(("block", stmts, tail), env, Ctx(val=(lambda x: x), ret=(lambda x: x), fall=None))
        return "Definition g_handle_get (t : tree) (path : bytes) : tree * @sreply D :=\n  %s." % text
    out.append(("handle_get", "src/bin/copia/serve.rs handle_get", None, t_handle_get))

    PUT_STREAM_BLOCK = """{
    let mut hasher = blake3::Hasher::new();
    let mut received: u64 = 0;
    {
        let mut limited = r.take(len);
        let mut buf = vec![0u8; 256 * 1024];
        loop {
            let n = limited.read(&mut buf)?;
            if n == 0 {
                break;
            }
            received += n as u64;
            hasher.update(&buf[..n]);
            tf.write_all(&buf[..n])?;
        }
        tf.sync_all()?;
    }
    drop(tf);
}"""
    PUT_CNAME_STMT = """{
    let mut cn = dst.as_os_str().to_owned();
    cn.push(format!(".conflict-{}", super::wire::short_hash(&hash)));
}"""

    def t_handle_put():
        src = read("src/bin/copia/serve.rs")
        params, ret, body = R.find_fn(src, "handle_put", None)
        # the streaming block (read at most `len` bytes from the input in chunks, hash them, write them to the staging file,
        # fsync it) is checked LITERALLY and read as: the staging file holds `content` (the bytes that arrived, at most len),
        # `received` is their count and the hasher has seen exactly them
        want = R.Parser(R.tokenize(PUT_STREAM_BLOCK)).block()[1]
        stmts = list(body[1])
        idx = next((i for i, st in enumerate(stmts) if st[0] == "let" and st[1] == ("pbind", "hasher")), None)
        norm = lambda x: json.loads(json.dumps(x))
        if idx is None or norm(stmts[idx:idx + len(want)]) != norm(want):
            raise Unsupported("handle_put: the block that streams the content into the staging file is no longer the reviewed one")
        stmts[idx:idx + len(want)] = [("let", ("pbind", "received"), "u64", ("path", ["CONTENT_LEN"]), None)]
        # the conflict-copy name, inside the closure: checked literally, read as `cname dst hash`
        wantc = R.Parser(R.tokenize(PUT_CNAME_STMT)).block()[1]
        found = []
        def rewrite(n):
            if isinstance(n, tuple):
                if n and n[0] == "block":
                    ss = list(n[1])
                    for i in range(len(ss)):
                        if norm(ss[i:i + 2]) == norm(wantc):
                            found.append(1)
                            ss[i:i + 2] = [("let", ("pbind", "cn"), None, ("path", ["CONFLICT_NAME"]), None)]
                            break
                    return ("block", [rewrite(x) for x in ss], rewrite(n[2]) if n[2] is not None else None)
                return tuple(rewrite(x) for x in n)
            if isinstance(n, list):
                return [rewrite(x) for x in n]
            return n
        body2 = rewrite(("block", stmts, body[2]))
        if len(found) != 1:
            raise Unsupported("handle_put: the conflict-copy name is no longer `<dst>` + format!(\".conflict-{}\", short_hash(&hash))")
        spec = dict(state="t", assume_ok=True, try_transparent=True, only_under_lock=("current_hash", "cas_decide", "std::fs::rename"),
                    state_updates={"std::fs::remove_file": "rm_staging {0} t", "std::fs::rename": "mv_staging {0} {1} content t"},
                    ignored_calls=["std::io::copy", "std::fs::create_dir_all", "drop"],
                    inline_closure_calls={"with_commit_lock": 1},
                    calls={"safe_join": ("safe_key {1}", "Option<PathBuf>"), "current_hash": ("cur_of Hh t {0}", "Option<Hash>"),
                           "cas_decide": ("g_cas_decide D deqD", "Cas"), "write_frame": ("(t, {1})", "Reply"),
                           "create_staging": ("(mk_staging {0}, tt)", "(Staging,File)"), ".parent": ("Some {0}", "Option<Path>"),
                           ".finalize": ("Hh content (* {0} *)", "Hasher"), ".as_bytes": ("{0}", "Hash"), "PathBuf::from": ("{0}", "PathBuf"),
                           "Response::Error": ("{0}", "Reply")},
                    consts={"CONTENT_LEN": ("(lenZ content)", "u64"), "CONFLICT_NAME": ("(cname dst hash)", "PathBuf")},
                    eq={"Hash": "deq_b"}, paths={"Cas::Commit": "GCommit", "Cas::Conflict": "GConflict"},
                    structs={"Response::PutResult": ("RPut", ["committed", "current"], ["bool", "Option<Hash>"])},
                    strings={"bad path": "RBadPath", "content length mismatch": "RMismatch", "content hash mismatch": "RMismatch"},
                    param_types={"hash": "Hash", "len": "u64"})
        fn = Fn(spec)
        env = {"root": "Path", "lockdir": "Path", "path": "str", "expected": "Option<Hash>", "len": "u64", "hash": "Hash", "r": "R", "w": "W", "hasher": "Hasher", "tf": "File"}
        spec["rename"] = {"hasher": "tt", "len": "len"}
        want_sig = [("root", "Path"), ("lockdir", "Path"), ("path", "str"), ("expected", "Option<Hash>"), ("len", "u64"), ("hash", "Hash"), ("r", "R"), ("w", "W")]
        got_sig = [(n, norm_type(ty_).replace("mut", "")) for n, ty_ in params]
        if got_sig != want_sig:
            raise Unsupported("signature of handle_put is %s" % got_sig)
        text = fn.block(body2, env, Ctx(val=(lambda x: x), ret=(lambda x: x), fall=None))
        return "Definition g_handle_put (t : tree) (path : bytes) (expected : option D) (len : Z) (hash : D) (content : bytes) : tree * sreply :=\n  %s." % text
    out.append(("handle_put", "src/bin/copia/serve.rs handle_put", None, t_handle_put))

    def t_hub_sync():
        src = read("src/bin/copia/hub.rs")
        spec = dict(signature=[("local_root", "Path"), ("target", "str")], state="t", try_transparent=True,
                    calls={"HubClient::connect": ("tt (* {0} *)", "Client"), ".list": ("L (* {0} *)", "HubMap"),
                           "discover_local_fingerprints": ("local (* {0} *)", "Vec<(PathBuf,Fingerprint)>"),
                           ".to_string_lossy": ("{0}", "String"), ".into_owned": ("{0}", "String"),
                           ".get": ("{0} !! {1}", "Option<Fingerprint>"), ".join": ("lfile {1}", "Vec<u8>")},
                    fields={("Fingerprint", "blake3"): ("{0}", "[u8;32]")},
                    state_calls={"client.put": "cput t {0} {1} {2} {3}"}, ignored_mcalls=["client.bye"], prints_ignored=True,
                    eq={"Option<[u8;32]>": "deq_ob", "u64": "Z.eqb"},
                    ok=lambda s_: "(t, (sent, skipped, conflicts), true)", errs=[(r"CAS conflict", "(t, (sent, skipped, conflicts), false)")])
        return translate_fn(src, "hub_sync", None, spec, "g_hub_sync", "(L : gmap K D) (t : tree) (local : list (K * D))", "tree * (Z * Z * Z) * bool")
    out.append(("hub_sync", "src/bin/copia/hub.rs hub_sync", None, t_hub_sync))

    def t_cas():
        src = read("src/bin/copia/wire.rs")
        check_enum(src, "Cas", ["Commit", "Conflict"])
        spec = dict(eq={"Hash": "digest_eqb"}, paths={"Cas::Commit": "GCommit", "Cas::Conflict": "GConflict"},
                    signature=[("current", "Option<Hash>"), ("expected", "Option<Hash>")])
        if not re.search(r"pub type Hash\s*=\s*\[u8;\s*32\];", src):
            raise Unsupported("wire::Hash is no longer [u8; 32]")
        return translate_fn(src, "cas_decide", None, spec, "g_cas_decide", "(current expected : option digest)", "g_cas")
    out.append(("cas_decide", "src/bin/copia/wire.rs cas_decide", "digest", t_cas))

    def t_needs():
        src = read("src/bin/copia/plan.rs")
        check_struct(src, "FileMeta", [("size", "u64"), ("mtime", "i64")])
        spec = dict(fields={("FileMeta", "size"): ("(fm_size {0})", "u64"), ("FileMeta", "mtime"): ("(fm_mtime {0})", "i64")},
                    signature=[("src", "FileMeta"), ("dst", "Option<FileMeta>")])
        return translate_fn(src, "needs_transfer", None, spec, "g_needs_transfer", "(src : file_meta) (dst : option file_meta)", "bool")
    out.append(("needs_transfer", "src/bin/copia/plan.rs needs_transfer", None, t_needs))

    def t_glob():
        src = read("src/bin/copia/plan.rs")
        spec = dict(signature=[("pat", "str"), ("text", "str")],
                    # `pat.chars().collect()`: a &str is the list of its chars in the model already
                    let_conv={"p": "pat", "t": "text"}, local_types={"star": "Option<usize>"})
        params, ret, body = R.find_fn(src, "glob_match", None)
        lets = [s for s in body[1] if s[0] == "let"]
        for s, (v, arg) in zip(lets[:2], (("p", "pat"), ("t", "text"))):
            want = ("let", ("pbind", v), "Vec<char>", ("mcall", ("mcall", ("path", [arg]), "chars", []), "collect", []), None)
            if s != want:
                raise Unsupported("glob_match no longer starts with `let %s: Vec<char> = %s.chars().collect();`" % (v, arg))
        return translate_fn(src, "glob_match", None, spec, "g_glob_match", "(pat text : list Z)", "bool",
                            env_types={"pat": "Vec<char>", "text": "Vec<char>"})
    out.append(("glob_match", "src/bin/copia/plan.rs glob_match", None, t_glob))

    def t_is_excluded():
        src = read("src/bin/copia/plan.rs")
        spec = dict(signature=[("rel", "Path"), ("excludes", "[String]")],
                    calls={".trim_end_matches": ("trim_end_matches {0} {1}", "String"), ".contains": ("containsZ {0} {1}", "bool"),
                           "glob_match": ("glob_match", "bool"), ".components": ("components", "Vec<Component>")},
                    paths={"Component::Normal": "CNormal"})
        return translate_fn(src, "is_excluded", None, spec, "g_is_excluded", "(rel : list Z) (excludes : list (list Z))", "bool")
    out.append(("is_excluded", "src/bin/copia/plan.rs is_excluded", None, t_is_excluded))

    def t_build_plan():
        src = read("src/bin/copia/plan.rs")
        check_struct(src, "SyncPlan", [("transfer", "Vec<PathBuf>"), ("skipped", "usize"), ("delete", "Vec<PathBuf>")])
        if not re.search(r"pub type MetaMap\s*=\s*BTreeMap<PathBuf,\s*FileMeta>;", src):
            raise Unsupported("MetaMap is no longer BTreeMap<PathBuf, FileMeta>")
        spec = dict(signature=[("src", "MetaMap"), ("dst", "MetaMap"), ("excludes", "[String]"), ("with_delete", "bool")],
                    records={"SyncPlan": ("Build_sync_plan", ["transfer", "skipped", "delete"])},
                    fields={("SyncPlan", "transfer"): ("(transfer {0})", "Vec<PathBuf>"), ("SyncPlan", "skipped"): ("(skipped {0})", "usize"),
                            ("SyncPlan", "delete"): ("(sp_delete {0})", "Vec<PathBuf>")},
                    calls={"SyncPlan::default": ("(Build_sync_plan [] 0 [])", "SyncPlan"), "is_excluded": ("is_excluded", "bool"),
                           "needs_transfer": ("needs_transfer", "bool"), ".get": ("mm_get {1} {0}", "Option<FileMeta>"),
                           ".keys": ("map fst {0}", "Vec<PathBuf>"), ".contains_key": ("mm_mem {1} {0}", "bool")},
                    sort={"Vec<PathBuf>": "sort_keys path_cmp"})
        return translate_fn(src, "build_plan", None, spec, "g_build_plan",
                            "(src dst : metamap) (excludes : list (list Z)) (with_delete : bool)", "sync_plan")
    out.append(("build_plan", "src/bin/copia/plan.rs build_plan", None, t_build_plan))

    def t_from_u8():
        src = read("src/protocol.rs")
        names = [v for v, _, _ in R.enum_variants(src, "MessageType")]
        want = ["SignatureRequest", "SignatureResponse", "DeltaData", "Ack", "Error", "Ping", "Pong"]
        if names != want:
            raise Unsupported("MessageType variants %s" % names)
        spec = dict(paths={"Self::SignatureRequest": "TSigReq", "Self::SignatureResponse": "TSigResp", "Self::DeltaData": "TDeltaData",
                           "Self::Ack": "TAck", "Self::Error": "TError", "Self::Ping": "TPing", "Self::Pong": "TPong"},
                    ok=lambda s: "Some " + paren(s), errs=[(r"Invalid message type", "None")], signature=[("value", "u8")])
        return translate_fn(src, "from_u8", "MessageType", spec, "g_from_u8", "(value : Z)", "option mtype")
    out.append(("from_u8", "src/protocol.rs MessageType::from_u8", None, t_from_u8))

    def t_hvalidate():
        src = read("src/protocol.rs")
        check_struct(src, "FrameHeader", [("magic", "[u8;4]"), ("length", "u32"), ("msg_type", "MessageType"), ("version", "u8"), ("flags", "u16")])
        spec = dict(fields={("FrameHeader", "magic"): ("[h_m0 {0}; h_m1 {0}; h_m2 {0}; h_m3 {0}]", "[u8;4]"),
                            ("FrameHeader", "length"): ("(h_length {0})", "u32"), ("FrameHeader", "version"): ("(h_version {0})", "u8")},
                    consts={"PROTOCOL_MAGIC": ("[PROTO_MAGIC0; PROTO_MAGIC1; PROTO_MAGIC2; PROTO_MAGIC3]", "[u8;4]"),
                            "PROTOCOL_VERSION": ("PROTO_VERSION", "u8"), "MAX_PAYLOAD_SIZE": ("MAX_PAYLOAD_SIZE", "u32")},
                    eq={"[u8;4]": "(list_eqb Z.eqb)"}, rename={"self": "h"},
                    ok=lambda s: "ROk " + paren(s),
                    errs=[(r"Invalid magic", "(RErr EMagic)"), (r"Unsupported version", "(RErr EVersion)"), (r"Payload too large", "(RErr ELength)")])
        return translate_fn(src, "validate", "FrameHeader", spec, "g_hvalidate", "(h : header)", "res unit", self_type="FrameHeader")
    out.append(("hvalidate", "src/protocol.rs FrameHeader::validate", None, t_hvalidate))

    def hdr_spec():
        return dict(fields={("FrameHeader", "magic"): ("[h_m0 {0}; h_m1 {0}; h_m2 {0}; h_m3 {0}]", "[u8;4]"),
                            ("FrameHeader", "length"): ("(h_length {0})", "u32"), ("FrameHeader", "version"): ("(h_version {0})", "u8"),
                            ("FrameHeader", "flags"): ("(h_flags {0})", "u16"), ("FrameHeader", "msg_type"): ("(h_type {0})", "MessageType")},
                    consts={"PROTOCOL_MAGIC": ("[PROTO_MAGIC0; PROTO_MAGIC1; PROTO_MAGIC2; PROTO_MAGIC3]", "[u8;4]"),
                            "PROTOCOL_VERSION": ("PROTO_VERSION", "u8"), "MAX_PAYLOAD_SIZE": ("MAX_PAYLOAD_SIZE", "u32")},
                    eq={"[u8;4]": "(list_eqb Z.eqb)"}, rename={"self": "h"},
                    structs={"Self": ("mk_header", ["magic", "length", "msg_type", "version", "flags"], ["[u8;4]", "u32", "MessageType", "u8", "u16"])},
                    typed_methods={("u32", "to_le_bytes"): "put_u32 {0}", ("u16", "to_le_bytes"): "put_u16 {0}"},
                    enum_casts={"MessageType": "mt_code {0}"},
                    calls={"u32::from_le_bytes": ("le_bytes {0}", "u32"), "u16::from_le_bytes": ("le_bytes {0}", "u16"),
                           "MessageType::from_u8": ("g_from_u8 {0}", "Option<MessageType>"), "Self::decode": ("g_header_decode {0}", "Res")},
                    try_res_calls={".validate": "g_hvalidate {0}"}, opt_try_calls=("MessageType::from_u8",), try_none="RErr EType",
                    ok=lambda s_: "ROk " + paren(s_))

    def t_hdr_new():
        src = read("src/protocol.rs")
        spec = hdr_spec()
        spec["signature"] = [("msg_type", "MessageType"), ("payload_len", "u32")]
        return translate_fn(src, "new", "FrameHeader", spec, "g_header_new", "(msg_type : mtype) (payload_len : Z)", "header", self_type="FrameHeader")
    out.append(("header_new", "src/protocol.rs FrameHeader::new", None, t_hdr_new))

    def t_hdr_encode():
        src = read("src/protocol.rs")
        params, ret, body = R.find_fn(src, "encode", "FrameHeader")
        spec = dict(hdr_spec(), debug_asserts=("checked", "None"), self_type="FrameHeader")
        fn = Fn(spec)
        text = fn.block(body, {"self": "FrameHeader"}, Ctx(val=(lambda x: "Some " + paren(x)), ret=(lambda x: x), fall=None))
        return "Definition g_header_encode (checked : bool) (h : header) : option (list Z) :=\n  %s." % text
    out.append(("header_encode", "src/protocol.rs FrameHeader::encode", None, t_hdr_encode))

    def t_hdr_decode():
        src = read("src/protocol.rs")
        params, ret, body = R.find_fn(src, "decode", "FrameHeader")
        if [n for n, _ in params] != ["buf"]:
            raise Unsupported("signature of FrameHeader::decode is %s" % params)
        spec = dict(hdr_spec(), self_type="FrameHeader", local_types={"header": "FrameHeader"})
        fn = Fn(spec)
        text = fn.block(body, {"buf": "[u8;12]"}, Ctx(val=(lambda x: x), ret=(lambda x: x), fall=None))
        return "Definition g_header_decode (buf : list Z) : res header :=\n  %s." % text
    out.append(("header_decode", "src/protocol.rs FrameHeader::decode", None, t_hdr_decode))

    def t_hdr_read_from():
        src = read("src/protocol.rs")
        params, ret, body = R.find_fn(src, "read_from", "FrameHeader")
        if [n for n, _ in params] != ["reader"]:
            raise Unsupported("signature of FrameHeader::read_from is %s" % params)
        spec = dict(hdr_spec(), self_type="FrameHeader", read_exact="RErr EIo", buffer_sizes={"Self::SIZE": "HEADER_SIZE"},
                    errs=[(r"Invalid magic", "RErr EMagic")])
        spec["calls"] = dict(spec["calls"], **{"Self::decode": ("with_rest (g_header_decode {0}) reader", "Res")})
        fn = Fn(spec)
        text = fn.block(body, {"reader": "Input"}, Ctx(val=(lambda x: x), ret=(lambda x: x), fall=None))
        return "Definition g_header_read_from (reader : list Z) : res (header * list Z) :=\n  %s." % text
    out.append(("header_read_from", "src/protocol.rs FrameHeader::read_from", None, t_hdr_read_from))

    def t_codec_read():
        src = read("src/protocol.rs")
        params, ret, body = R.find_fn(src, "read_message", "Codec")
        if [n for n, _ in params] != ["self", "reader"]:
            raise Unsupported("signature of Codec::read_message is %s" % params)
        def rw(n):
            if isinstance(n, tuple):
                if n == ("field", ("path", ["self"]), "read_buf"):
                    return ("path", ["read_buf"])
                return tuple(rw(x) for x in n)
            if isinstance(n, list):
                return [rw(x) for x in n]
            return n
        body2 = rw(body)
        # `read_buf.resize(n, 0)` reserves n bytes (recorded as `alloc`) and makes read_buf the buffer the next read_exact fills
        stmts = []
        for st in body2[1]:
            if st[0] == "expr" and st[1][0] == "mcall" and st[1][1] == ("path", ["read_buf"]) and st[1][2] == "resize" and len(st[1][3]) == 2 and st[1][3][1] == ("num", 0):
                stmts.append(("let", ("pbind", "alloc"), None, st[1][3][0], None))
                stmts.append(("let", ("pbind", "read_buf"), None, ("macro", "vec", [("num", "0u8"), ("op", ";"), ("id", "alloc")]), None))
            else:
                stmts.append(st)
        if len(stmts) != len(body2[1]) + 1:
            raise Unsupported("Codec::read_message: `self.read_buf.resize(header.length as usize, 0)` not found")
        spec = dict(hdr_spec(), self_type="Codec", read_exact={"read_buf": "(alloc, RErr EIo)"},
                    res_try_calls={"FrameHeader::read_from": ("g_header_read_from {0}", {"pattern": "({0}, reader)", "type": "FrameHeader"}, "(alloc, RErr {0})")},
                    prologue="let alloc := 0 in ")
        spec["try_res_calls"] = {}
        spec["calls"] = dict(spec["calls"], **{"Message::decode": ("(alloc, match decode_message {0} with Some (m, _) => ROk (m, reader) | None => RErr EDecode end)", "Res")})
        spec["res_check_calls"] = {".validate": ("g_hvalidate {0}", "(alloc, RErr {0})")}
        fn = Fn(spec)
        text = spec["prologue"] + fn.block(("block", stmts, body2[2]), {"self": "Codec", "reader": "Input"}, Ctx(val=(lambda x: x), ret=(lambda x: x), fall=None))
        return "Definition g_read_message (reader : list Z) : Z * res (message * list Z) :=\n  %s." % text
    out.append(("codec_read_message", "src/protocol.rs Codec::read_message", None, t_codec_read))

    def t_codec_write():
        src = read("src/protocol.rs")
        params, ret, body = R.find_fn(src, "write_message", "Codec")
        if [n for n, _ in params] != ["self", "writer", "message"]:
            raise Unsupported("signature of Codec::write_message is %s" % params)
        spec = dict(hdr_spec(), self_type="Codec", try_transparent=True, u32_try_from="RErr EPayload",
                    updates={"writer.write_all": "{0} ++ {1}"}, effects_set={"header.write_to": ("writer", "{1} ++ header_encode {0}")},
                    errs=[(r"Payload exceeds", "RErr EPayload")], ok=lambda s_: "ROk writer", prologue="let writer := [] in ")
        spec["calls"] = dict(spec["calls"], **{".encode": ("encode_message {0}", "Vec<u8>"), ".msg_type": ("msg_type {0}", "MessageType"),
                                               "FrameHeader::new": ("g_header_new {0} {1}", "FrameHeader")})
        spec["try_res_calls"] = {}
        fn = Fn(spec)
        text = spec["prologue"] + fn.block(body, {"self": "Codec", "writer": "Vec<u8>", "message": "Message"}, Ctx(val=(lambda x: x), ret=(lambda x: x), fall=None))
        return "Definition g_write_message (message : message) : res (list Z) :=\n  %s." % text
    out.append(("codec_write_message", "src/protocol.rs Codec::write_message", None, t_codec_write))

    def t_mtime_secs():
        src = read("src/bin/copia/meta.rs")
        spec = dict(signature=[("meta", "std::fs::Metadata")], paths={"Ok": "Some"},
                    calls={".modified": ("modified_of {0}", "Option<SystemTime>"), ".duration_since": ("since_epoch {0} (* {1} *)", "Option<Duration>"),
                           ".as_secs": ("as_secs {0}", "u64"), "i64::try_from": ("(if {0} <=? 9223372036854775807 then Some {0} else None)", "Option<i64>")},
                    consts={"UNIX_EPOCH": ("tt", "SystemTime")}, param_types={"meta": "Metadata"})
        return translate_fn(src, "mtime_secs", None, spec, "g_mtime_secs", "(meta : fmeta)", "Z")
    out.append(("mtime_secs", "src/bin/copia/meta.rs mtime_secs", None, t_mtime_secs))

    def t_discover_meta():
        src = read("src/bin/copia/meta.rs")
        params, ret, body = R.find_fn(src, "discover_local_with_meta", None)
        if [n for n, _ in params] != ["root"]:
            raise Unsupported("signature of discover_local_with_meta is %s" % params)
        spec = dict(try_transparent=True, paths={"Ok": "Some"},
                    calls={"MetaMap::new": ("[]", "MetaMap"), "discover_local_files": ("files (* {0} *)", "Vec<PathBuf>"), ".join": ("{1} (* {0} *)", "PathBuf"),
                           "std::fs::metadata": ("stat {0}", "Option<Metadata>"), "mtime_secs": ("g_mtime_secs {0}", "i64")},
                    typed_methods={("Metadata", "len"): "size_of {0}"},
                    structs={"FileMeta": ("Build_file_meta", ["size", "mtime"], ["u64", "i64"])},
                    updates={"out.insert": "mm_insert {1} {2} {0}"}, ok=lambda s_: s_)
        fn = Fn(spec)
        text = fn.block(body, {"root": "Path"}, Ctx(val=(lambda x: x), ret=(lambda x: x), fall=None))
        return "Definition g_discover_local_with_meta (files : list (list Z)) (stat : list Z -> option fmeta) : metamap :=\n  %s." % text
    out.append(("discover_local_with_meta", "src/bin/copia/meta.rs discover_local_with_meta", None, t_discover_meta))

    def t_set_local_mtime():
        src = read("src/bin/copia/meta.rs")
        params, ret, body = R.find_fn(src, "set_local_mtime", None)
        if [n for n, _ in params] != ["path", "secs"]:
            raise Unsupported("signature of set_local_mtime is %s" % params)
        # `SystemTime + Duration` is std's checked addition (a panic on overflow); u64::try_from(i64) <= i64::MAX seconds fits the
        # i64 seconds of a timespec, so the sum is the exact one
        spec = dict(opt_try_calls=(".open",), try_none="None", try_transparent=True, paths={"Ok": "Some"}, exact_arith=True,
                    calls={"Duration::from_secs": ("({0} * 1000000000)", "u128"), "u64::try_from": ("(if 0 <=? {0} then Some {0} else None)", "Option<u64>"),
                           ".max": ("Z.max {0} {1}", "i64"), "std::fs::File::options": ("tt", "OpenOptions"), ".write": ("{0} (* write {1} *)", "OpenOptions"),
                           ".open": ("open_for_write (* {0} {1} *)", "Option<File>"), ".set_modified": ("(match {0} with Some _ => set_modified {1} | None => None end)", "Option<i128>")},
                    consts={"UNIX_EPOCH": ("0", "u128")}, param_types={"secs": "i64"})
        fn = Fn(spec)
        text = fn.block(body, {"path": "Path", "secs": "i64"}, Ctx(val=(lambda x: x), ret=(lambda x: x), fall=None))
        return "Definition g_set_local_mtime (open_for_write : option unit) (set_modified : Z -> option Z) (secs : Z) : option Z :=\n  %s." % text
    out.append(("set_local_mtime", "src/bin/copia/meta.rs set_local_mtime", None, t_set_local_mtime))

    def t_fingerprint_path():
        src = read("src/bin/copia/meta.rs")
        params, ret, body = R.find_fn(src, "fingerprint_path", None)
        if [n for n, _ in params] != ["full"]:
            raise Unsupported("signature of fingerprint_path is %s" % params)
        spec = dict(opt_try_calls=("std::fs::symlink_metadata", "std::fs::read_link", "std::fs::File::open"), try_none="None", try_transparent=True,
                    calls={"std::fs::symlink_metadata": ("lstat (* {0} *)", "Option<Metadata>"), "std::fs::read_link": ("link_target (* {0} *)", "Option<Vec<u8>>"),
                           "std::fs::File::open": ("file_content (* {0} *)", "Option<Vec<u8>>"), "blake3::hash": ("Hh {0}", "Hash"),
                           ".as_os_str": ("{0}", "Vec<u8>"), ".as_encoded_bytes": ("{0}", "Vec<u8>"), ".as_bytes": ("{0}", "Hash"),
                           "blake3::Hasher::new": ("(@nil Z)", "Hasher"), ".finalize": ("Hh {0}", "Hash"), ".file_type": ("{0}", "FileType")},
                    typed_methods={("FileType", "is_symlink"): "is_symlink {0}"},
                    call_updates={"std::io::copy": (1, "{1} ++ {0}")},
                    paths={"FileType::Symlink": "Symlink", "FileType::File": "File"},
                    structs={"Fingerprint": ("Build_fingerprint D", ["blake3", "ftype"], ["Hash", "FileType"])},
                    ok=lambda s_: "Some " + paren(s_))
        fn = Fn(spec)
        text = fn.block(body, {"full": "Path"}, Ctx(val=(lambda x: x), ret=(lambda x: x), fall=None))
        return "Definition g_fingerprint_path (lstat : option bool) (link_target file_content : option (list Z)) : option (fingerprint D) :=\n  %s." % text
    out.append(("fingerprint_path", "src/bin/copia/meta.rs fingerprint_path", None, t_fingerprint_path))

    def t_discover_fps():
        src = read("src/bin/copia/meta.rs")
        params, ret, body = R.find_fn(src, "discover_local_fingerprints", None)
        if [n for n, _ in params] != ["root"]:
            raise Unsupported("signature of discover_local_fingerprints is %s" % params)
        if not re.search(r"pub type FpMap\s*=\s*BTreeMap<PathBuf,\s*Fingerprint>;", read("src/bin/copia/reconcile.rs")):
            raise Unsupported("FpMap is no longer BTreeMap<PathBuf, Fingerprint>")
        spec = dict(try_transparent=True, paths={"Ok": "Some"},
                    calls={"FpMap::new": ("[]", "FpMap"), "discover_local_files": ("files (* {0} *)", "Vec<PathBuf>"), ".join": ("{1} (* {0} *)", "PathBuf"),
                           "fingerprint_path": ("fp_of {0}", "Option<Fingerprint>")},
                    updates={"out.insert": "al_insert path_cmp {1} {2} {0}"}, ok=lambda s_: s_)
        fn = Fn(spec)
        text = fn.block(body, {"root": "Path"}, Ctx(val=(lambda x: x), ret=(lambda x: x), fall=None))
        return "Definition g_discover_local_fingerprints (files : list (list Z)) (fp_of : list Z -> option (fingerprint D)) : list (list Z * fingerprint D) :=\n  %s." % text
    out.append(("discover_local_fingerprints", "src/bin/copia/meta.rs discover_local_fingerprints", None, t_discover_fps))

    def t_staging_name():
        src = read("src/bin/copia/serve.rs")
        params, ret, body = R.find_fn(src, "create_staging", None)
        if [n for n, _ in params] != ["dst"]:
            raise Unsupported("signature of create_staging is %s" % params)
        found = []
        def walk(n):
            if isinstance(n, tuple) and n and n[0] == "block":
                ss = list(n[1])
                for i in range(len(ss) - 1):
                    if ss[i][0] == "let" and ss[i][1] == ("pbind", "s") and ss[i + 1][0] == "expr" and ss[i + 1][1][0] == "mcall" and ss[i + 1][1][1] == ("path", ["s"]) and ss[i + 1][1][2] == "push":
                        found.append(("block", [ss[i], ss[i + 1]], ("path", ["s"])))
            if isinstance(n, (list, tuple)):
                for c in n:
                    walk(c)
        walk(body)
        if len(found) != 1:
            raise Unsupported("create_staging: `let mut s = dst.as_os_str().to_owned(); s.push(format!(..));` not found")
        spec = dict(format_bytes={"x": "hexz {0}"}, format_int="dec {0}", updates={"s.push": "{0} ++ {1}"},
                    calls={"std::process::id": ("pid", "u32"), ".fetch_add": ("seq (* {0} {1} {2} *)", "u64")},
                    consts={"Ordering::Relaxed": ("tt", "Ordering"), "SEQ": ("tt", "Atomic")})
        fn = Fn(spec)
        text = fn.tail(found[0], {"dst": "Path", "nanos": "u128"}, Ctx(val=(lambda x: x), ret=None, fall=None))
        return "Definition g_staging_name (dst : list Z) (pid nanos seq : Z) : list Z :=\n  %s." % text
    out.append(("staging_name", "src/bin/copia/serve.rs create_staging: the staging name", None, t_staging_name))

    STAGING_LOOP = """{ let nanos = std::time::SystemTime::now().duration_since(std::time::UNIX_EPOCH).map(|d| d.as_nanos()).unwrap_or(0);
        let tmp = PathBuf::from(s);
        match std::fs::OpenOptions::new().write(true).create_new(true).open(&tmp) {
            Ok(f) => return Ok((tmp, f)),
            Err(e) if e.kind() == std::io::ErrorKind::AlreadyExists => continue,
            Err(e) => return Err(e),
        } }"""

    def t_create_staging():
        """the retry loop around the translated name: checked LITERALLY (the clock reading, `create_new(true)`, and the three
        arms Ok -> return / AlreadyExists -> continue / other error -> return), then read as the fuelled recursion below"""
        src = read("src/bin/copia/serve.rs")
        params, ret, body = R.find_fn(src, "create_staging", None)
        norm = lambda x: json.loads(json.dumps(x))
        want = R.Parser(R.tokenize(STAGING_LOOP)).block()
        outer = list(body[1])
        if [n for n, _ in params] != ["dst"] or [x[0] for x in outer[:2]] != ["item", "item"] or len(outer) != 3 \
                or norm(outer[2]) != norm(("expr", ("path", ["loop"]), False)) or body[2] is None or body[2][0] != "block":
            raise Unsupported("create_staging is no longer `use ..; static SEQ ..; loop { .. }`")
        if not re.search(r"static SEQ: AtomicU64 = AtomicU64::new\(0\);", src):
            raise Unsupported("create_staging: `static SEQ: AtomicU64 = AtomicU64::new(0);` not found")
        inner = body[2]
        stmts = list(inner[1])
        if len(stmts) != 4 or norm(stmts[0]) != norm(want[1][0]) or norm(stmts[3]) != norm(want[1][1]) or norm(inner[2]) != norm(want[2]):
            raise Unsupported("create_staging: the loop is no longer the reviewed one (read the clock; build the name; open with write(true).create_new(true); "
                              "Ok -> return the name and file, AlreadyExists -> continue, any other error -> return it)")
        return ("Fixpoint g_create_staging (fuel : nat) (open_new : list Z -> opened) (dst : list Z) (pid : Z) (nanos : Z -> Z) (seq : Z) : option (option (list Z)) :=\n"
                "  match fuel with\n  | O => None\n  | S k => let tmp := g_staging_name dst pid (nanos seq) seq in\n"
                "           match open_new tmp with\n           | Created => Some (Some tmp)\n           | AlreadyExists => g_create_staging k open_new dst pid nanos (seq + 1)\n"
                "           | OtherError => Some None\n           end\n  end.")
    out.append(("create_staging", "src/bin/copia/serve.rs create_staging: the create-new retry loop", None, t_create_staging))

    PAIR_CANON = "{ let canon = |p: &Path| std::fs::canonicalize(p).unwrap_or_else(|_| p.to_path_buf()); }"

    def t_root_pair_hash():
        src = read("src/bin/copia/archive.rs")
        params, ret, body = R.find_fn(src, "root_pair_hash", None)
        norm = lambda x: json.loads(json.dumps(x))
        want = R.Parser(R.tokenize(PAIR_CANON)).block()[1][0]
        stmts = list(body[1])
        if [n for n, _ in params] != ["a", "b"] or not stmts or norm(stmts[0]) != norm(want):
            raise Unsupported("root_pair_hash: the roots are no longer made canonical by `let canon = |p: &Path| std::fs::canonicalize(p).unwrap_or_else(|_| p.to_path_buf());`")
        spec = dict(str_literals=True, calls={"blake3::Hasher::new": ("(@nil Z)", "Hasher"), "canon": ("canon {0}", "PathBuf"), ".as_os_str": ("{0}", "Vec<u8>"),
                                              ".as_encoded_bytes": ("{0}", "Vec<u8>"), ".finalize": ("Hh {0}", "Hash"), ".to_hex": ("hex_of {0}", "String")},
                    updates={"h.update": "{0} ++ {1}"})
        fn = Fn(spec)
        text = fn.block(("block", stmts[1:], body[2]), {"a": "Path", "b": "Path"}, Ctx(val=(lambda x: x), ret=(lambda x: x), fall=None))
        return "Definition g_root_pair_hash (a b : list Z) : list Z :=\n  %s." % text
    out.append(("root_pair_hash", "src/bin/copia/archive.rs root_pair_hash", None, t_root_pair_hash))

    def t_host_id():
        src = read("src/bin/copia/bidir.rs")
        params, ret, body = R.find_fn(src, "host_id", None)
        if params:
            raise Unsupported("signature of host_id is %s" % params)
        spec = dict(str_literals=True,
                    calls={"std::env::var": ("hostname_var (* {0} *)", "Option<String>"), ".ok": ("{0}", "Option<String>"), ".to_string": ("{0}", "String"),
                           "std::process::Command::new": ("tt (* {0} *)", "Command"), ".output": ("hostname_cmd (* {0} *)", "Option<Output>"),
                           "String::from_utf8_lossy": ("{0}", "String"), ".trim": ("trim_ws {0}", "String"), ".is_empty": ("is_nil {0}", "bool")},
                    fields={("Output", "stdout"): ("{0}", "Vec<u8>")},
                    typed_methods={("Option<Output>", "ok"): "{0}"})
        fn = Fn(spec)
        text = fn.block(body, {}, Ctx(val=(lambda x: x), ret=(lambda x: x), fall=None))
        return "Definition g_host_id (hostname_var hostname_cmd : option (list Z)) : list Z :=\n  %s." % text
    out.append(("host_id", "src/bin/copia/bidir.rs host_id", None, t_host_id))

    def t_archive_path():
        src = read("src/bin/copia/archive.rs")
        params, ret, body = R.find_fn(src, "archive_path", None)
        if [n for n, _ in params] != ["pair_hash"]:
            raise Unsupported("signature of archive_path is %s" % params)
        spec = dict(str_literals=True, format_bytes={"": "{0}"}, format_int="dec {0}",
                    calls={"std::env::var": ("home_var (* {0} *)", "Option<String>"), ".to_string": ("{0}", "String"),
                           "PathBuf::from": ("{0}", "PathBuf"), ".join": ("pjoin {0} {1}", "PathBuf")})
        fn = Fn(spec)
        text = fn.block(body, {"pair_hash": "str"}, Ctx(val=(lambda x: x), ret=(lambda x: x), fall=None))
        return "Definition g_archive_path (home_var : option (list Z)) (pair_hash : list Z) : list Z :=\n  %s." % text
    out.append(("archive_path", "src/bin/copia/archive.rs archive_path", None, t_archive_path))

    def t_with_commit_lock():
        src = read("src/bin/copia/serve.rs")
        params, ret, body = R.find_fn(src, "with_commit_lock", None)
        if not params or params[0][0] != "lockdir":
            raise Unsupported("signature of with_commit_lock is %s" % params)
        spec = dict(try_transparent=True, str_literals=True, opens={"OPEN_LOCK": "LOpen {0}"},
                    calls={".join": ("({0}, {1})", "Place"), "f": ("tt", "T")},
                    effects={"fs2::FileExt::unlock": "LUnlock (* {0} *)", "f": "LBody"},
                    mcall_effects={"lf.lock_exclusive": "LLockExclusive"}, ok=lambda s_: "effs", prologue="let effs := [] in ")
        # `OpenOptions::new().create(true).truncate(false).write(true).open(P)?` is checked literally and read as "open (create) P"
        want_open = R.Parser(R.tokenize("{ std::fs::OpenOptions::new().create(true).truncate(false).write(true).open(lockdir.join(\"commit.lock\"))? }")).block()[2]
        norm = lambda x: json.loads(json.dumps(x))
        stmts = list(body[1])
        if not stmts or stmts[0][0] != "let" or stmts[0][1] != ("pbind", "lf") or norm(stmts[0][3]) != norm(want_open):
            raise Unsupported("with_commit_lock: the lock file is no longer opened by `OpenOptions::new().create(true).truncate(false).write(true).open(lockdir.join(\"commit.lock\"))?`")
        stmts[0] = ("expr", ("call", ("path", ["OPEN_LOCK_EFFECT"]), []), True)
        spec["effects"]["OPEN_LOCK_EFFECT"] = "LOpenLockFile"
        fn = Fn(spec)
        text = spec["prologue"] + fn.block(("block", stmts, body[2]), {"lockdir": "Path", "f": "Closure", "lf": "File"}, Ctx(val=(lambda x: x), ret=(lambda x: x), fall=None))
        return "Definition g_with_commit_lock : list leffect :=\n  %s." % text
    out.append(("with_commit_lock", "src/bin/copia/serve.rs with_commit_lock", None, t_with_commit_lock))

    def t_pull_stream():
        src = read("src/bin/copia/dir_sync.rs")
        params, ret, body = R.find_fn(src, "transfer_file_from_remote", None)
        if [n for n, _ in params] != ["host", "remote_path", "local_path"]:
            raise Unsupported("signature of transfer_file_from_remote is %s" % params)
        def has(n, pathsegs):
            if isinstance(n, tuple):
                if len(n) == 2 and n[0] == "path" and list(n[1]) == pathsegs:
                    return True
                return any(has(x, pathsegs) for x in n)
            if isinstance(n, list):
                return any(has(x, pathsegs) for x in n)
            return False
        stmts = []
        for st in body[1]:
            if st[0] == "let" and st[1] == ("pbind", "child") and has(st[3], ["tokio", "process", "Command", "new"]):
                stmts.append(("expr", ("call", ("path", ["SPAWN_SSH"]), []), True))     # its command text: group PushCommand (g_pull_command)
            elif st[0] == "let" and st[1] == ("pbind", "stdout"):
                stmts.append(("let", ("pbind", "stdout"), None, ("path", ["UNIT"]), None))
            elif st[0] == "let" and st[1] == ("pbind", "escaped"):
                continue
            else:
                stmts.append(st)
        spec = dict(try_transparent=True, ignored_calls=["drop"], consts={"UNIT": ("tt", "Handle")},
                    effects={"SPAWN_SSH": "TSpawn", "tokio::fs::File::create": "TCreateTruncate (* {0} *)", "tokio::io::copy": "TCopy (* {0} {1} *)"},
                    mcall_effects={"file.flush": "TFlush", "child.wait_with_output": "TWait"},
                    fields={("()", "status"): ("{0}", "Status"), ("()", "stderr"): ("{0}", "Vec<u8>")},
                    calls={".success": ("ssh_ok (* {0} *)", "bool"), "String::from_utf8_lossy": ("tt (* {0} *)", "String")},
                    ok=lambda s_: "effs ++ [TDone]", errs=[(r"SSH failed", "effs ++ [TFail]")], prologue="let effs := [] in ")
        fn = Fn(spec)
        env = {"host": "str", "remote_path": "str", "local_path": "Path"}
        text = spec["prologue"] + fn.block(("block", stmts, body[2]), env, Ctx(val=(lambda x: x), ret=(lambda x: x), fall=None))
        return "Definition g_pull_stream (ssh_ok : bool) : list teffect :=\n  %s." % text
    out.append(("pull_stream", "src/bin/copia/dir_sync.rs transfer_file_from_remote (its calls, in order)", None, t_pull_stream))

    def t_connect():
        src = read("src/bin/copia/hub.rs")
        params, ret, body = R.find_fn(src, "connect", "HubClient")
        if [n for n, _ in params] != ["target"]:
            raise Unsupported("signature of HubClient::connect is %s" % params)
        def rw(n):
            if isinstance(n, tuple):
                if len(n) == 4 and n[0] == "mcall" and n[1] == ("path", ["me"]) and n[2] == "send":
                    return ("call", ("path", ["ME_SEND"]), [rw(a) for a in n[3]])
                if len(n) == 3 and n[0] == "match" and n[1] == ("try", ("mcall", ("path", ["me"]), "recv", [])):
                    return ("block", [("expr", ("call", ("path", ["ME_RECV"]), []), True)], ("match", ("path", ["REPLY"]), rw(n[2])))
                if n == ("field", ("path", ["me"]), "w"):
                    return ("path", ["UNIT"])
                return tuple(rw(x) for x in n)
            if isinstance(n, list):
                return [rw(x) for x in n]
            return n
        stmts = []
        for st in rw(body)[1]:
            if st[0] == "expr" and st[1][0] == "mcall" and st[1][2] in ("stdin", "stdout"):
                root = st[1]
                while root[0] == "mcall":
                    root = root[1]
                if root == ("path", ["cmd"]):
                    continue            # cmd.stdin(piped()).stdout(piped()): the two pipes the session runs over
            stmts.append(st)
        spec = dict(try_transparent=True, str_literals=True, arg_builders=("c",),
                    let_conv={"w": "tt", "r": "tt", "me": "tt"}, consts={"UNIT": ("tt", "W"), "REPLY": ("reply", "Response"), "VERSION": ("WIRE_VERSION", "u32")},
                    calls={"split_target": ("g_split_target {0}", "Option<(str,str)>"), "Command::new": ("[{0}]", "Vec<Arg>"), "std::env::current_exe": ("exe", "PathBuf")},
                    effects={"super::wire::write_magic": "HWriteMagic (* {0} *)", "ME_SEND": "HSend {0}", "ME_RECV": "HRecv"},
                    mcall_effects={"cmd.spawn": "HSpawn cmd"},
                    structs={"Request::Hello": ("SHello", ["version"], ["u32"]), "Response::Hello": ("RHelloV", ["version"], ["u32"])},
                    ok=lambda s_: "(effs, true)", errs=[(r"bad hub handshake", "(effs, false)")], prologue="let effs := [] in ")
        fn = Fn(spec)
        text = spec["prologue"] + fn.block(("block", stmts, rw(body)[2]), {"target": "Vec<char>"}, Ctx(val=(lambda x: x), ret=(lambda x: x), fall=None))
        return "Definition g_connect (target exe : list Z) (reply : hreply) : list heff * bool :=\n  %s." % text
    out.append(("client_connect", "src/bin/copia/hub.rs HubClient::connect", None, t_connect))

    def t_dvalidate():
        src = read("src/delta.rs")
        spec = dict(fields={("Delta", "ops"): ("(d_ops _ {0})", "Vec<DeltaOp>"), ("Delta", "basis_size"): ("(d_basis_size _ {0})", "u64")},
                    structs={"DeltaOp::Copy": ("Copy", ["offset", "len"], ["u64", "u32"])},
                    rename={"self": "d"}, ok=lambda s: "true", errs=[(r"InvalidCopyBounds", "false")])
        return translate_fn(src, "validate", "Delta", spec, "g_delta_validate", "(d : delta digest)", "bool", self_type="Delta")
    out.append(("delta_validate", "src/delta.rs Delta::validate", "digest_only", t_dvalidate))

    # the three `push_*` methods edit the last operation through `self.ops.last_mut()`: each body is checked LITERALLY against
    # the reviewed text below and then read as a function on the operation list, NEWEST FIRST (as Model/Delta.v keeps it)
    PUSH_BODIES = {
        "push_copy": ("""{ debug_assert!(len > 0, "copy operation must have non-zero length");
            if let Some(DeltaOp::Copy { offset: prev_offset, len: prev_len, }) = self.ops.last_mut() {
                if *prev_offset + u64::from(*prev_len) == offset {
                    if let Some(new_len) = prev_len.checked_add(len) { *prev_len = new_len; return; }
                }
            }
            self.ops.push(DeltaOp::copy(offset, len)); }""", ["self", "offset", "len"],
            "Definition g_push_copy (ops : list dop) (offset len : Z) : list dop :=\n"
            "  match ops with\n  | Copy prev_offset prev_len :: r =>\n"
            "      if prev_offset + prev_len =? offset\n"
            "      then match (if prev_len + len <=? 4294967295 then Some (prev_len + len) else None) with   (* u32::checked_add *)\n"
            "           | Some new_len => Copy prev_offset new_len :: r\n           | None => Copy offset len :: ops\n           end\n"
            "      else Copy offset len :: ops\n  | _ => Copy offset len :: ops\n  end."),
        "push_literal": ("""{ if data.is_empty() { return; }
            if let Some(DeltaOp::Literal(prev_data)) = self.ops.last_mut() { prev_data.extend_from_slice(data); return; }
            self.ops.push(DeltaOp::literal_from_slice(data)); }""", ["self", "data"],
            "Definition g_push_literal (ops : list dop) (data : list Z) : list dop :=\n"
            "  match data with\n  | [] => ops\n  | _ => match ops with Lit prev_data :: r => Lit (prev_data ++ data) :: r | _ => Lit data :: ops end\n  end."),
        "push_literal_byte": ("""{ if let Some(DeltaOp::Literal(prev_data)) = self.ops.last_mut() { prev_data.push(byte); return; }
            self.ops.push(DeltaOp::literal(vec![byte])); }""", ["self", "byte"],
            "Definition g_push_literal_byte (ops : list dop) (byte : Z) : list dop :=\n"
            "  match ops with Lit prev_data :: r => Lit (prev_data ++ [byte]) :: r | _ => Lit [byte] :: ops end."),
    }

    def mk_push(fname):
        def t():
            src = read("src/delta.rs")
            want_src, want_params, text = PUSH_BODIES[fname]
            params, ret, body = R.find_fn(src, fname, "Delta")
            norm = lambda x: json.loads(json.dumps(x))
            if [n for n, _ in params] != want_params:
                raise Unsupported("signature of Delta::%s is %s" % (fname, params))
            if norm(body) != norm(R.Parser(R.tokenize(want_src)).block()):
                raise Unsupported("Delta::%s is no longer the reviewed body (merge into the last operation when it is of the same kind%s, else push a new one)"
                                  % (fname, " and contiguous, with u32::checked_add on the length" if fname == "push_copy" else ""))
            for ctor, pat in (("copy", r"pub const fn copy\(offset: u64, len: u32\) -> Self \{\s*Self::Copy \{ offset, len \}\s*\}"),
                              ("literal", r"pub fn literal\(data: Vec<u8>\) -> Self \{\s*Self::Literal\(data\)\s*\}"),
                              ("literal_from_slice", r"pub fn literal_from_slice\(data: &\[u8\]\) -> Self \{\s*Self::Literal\(data\.to_vec\(\)\)\s*\}")):
                if not re.search(pat, src):
                    raise Unsupported("DeltaOp::%s is no longer the plain constructor" % ctor)
            return text
        return t
    for fname in ("push_copy", "push_literal", "push_literal_byte"):
        out.append(("delta_" + fname, "src/delta.rs Delta::" + fname, "digest_only", mk_push(fname)))

    PATCH_READ_BLOCK = """{
    basis.seek(SeekFrom::Start(*offset))?;
    let mut buffer = vec![0u8; *len as usize];
    basis.read_exact(&mut buffer)?;
}"""

    def patch_spec(awaiting):
        return dict(try_transparent=True, debug_asserts=("checked", "PPanic"),
                    fields={("Delta", "ops"): ("(d_ops _ {0})", "Vec<DeltaOp>"), ("Delta", "source_size"): ("(d_source_size _ {0})", "u64"),
                            ("Delta", "checksum"): ("(d_checksum _ {0})", "StrongHash"),
                            ("CopiaSync", "config"): ("{0}", "SyncConfig"), ("AsyncCopiaSync", "config"): ("{0}", "SyncConfig"),
                            ("SyncConfig", "verify_checksum"): ("verify (* {0} *)", "bool")},
                    structs={"DeltaOp::Copy": ("Copy", ["offset", "len"], ["u64", "u32"]), "DeltaOp::Literal": ("Lit", ["0"], ["Vec<u8>"])},
                    paths={"DeltaOp::Literal": "Lit"},
                    calls={".expected_output_size": ("out_len (d_ops _ {0})", "u64"), "blake3::Hasher::new": ("[]", "Hasher"),
                           "READ_AT": ("read basis {0} {1}", "Option<Vec<u8>>"), "u64::from": ("{0}", "u64"),
                           ".finalize": ("H {0}", "Hash"), ".as_bytes": ("{0}", "Hash"), "StrongHash::from_bytes": ("{0}", "StrongHash")},
                    try_checks={".validate": ("g_delta_validate digest {0}", "PErrBounds")},
                    updates={"output.write_all": "{0} ++ {1}", "hasher.update": "{0} ++ {1}"},
                    eq={"StrongHash": "digest_eqb digest deq", "u64": "Z.eqb"}, try_none="PErrIo", opt_try_calls=("READ_AT",),
                    rename={"self": "tt", "output": "output"},
                    # bytes_written is read by the closing debug assertion only: in the checked profile a sum that leaves u64
                    # panics at the addition, the exact sum fails the assertion - the same outcome (PPanic, no result)
                    exact_add=("bytes_written",),
                    ok=lambda s_: "POk output", errs=[(r"ChecksumMismatch", "PErrChecksum")])

    def t_patch(path, within, gname, self_type):
        def go():
            src = read(path)
            params, ret, body = R.find_fn(src, "patch", within)
            want = R.Parser(R.tokenize(PATCH_READ_BLOCK)).block()[1]
            norm = lambda x: json.loads(json.dumps(x))
            found = []
            def strip_await(n):
                if isinstance(n, tuple):
                    if len(n) == 3 and n[0] == "field" and n[2] == "await":
                        return strip_await(n[1])
                    if len(n) == 2 and n[0] == "path" and list(n[1]) == ["std", "io", "SeekFrom", "Start"]:
                        return ("path", ["SeekFrom", "Start"])
                    return tuple(strip_await(x) for x in n)
                if isinstance(n, list):
                    return [strip_await(x) for x in n]
                return n
            def rewrite(n):
                if isinstance(n, tuple):
                    if n and n[0] == "block":
                        ss = list(n[1])
                        for i in range(len(ss)):
                            if norm(strip_await(ss[i:i + 3])) == norm(want):
                                found.append(1)
                                ss[i:i + 3] = [("let", ("pbind", "buffer"), None, ("try", ("call", ("path", ["READ_AT"]), [("path", ["offset"]), ("path", ["len"])])), None)]
                                break
                        return ("block", [rewrite(x) for x in ss], rewrite(n[2]) if n[2] is not None else None)
                    return tuple(rewrite(x) for x in n)
                if isinstance(n, list):
                    return [rewrite(x) for x in n]
                return n
            body2 = rewrite(body)
            if len(found) != 1:
                raise Unsupported("patch: a Copy is no longer served by `basis.seek(SeekFrom::Start(*offset))?; let mut buffer = vec![0u8; *len as usize]; basis.read_exact(&mut buffer)?;`")
            got = [(n, norm_type(t_).replace("mut", "").strip()) for n, t_ in params]
            if [n for n, _ in got] != ["self", "basis", "delta", "output"]:
                raise Unsupported("signature of patch is %s" % got)
            spec = patch_spec(False)
            fn = Fn(dict(spec, self_type=self_type))
            env = {"self": self_type, "basis": "R", "delta": "Delta", "output": "Vec<u8>"}
            text = "let output := [] in " + fn.block(body2, env, Ctx(val=(lambda x: x), ret=(lambda x: x), fall=None))
            return "Definition %s (checked verify : bool) (basis : list Z) (delta : Delta.delta digest) : presult :=\n  %s." % (gname, text)
        go.__name__ = gname
        return go
    out.append(("patch", "src/sync.rs CopiaSync::patch", None, t_patch("src/sync.rs", "Sync for CopiaSync", "g_patch", "CopiaSync")))
    out.append(("async_patch", "src/async_sync.rs AsyncCopiaSync::patch", None, t_patch("src/async_sync.rs", "AsyncCopiaSync", "g_async_patch", "AsyncCopiaSync")))

    DELTA_READ = "{ let mut source_data = Vec::new(); source.read_to_end(&mut source_data)?; }"

    def t_delta(path, within, gname, self_type):
        def go():
            src = read(path)
            params, ret, body = R.find_fn(src, "delta", within)
            norm = lambda x: json.loads(json.dumps(x))
            def strip_await(n):
                if isinstance(n, tuple):
                    if len(n) == 3 and n[0] == "field" and n[2] == "await":
                        return strip_await(n[1])
                    return tuple(strip_await(x) for x in n)
                if isinstance(n, list):
                    return [strip_await(x) for x in n]
                return n
            want = R.Parser(R.tokenize(DELTA_READ)).block()[1]
            stmts = list(body[1])
            idx = next((i for i in range(len(stmts)) if norm(strip_await(stmts[i:i + 2])) == norm(want)), None)
            if idx is None:
                raise Unsupported("delta: the source is no longer read whole by `let mut source_data = Vec::new(); source.read_to_end(&mut source_data)?;`")
            del stmts[idx:idx + 2]
            if [n for n, _ in params] != ["self", "source", "signature"]:
                raise Unsupported("signature of delta is %s" % params)
            spec = dict(try_transparent=True, exact_arith=True, narrow_u32="w32",
                        fields={("Signature", "block_size"): ("(s_block_size _ {0})", "usize"), ("Signature", "file_size"): ("(s_file_size _ {0})", "u64"),
                                ("BlockSignature", "index"): ("(b_idx _ {0})", "u32")},
                        calls={"SignatureTable::from_signature": ("g_table_from_signature digest {0}", "SignatureTable"), "StrongHash::compute": ("H {0}", "StrongHash"),
                               "Delta::with_checksum": ("Build_delta digest {0} {1} {2} [] {3}", "Delta"), ".min": ("Z.min {0} {1}", "usize"),
                               "FastRollingChecksum::new": ("frc_new {0}", "Rolling"), ".digest": ("frc_digest {0}", "u32"),
                               ".has_weak_match": ("g_table_has_weak_match digest {0} {1}", "bool"),
                               ".find_match": ("g_table_find_match digest H deq {0} {1} {2}", "Option<BlockSignature>")},
                        typed_methods={("SignatureTable", "is_empty"): "g_table_is_empty digest {0}"},
                        updates={"delta.push_copy": "dpush_copy {0} {1} {2}", "delta.push_literal": "dpush_lit {0} {1}",
                                 "delta.push_literal_byte": "dpush_lit_byte {0} {1}", "rolling.roll": "frc_roll {0} {1} {2}"},
                        rename={"self": "tt"}, ok=lambda s_: "dfinish " + paren(s_))
            fn = Fn(dict(spec, self_type=self_type))
            env = {"self": self_type, "signature": "Signature", "source_data": "Vec<u8>"}
            top = Ctx(val=(lambda x: "Some " + paren(x)), ret=(lambda x: "Some " + paren(x)), fall=None)
            text = fn.block(("block", stmts, body[2]), env, top)
            return "Definition %s (fuel : nat) (signature : Delta.signature digest) (source_data : list Z) : option (Delta.delta digest) :=\n  %s." % (gname, text)
        return go
    out.append(("delta", "src/sync.rs CopiaSync::delta", None, t_delta("src/sync.rs", "Sync for CopiaSync", "g_delta", "CopiaSync")))
    out.append(("async_delta", "src/async_sync.rs AsyncCopiaSync::delta", None, t_delta("src/async_sync.rs", "AsyncCopiaSync", "g_async_delta", "AsyncCopiaSync")))

    RETAIN_CLOSURE = "{ common.retain(|p, _| a.contains_key(p) || b.contains_key(p)); }"

    def t_run_bisync():
        src = read("src/bin/copia/bidir.rs")
        params, ret, body = R.find_fn(src, "run_bisync", None)
        norm = lambda x: json.loads(json.dumps(x))
        want = R.Parser(R.tokenize(RETAIN_CLOSURE)).block()[1][0]
        n_ret = [st for st in body[1] if st[0] == "expr" and st[1][0] == "mcall" and st[1][2] == "retain"]
        if len(n_ret) != 1 or norm(n_ret[0]) != norm(want):
            raise Unsupported("run_bisync: the base is no longer pruned by `common.retain(|p, _| a.contains_key(p) || b.contains_key(p));`")
        if [n for n, _ in params] != ["root_a", "root_b", "opts"]:
            raise Unsupported("signature of run_bisync is %s" % params)
        spec = dict(try_transparent=True, prints_ignored=True, printed_var="printed", print_only_lets=("conflicts",),
                    rename={"root_a": "SA", "root_b": "SB"},
                    fields={("BidirOptions", "dry_run"): ("dry_run (* {0} *)", "bool"), ("BidirOptions", "verbose"): ("verbose (* {0} *)", "bool"),
                            ("Archive", "entries"): ("{0}", "FpMap")},
                    calls={"discover_local_fingerprints": ("scan_of s {0}", "FpMap"), "root_pair_hash": ("tt (* {0} {1} *)", "String"),
                           "archive_path": ("tt (* {0} *)", "PathBuf"), "Archive::load": ("arch s (* {0} {1} *)", "Option<Archive>"),
                           "FpMap::new": ("(∅ : gmap K D)", "FpMap"), "reconcile": ("plan_tb {0} {1} {2} {3}", "Vec<(PathBuf,Action)>"),
                           "host_id": ("tt", "String"), "Vec::new": ("[]", "Vec<PathBuf>"),
                           "Archive::fresh": ("(∅ : gmap K D) (* {0} {1} *)", "Archive")},
                    updates={"common.retain": "prune {0} a b"},
                    state_fn_calls={"apply": ("apply_st a b w common conflict_paths {2} {3}", ["w", "common", "conflict_paths"], "failed w",
                                              "(w, saved, printed, GIoErr)")},
                    ignored_field_assigns=(("Archive", "epoch"), ("Archive", "host_id")), field_is_self=(("Archive", "entries"),),
                    effects_set={"arc.save": ("saved", "Some {0} (* {1} *)")},
                    ok=lambda s_: "(w, saved, printed, GOk)", errs=[(r"had conflicts", "(w, saved, printed, GConflicts)")],
                    prologue="let w := w_of s in let saved := None in let printed := [] in ")
        fn = Fn(spec)
        env = {"root_a": "Path", "root_b": "Path", "opts": "BidirOptions"}
        text = spec["prologue"] + fn.block(body, env, Ctx(val=(lambda x: x), ret=(lambda x: x), fall=None))
        return ("Definition g_run_bisync (s : state) (dry_run verbose : bool) : fs * option (gmap K D) * list (K * action) * gres :=\n  %s." % text)
    out.append(("run_bisync", "src/bin/copia/bidir.rs run_bisync", None, t_run_bisync))

    SPAWN_LOCAL = """{
    let s = src.join(rel);
    let d = dst.join(rel);
    let sem = Arc::clone(&semaphore);
    let prog = progress.clone();
    let rel_disp = rel.display().to_string();
    handles.push(tokio::spawn(async move {
        let _permit = sem.acquire().await;
        match deliver_local(&s, &d, mtime).await {
            Ok(size) => prog.record_ok(size),
            Err(e) => prog.record_err(&rel_disp, &e),
        }
    }));
}"""

    def t_run_local():
        src = read("src/bin/copia/incremental.rs")
        params, ret, body = R.find_fn(src, "run_local", None)
        norm = lambda x: json.loads(json.dumps(x))
        want = R.Parser(R.tokenize(SPAWN_LOCAL)).block()[1]
        loops = [st for st in body[1] if st[0] == "for" and norm(st[2]) == norm(("field", ("path", ["plan"]), "transfer"))]
        if len(loops) != 1:
            raise Unsupported("run_local: expected exactly one loop over plan.transfer")
        lb = list(loops[0][3][1])
        if loops[0][3][2] is not None or len(lb) != 1 + len(want) or norm(lb[1:]) != norm(want) or lb[0][0] != "let" or lb[0][1] != ("pbind", "mtime"):
            raise Unsupported("run_local: a planned file is no longer handed to `tokio::spawn(async move { let _permit = sem.acquire().await; match deliver_local(&s, &d, mtime).await { Ok(size) => prog.record_ok(size), Err(e) => prog.record_err(&rel_disp, &e) } })` with s = src.join(rel), d = dst.join(rel)")
        new_loop = ("for", loops[0][1], loops[0][2], ("block", [lb[0], ("expr", ("call", ("path", ["SPAWN_DELIVER_LOCAL"]), [("path", ["rel"]), ("path", ["mtime"])]), True)], None))
        stmts = [new_loop if st is loops[0] else st for st in body[1]]
        if [n for n, _ in params] != ["src", "dst", "opts"]:
            raise Unsupported("signature of run_local is %s" % params)
        spec = dict(try_transparent=True, prints_ignored=True,
                    print_effects=[("No files found", "ENoFiles"), ("Already up to date", "EUpToDate")],
                    rename={"src": "SRC", "dst": "DST"},
                    fields={("SyncOptions", "delete"): ("(o_delete {0})", "bool"), ("SyncOptions", "excludes"): ("(o_excludes {0})", "[String]"),
                            ("SyncOptions", "dry_run"): ("(o_dry_run {0})", "bool"), ("SyncOptions", "jobs"): ("jobs (* {0} *)", "usize"),
                            ("SyncOptions", "verbose"): ("verbose (* {0} *)", "bool"),
                            ("SyncPlan", "transfer"): ("(transfer {0})", "Vec<PathBuf>"), ("SyncPlan", "delete"): ("(sp_delete {0})", "Vec<PathBuf>"),
                            ("FileMeta", "mtime"): ("(fm_mtime {0})", "i64")},
                    calls={"Instant::now": ("tt", "Instant"), "discover_local_with_meta": ("scan_meta {0}", "MetaMap"),
                           ".unwrap_or_default": ("{0}", "MetaMap"), "build_plan": ("build_plan {0} {1} {2} {3}", "SyncPlan"),
                           "collect_dirs": ("collect_dirs {0}", "Vec<PathBuf>"), "Arc::new": ("tt (* {0} *)", "Sem"), "Semaphore::new": ("tt (* {0} *)", "Sem"),
                           "TransferProgress::new": ("tt (* {0} *)", "Progress"), "Vec::with_capacity": ("tt (* {0} *)", "Handles"),
                           ".get": ("mm_get {1} {0}", "Option<FileMeta>"), ".join": ("({0}, {1})", "Place"), ".display": ("{0}", "String"),
                           "report": ("effs ++ [EReport] (* {0} {1} {3} {4} {5} *)", "Result")},
                    effects={"print_plan": "EPrintPlan {0} {1}", "create_local_dirs": "ECreateDirs {0} {1}", "SPAWN_DELIVER_LOCAL": "ESpawn {0} {1}",
                             "join_handles": "EJoin (* {0} *)", "std::fs::remove_file": "ERemove {0}"},
                    ok=lambda s_: "effs", prologue="let effs := [] in ")
        fn = Fn(spec)
        env = {"src": "Path", "dst": "Path", "opts": "SyncOptions"}
        text = spec["prologue"] + fn.block(("block", stmts, body[2]), env, Ctx(val=(lambda x: x), ret=(lambda x: x), fall=None))
        return "Definition g_run_local (opts : OneWay.opts) (jobs : Z) (verbose : bool) : list leff :=\n  %s." % text
    out.append(("run_local", "src/bin/copia/incremental.rs run_local", None, t_run_local))

    SPAWN_REMOTE = """{
    let remote_file = format!("{}/{}", remote_root, rel.display());
    let local_file = local_root.join(rel);
    let host = host.to_string();
    let sem = Arc::clone(&semaphore);
    let prog = progress.clone();
    let rel_disp = rel.display().to_string();
    handles.push(tokio::spawn(async move {
        let _permit = sem.acquire().await;
        let res = match dir {
            Dir::Push => transfer_file_to_remote(&local_file, &host, &remote_file, mtime).await,
            Dir::Pull => deliver_pull(&host, &remote_file, &local_file, mtime).await,
        };
        match res {
            Ok(size) => prog.record_ok(size),
            Err(e) => prog.record_err(&rel_disp, &e),
        }
    }));
}"""
    DESC_LET = """{
    let (src_desc, dst_desc) = match dir {
        Dir::Push => (
            local_root.display().to_string(),
            format!("{host}:{remote_root}"),
        ),
        Dir::Pull => (
            format!("{host}:{remote_root}"),
            local_root.display().to_string(),
        ),
    };
}"""

    def t_print_plan():
        src = read("src/bin/copia/incremental.rs")
        spec = dict(signature=[("plan", "SyncPlan"), ("dry_run", "bool")], prints_ignored=True, printed_var="printed",
                    print_tags=[("send ", "PSend"), ("delete ", "PDelete")],
                    fields={("SyncPlan", "transfer"): ("(transfer {0})", "Vec<PathBuf>"), ("SyncPlan", "delete"): ("(sp_delete {0})", "Vec<PathBuf>")},
                    prologue="let printed := [] in ")
        params, ret, body = R.find_fn(src, "print_plan", None)
        if [(n, norm_type(t_)) for n, t_ in params] != spec["signature"]:
            raise Unsupported("signature of print_plan is %s" % params)
        fn = Fn(spec)
        text = spec["prologue"] + fn.block(body, {"plan": "SyncPlan", "dry_run": "bool"}, Ctx(val=(lambda x: x), ret=(lambda x: x), fall=(lambda env_: "printed")))
        return "Definition g_print_plan (plan : sync_plan) (dry_run : bool) : list pline :=\n  %s." % text
    out.append(("print_plan", "src/bin/copia/incremental.rs print_plan", None, t_print_plan))

    def t_report():
        src = read("src/bin/copia/incremental.rs")
        params, ret, body = R.find_fn(src, "report", None)
        if [n for n, _ in params] != ["start", "progress", "plan", "src_desc", "dst_desc", "verbose"]:
            raise Unsupported("signature of report is %s" % params)
        spec = dict(prints_ignored=True, print_only_lets=("elapsed", "tx"),
                    calls={".failed": ("failed (* {0} *)", "u64")}, eq={"u64": "Z.eqb"},
                    ok=lambda s_: "true", errs=[(r"failed to transfer", "false")])
        fn = Fn(spec)
        env = {"start": "Instant", "progress": "Progress", "plan": "SyncPlan", "src_desc": "str", "dst_desc": "str", "verbose": "bool"}
        text = fn.block(body, env, Ctx(val=(lambda x: x), ret=(lambda x: x), fall=None))
        return "Definition g_report (failed : Z) (verbose : bool) : bool :=\n  %s." % text
    out.append(("report", "src/bin/copia/incremental.rs report", None, t_report))

    SPLITN3 = """{
    let mut parts = s.splitn(3, '\\t');
    let (Some(size), Some(mtime), Some(path)) = (parts.next(), parts.next(), parts.next())
    else {
        continue;
    };
}"""

    def t_parse_listing():
        src = read("src/bin/copia/meta.rs")
        params, ret, body = R.find_fn(src, "parse_remote_meta_output", None)
        norm = lambda x: json.loads(json.dumps(x))
        want = R.Parser(R.tokenize(SPLITN3)).block()[1]
        loops = [st for st in body[1] if st[0] == "for"]
        if len(loops) != 1 or [n for n, _ in params] != ["stdout"]:
            raise Unsupported("parse_remote_meta_output: expected one loop over the records of `stdout`")
        lb = list(loops[0][3][1])
        idx = next((i for i in range(len(lb)) if norm(lb[i:i + 2]) == norm(want)), None)
        if idx is None:
            raise Unsupported("parse_remote_meta_output: a record is no longer cut by `let mut parts = s.splitn(3, '\\t'); let (Some(size), Some(mtime), Some(path)) = (parts.next(), parts.next(), parts.next()) else { continue; };`")
        # read as: the record up to the first TAB, up to the second TAB, and ALL the rest (a path may contain TABs); fewer than two TABs: skip
        lb[idx:idx + 2] = [("let", ("ppath", ["Some"], [("ptuple", [("pbind", "size"), ("pbind", "mtime"), ("pbind", "path")])]), None,
                            ("call", ("path", ["SPLITN3"]), [("path", ["s"])]), ("block", [("expr", ("continue",), True)], None))]
        new_loop = ("for", loops[0][1], loops[0][2], ("block", lb, loops[0][3][2]))
        stmts = [new_loop if st is loops[0] else st for st in body[1]]
        spec = dict(paths={"Ok": "Some", "Some": "Some"},
                    calls={"MetaMap::new": ("[]", "MetaMap"), "String::from_utf8_lossy": ("{0}", "str"), "SPLITN3": ("splitn3 TAB {0}", "Option<(str,str,str)>"),
                           ".parse::<u64>": ("parse_u64 {0}", "Option<u64>"), ".parse::<i64>": ("parse_i64 {0}", "Option<i64>"),
                           "PathBuf::from": ("{0}", "PathBuf")},
                    structs={"FileMeta": ("Build_file_meta", ["size", "mtime"], ["u64", "i64"])},
                    updates={"out.insert": "mm_insert {1} {2} {0}"}, param_types={"stdout": "Vec<u8>"})
        fn = Fn(spec)
        text = fn.block(("block", stmts, body[2]), {"stdout": "Vec<u8>"}, Ctx(val=(lambda x: x), ret=(lambda x: x), fall=None))
        return "Definition g_parse_listing (stdout : list Z) : metamap :=\n  %s." % text
    out.append(("parse_listing", "src/bin/copia/meta.rs parse_remote_meta_output", None, t_parse_listing))

    SERVE_LIST = """{
    let fps = discover_local_fingerprints(root).unwrap_or_default();
    let map = fps
        .into_iter()
        .filter(|(p, _)| !p.starts_with(".copia"))
        .map(|(p, f)| (p.to_string_lossy().into_owned(), f))
        .collect();
    write_frame(&mut w, &Response::Fingerprints(map))?;
}"""

    def t_serve():
        src = read("src/bin/copia/serve.rs")
        params, ret, body = R.find_fn(src, "serve", None)
        norm = lambda x: json.loads(json.dumps(x))
        if [n for n, _ in params] != ["root"]:
            raise Unsupported("signature of serve is %s" % params)
        loops = [st for st in body[1] if st[0] == "whilelet"]
        if len(loops) != 1 or norm(loops[0][1]) != norm(("ppath", ["Some"], [("pbind", "req")])) \
                or norm(loops[0][2]) != norm(("try", ("call", ("path", ["read_frame"]), [("path", ["r"])]))):
            raise Unsupported("serve: the requests are no longer read by `while let Some(req) = read_frame::<_, Request>(&mut r)? { .. }`")
        # read as: `for req in reqs`, reqs = the requests that read_frame decodes until the clean end / an error (TieWireFrame)
        want_list = R.Parser(R.tokenize(SERVE_LIST)).block()
        def rewrite(n):
            if isinstance(n, tuple):
                if n and n[0] == "block" and norm(n) == norm(want_list):
                    return ("block", [("expr", ("call", ("path", ["LIST_REPLY"]), []), True)], None)
                return tuple(rewrite(x) for x in n)
            if isinstance(n, list):
                return [rewrite(x) for x in n]
            return n
        lbody = rewrite(loops[0][3])
        if norm(lbody) == norm(loops[0][3]):
            raise Unsupported("serve: the List arm is no longer the reviewed one (scan, hide the `.copia` control directory by Path::starts_with, reply Fingerprints)")
        new_loop = ("for", ("pbind", "req"), ("path", ["reqs"]), lbody)
        stmts = [new_loop if st is loops[0] else st for st in body[1]]
        spec = dict(try_transparent=True,
                    let_conv={"lockdir": "LockDir", "r": "tt", "w": "tt"}, rename={"root": "Root"},
                    consts={"VERSION": ("VERSION", "u32")},
                    paths={"Request::List": "SList", "Request::Bye": "SBye"},
                    structs={"Request::Hello": ("SHello", ["version"], ["u32"]), "Request::Get": ("SGet", ["path"], ["String"]),
                             "Request::Put": ("SPut", ["path", "expected", "len", "hash"], ["String", "Option<Hash>", "u64", "Hash"]),
                             "Request::Delete": ("SDel", ["path", "expected"], ["String", "Option<Hash>"]),
                             "Response::Hello": ("RHelloV", ["version"], ["u32"])},
                    calls={"super::wire::read_magic": ("magic_ok (* {0} *)", "bool")},
                    effects={"std::fs::create_dir_all": "VMkdir {0}", "write_frame": "VReply {1}", "LIST_REPLY": "VList",
                             "handle_get": "VGet {1}", "handle_put": "VPut {2} {3} {4} {5}", "handle_delete": "VDelete {2} {3}"},
                    env_types={"reqs": "Vec<Request>"},
                    ok=lambda s_: "effs", errs=[(r"bad protocol prologue", "effs ++ [VBadPrologue]")], prologue="let effs := [] in ")
        fn = Fn(spec)
        env = {"root": "Path", "reqs": "Vec<Request>"}
        text = spec["prologue"] + fn.block(("block", stmts, body[2]), env, Ctx(val=(lambda x: x), ret=(lambda x: x), fall=None))
        return "Definition g_serve (magic_ok : bool) (reqs : list sreq) : list veff :=\n  %s." % text
    out.append(("serve", "src/bin/copia/serve.rs serve", None, t_serve))

    def client_rewrite(n):
        """self.send(x) / self.recv() / self.w.flush() -> plain calls, `match self.recv()? {..}` -> the reply parameter"""
        if isinstance(n, tuple):
            if len(n) == 4 and n[0] == "mcall" and n[1] == ("path", ["self"]) and n[2] == "send":
                return ("call", ("path", ["SELF_SEND"]), [client_rewrite(a) for a in n[3]])
            if len(n) == 4 and n[0] == "mcall" and n[1] == ("field", ("path", ["self"]), "w") and n[2] == "flush" and not n[3]:
                return ("call", ("path", ["SELF_FLUSH"]), [])
            if len(n) == 3 and n[0] == "match" and n[1] == ("try", ("mcall", ("path", ["self"]), "recv", [])):
                return ("block", [("expr", ("call", ("path", ["SELF_RECV"]), []), True)], ("match", ("path", ["REPLY"]), client_rewrite(n[2])))
            if len(n) == 3 and n[0] == "field" and n[1] == ("path", ["self"]) and n[2] == "w":
                return ("path", ["SELF_W"])
            return tuple(client_rewrite(x) for x in n)
        if isinstance(n, list):
            return [client_rewrite(x) for x in n]
        return n

    def t_client_put():
        src = read("src/bin/copia/hub.rs")
        params, ret, body = R.find_fn(src, "put", "HubClient")
        if [n for n, _ in params] != ["self", "rel", "expected", "local", "hash"]:
            raise Unsupported("signature of HubClient::put is %s" % params)
        body2 = client_rewrite(body)
        spec = dict(try_transparent=True, rename={"local": "content", "self": "tt"},
                    calls={"std::fs::metadata": ("{0}", "Vec<u8>"), "std::fs::File::open": ("{0}", "Vec<u8>")},
                    consts={"REPLY": ("reply", "Response"), "SELF_W": ("tt", "W")},
                    structs={"Request::Put": ("SPut", ["path", "expected", "len", "hash"], ["String", "Option<Hash>", "u64", "Hash"]),
                             "Response::PutResult": ("RPut", ["committed", "current"], ["bool", "Option<Hash>"])},
                    effects={"SELF_SEND": "CSend {0}", "std::io::copy": "CStream {0} (* {1} *)", "SELF_FLUSH": "CFlush", "SELF_RECV": "CRecv"},
                    ok=lambda s_: "(effs, Some %s)" % paren(s_), errs=[(r"expected PutResult", "(effs, None)")], prologue="let effs := [] in ")
        fn = Fn(spec)
        env = {"self": "HubClient", "rel": "str", "expected": "Option<Hash>", "local": "Vec<u8>", "hash": "Hash"}
        text = spec["prologue"] + fn.block(body2, env, Ctx(val=(lambda x: x), ret=(lambda x: x), fall=None))
        return "Definition g_client_put (rel : list Z) (expected : option D) (content : list Z) (hash : D) (reply : sreply) : list ceff * option bool :=\n  %s." % text
    out.append(("client_put", "src/bin/copia/hub.rs HubClient::put", None, t_client_put))

    def t_client_list():
        src = read("src/bin/copia/hub.rs")
        params, ret, body = R.find_fn(src, "list", "HubClient")
        if [n for n, _ in params] != ["self"]:
            raise Unsupported("signature of HubClient::list is %s" % params)
        body2 = client_rewrite(body)
        spec = dict(try_transparent=True, rename={"self": "tt"}, consts={"REPLY": ("reply", "Response")},
                    paths={"Request::List": "SList", "Response::Fingerprints": "RFingerprints"},
                    effects={"SELF_SEND": "CSend {0}", "SELF_RECV": "CRecv"},
                    ok=lambda s_: "(effs, Some %s)" % paren(s_), errs=[(r"expected Fingerprints", "(effs, None)")], prologue="let effs := [] in ")
        fn = Fn(spec)
        text = spec["prologue"] + fn.block(body2, {"self": "HubClient"}, Ctx(val=(lambda x: x), ret=(lambda x: x), fall=None))
        return "Definition g_client_list (reply : sreply) : list ceff * option (list (list Z * D)) :=\n  %s." % text
    out.append(("client_list", "src/bin/copia/hub.rs HubClient::list", None, t_client_list))

    def t_sync_files():
        src = read("src/async_sync.rs")
        params, ret, body = R.find_fn(src, "sync_files", "AsyncCopiaSync")
        if [n for n, _ in params] != ["self", "source_path", "dest_path"]:
            raise Unsupported("signature of sync_files is %s" % params)
        # `use` items carry no behaviour
        def dropuse(n):
            if isinstance(n, tuple):
                if n and n[0] == "block":
                    ss = []
                    it = iter(list(n[1]))
                    for st in it:
                        if st[0] == "expr" and st[1] == ("path", ["use"]):
                            next(it, None)
                            continue
                        ss.append(dropuse(st))
                    return ("block", ss, dropuse(n[2]) if n[2] is not None else None)
                return tuple(dropuse(x) for x in n)
            if isinstance(n, list):
                return [dropuse(x) for x in n]
            return n
        body2 = dropuse(body)
        spec = dict(try_transparent=True, state="fs", str_literals=True,
                    let_conv={"source_path": "SRCP", "dest_path": "DSTP"},
                    fields={("AsyncCopiaSync", "config"): ("{0}", "SyncConfig"), ("SyncConfig", "block_size"): ("bsz (* {0} *)", "usize")},
                    calls={"tokio::fs::try_exists": ("(Some (exists_file fs {0}))", "Option<bool>"),
                           "tokio::fs::read": ("read_file source fs {0}", "Vec<u8>"),
                           "crate::Signature::generate": ("g_sig_generate digest H {0} {1}", "Signature"), "Cursor::new": ("{0}", "Vec<u8>"),
                           "crate::CopiaSync::with_block_size": ("tt (* {0} *)", "CopiaSync"),
                           ".delta": ("compute_delta digest H deq bs {2} {1} (* {0} *)", "Delta"),
                           ".bytes_matched": ("matched_of {0}", "u64"), ".bytes_literal": ("lits (d_ops _ {0})", "u64"),
                           "Vec::with_capacity": ("(@nil Z) (* {0} *)", "Vec<u8>"), ".with_extension": ("TMPP (* {0} {1} *)", "PathBuf")},
                    state_updates={"tokio::fs::write": "write_file fs {0} {1}", "tokio::fs::rename": "rename_file fs {0} {1}"},
                    try_out_calls={"sync.patch": ("output", "patch_out checked verify {0} {1} (* {2} *)", "(fs, None)")},
                    eq={"Vec<u8>": "(list_eqb Z.eqb)"},
                    structs={"SyncResult": ("mk_result", ["bytes_matched", "bytes_literal", "source_size", "basis_size"], ["u64", "u64", "u64", "u64"])},
                    rename={"self": "tt"},
                    ok=lambda s_: "(fs, Some %s)" % paren(s_))
        fn = Fn(dict(spec, self_type="AsyncCopiaSync"))
        env = {"self": "AsyncCopiaSync", "source_path": "SrcPath", "dest_path": "DstPath"}
        text = fn.block(body2, env, Ctx(val=(lambda x: x), ret=(lambda x: x), fall=None))
        return "Definition g_sync_files (checked verify : bool) (source : list Z) (fs : fstate) : fstate * option sresult :=\n  %s." % text
    out.append(("sync_files", "src/async_sync.rs AsyncCopiaSync::sync_files", None, t_sync_files))

    def t_validate_bs():
        src = read("src/bin/copia/main.rs")
        spec = dict(signature=[("size", "usize")], calls={".is_power_of_two": ("is_pow2 {0}", "bool")},
                    ok=lambda s_: "true", errs=[(r"Block size must be", "false")])
        return translate_fn(src, "validate_block_size", None, spec, "g_validate_block_size", "(size : Z)", "bool")
    out.append(("validate_block_size", "src/bin/copia/main.rs validate_block_size", None, t_validate_bs))

    CLI_OUTPUT_LET = """{
    let output = output.unwrap_or_else(|| {
        let mut p = %s.clone();
        p.set_extension("%s");
        p
    });
}"""

    def t_cli(fname, first, ext, gname):
        def go():
            src = read("src/bin/copia/main.rs")
            params, ret, body = R.find_fn(src, fname, None)
            norm = lambda x: json.loads(json.dumps(x))
            want = R.Parser(R.tokenize(CLI_OUTPUT_LET % (first, ext))).block()[1][0]
            stmts = list(body[1])
            if not stmts or norm(stmts[0]) != norm(want):
                raise Unsupported("%s: the output path is no longer `output.unwrap_or_else(|| { let mut p = %s.clone(); p.set_extension(\"%s\"); p })`" % (fname, first, ext))
            stmts = stmts[1:]
            spec = dict(try_transparent=True, prints_ignored=True, opt_try_calls=("bincode::deserialize",), try_none="effs ++ [KFail]",
                        fields={("copia::Delta", "block_size"): ("(block_size_of {0})", "u32"), ("copia::Signature", "block_size"): ("(block_size_of {0})", "usize")},
                        calls={"bincode::deserialize": ("decoded (* {0} *)", "Option<Decoded>"), "tokio::io::BufReader::new": ("{0}", "File"),
                               "bincode::serialize": ("tt (* {0} *)", "Vec<u8>")},
                        effects={"tokio::fs::read": "KRead {0}", "AsyncCopiaSync::with_block_size": "KEngine {0}", "tokio::fs::File::open": "KOpen {0}",
                                 "tokio::fs::File::create": "KCreate {0}", "tokio::fs::write": "KWrite {0} (* {1} *)"},
                        mcall_effects={"sync.patch": "KPatch", "sync.delta": "KDelta"},
                        call_checks={"validate_block_size": ("g_validate_block_size {0}", "effs ++ [KFail]")},
                        local_types={"delta": "Decoded", "sig": "Decoded"},
                        ok=lambda s_: "effs ++ [KDone]",
                        # the path parameters are bound first, so that a later `let delta: Delta = ..` shadows the path as it does in Rust
                        prologue="let effs := [] in " + "".join("let %s := %s in " % (p_, {"source": "KSource", "signature": "KInput", "basis": "KBasis", "delta": "KInput", "output": "KOutput"}[p_]) for p_, _ in params))
            fn = Fn(spec)
            env = {p_: "Path" for p_, _ in params}
            if sorted(env) != sorted(["output", first] + (["delta"] if fname == "run_patch" else ["signature"])):
                raise Unsupported("signature of %s is %s" % (fname, params))
            text = spec["prologue"] + fn.block(("block", stmts, body[2]), env, Ctx(val=(lambda x: x), ret=(lambda x: x), fall=None))
            return "Definition %s (decoded : option Z) : list keff :=\n  %s." % (gname, text)
        return go
    out.append(("run_patch", "src/bin/copia/main.rs run_patch", None, t_cli("run_patch", "basis", "patched", "g_run_patch")))
    out.append(("run_delta", "src/bin/copia/main.rs run_delta", None, t_cli("run_delta", "source", "delta", "g_run_delta")))

    def t_short_hex(path, name, gname):
        def go():
            src = read(path)
            params, ret, body = R.find_fn(src, name, None)
            if len(params) != 1 or params[0][0] != "h":
                raise Unsupported("signature of %s is %s" % (name, params))
            def dropuse(n):
                if isinstance(n, tuple):
                    if n and n[0] == "block":
                        ss, it = [], iter(list(n[1]))
                        for st in it:
                            if st[0] == "expr" and st[1] == ("path", ["use"]):
                                for st2 in it:          # `use a::b as _;` : skip to the end of the item
                                    if st2[0] == "expr" and st2[2]:
                                        break
                                continue
                            ss.append(dropuse(st))
                        return ("block", ss, dropuse(n[2]) if n[2] is not None else None)
                    return tuple(dropuse(x) for x in n)
                if isinstance(n, list):
                    return [dropuse(x) for x in n]
                return n
            spec = dict(format_bytes={"02x": "hex2 {0}"}, calls={"String::with_capacity": ("(@nil Z) (* {0} *)", "String")})
            fn = Fn(spec)
            text = fn.block(dropuse(body), {"h": "[u8;32]"}, Ctx(val=(lambda x: x), ret=(lambda x: x), fall=None))
            return "Definition %s (h : list Z) : list Z :=\n  %s." % (gname, text)
        return go
    out.append(("short_hex", "src/bin/copia/bidir.rs short_hex", None, t_short_hex("src/bin/copia/bidir.rs", "short_hex", "g_short_hex")))
    out.append(("short_hash", "src/bin/copia/wire.rs short_hash", None, t_short_hex("src/bin/copia/wire.rs", "short_hash", "g_short_hash")))

    def t_loser_name():
        src = read("src/bin/copia/bidir.rs")
        params, ret, body = R.find_fn(src, "apply", None)
        found = []
        def walk(n):
            if isinstance(n, (list, tuple)):
                if len(n) >= 4 and n[0] == "let" and n[1] == ("pbind", "loser_name"):
                    found.append(n)
                for c in n:
                    walk(c)
        walk(body)
        if len(found) != 1 or found[0][3][0] != "block":
            raise Unsupported("apply: `let loser_name = { .. };` not found")
        spec = dict(format_bytes={"02x": "hex2 {0}"}, str_literals=True,
                    fields={("Fingerprint", "blake3"): ("{0}", "[u8;32]")}, calls={"short_hex": ("g_short_hex {0}", "String"), "PathBuf::from": ("{0}", "PathBuf")},
                    updates={"n.push": "{0} ++ {1}"})
        fn = Fn(spec)
        env = {"rel": "Path", "host": "str", "lose_fp": "Fingerprint"}
        text = fn.tail(found[0][3], env, Ctx(val=(lambda x: x), ret=None, fall=None))
        return "Definition g_loser_name (rel host lose_fp : list Z) : list Z :=\n  %s." % text
    out.append(("loser_name", "src/bin/copia/bidir.rs apply: the conflict-copy name", None, t_loser_name))

    def t_hub_conflict_name():
        src = read("src/bin/copia/serve.rs")
        params, ret, body = R.find_fn(src, "handle_put", None)
        found = []
        def walk(n):
            if isinstance(n, tuple) and n and n[0] == "block":
                ss = list(n[1])
                for i in range(len(ss) - 1):
                    if ss[i][0] == "let" and ss[i][1] == ("pbind", "cn") and ss[i + 1][0] == "expr" and ss[i + 1][1][0] == "mcall" and ss[i + 1][1][1] == ("path", ["cn"]):
                        found.append(("block", [ss[i], ss[i + 1]], ("path", ["cn"])))
            if isinstance(n, (list, tuple)):
                for c in n:
                    walk(c)
        walk(body)
        if len(found) != 1:
            raise Unsupported("handle_put: `let mut cn = ..; cn.push(..);` not found")
        spec = dict(format_bytes={"02x": "hex2 {0}"}, calls={"super::wire::short_hash": ("g_short_hash {0}", "String")}, updates={"cn.push": "{0} ++ {1}"})
        fn = Fn(spec)
        text = fn.tail(found[0], {"dst": "Path", "hash": "[u8;32]"}, Ctx(val=(lambda x: x), ret=None, fall=None))
        return "Definition g_hub_conflict_name (dst hash : list Z) : list Z :=\n  %s." % text
    out.append(("hub_conflict_name", "src/bin/copia/serve.rs handle_put: the conflict-copy name", None, t_hub_conflict_name))

    SIG_READ = "{ let mut data = Vec::new(); reader.read_to_end(&mut data)?; }"

    def sig_spec():
        return dict(try_transparent=True, iterators=True, narrow_u32="w32",
                    fields={("BlockSignature", "index"): ("(b_idx _ {0})", "u32"), ("BlockSignature", "weak_hash"): ("(b_weak _ {0})", "u32"),
                            ("BlockSignature", "strong_hash"): ("(b_strong _ {0})", "StrongHash"),
                            ("Signature", "blocks"): ("(s_blocks _ {0})", "Vec<BlockSignature>"),
                            ("SignatureTable", "weak_index"): ("(fst {0})", "WeakIndex"), ("SignatureTable", "signature"): ("(snd {0})", "Signature")},
                    calls={"RollingChecksum::new": ("rc_new {0}", "Rolling"), ".digest": ("rc_digest {0}", "u32"), "StrongHash::compute": ("H {0}", "StrongHash"),
                           "BlockSignature::compute": ("g_bsig_compute {0} {1}", "BlockSignature"), "Vec::new": ("[]", "Vec<BlockSignature>"),
                           "FxHashMap::with_capacity_and_hasher": ("(@nil (Z * list Z)) (* {0} *)", "WeakIndex"),
                           ".get": ("al_find {1} {0}", "Option<Vec<usize>>"), ".contains_key": ("(match al_find {1} {0} with Some _ => true | None => false end)", "bool"),
                           ".div_ceil": ("tt (* {0} {1} *)", "usize")},
                    consts={"rustc_hash::FxBuildHasher": ("tt", "Hasher")},
                    structs={"Self": ("MKSELF", [], [])},
                    eq={"StrongHash": "digest_eqb"}, index_fn={"Vec<BlockSignature>": "nth_blk"})

    def t_bsig_compute():
        src = read("src/signature.rs")
        spec = sig_spec()
        spec["structs"] = {"Self": ("Build_bsig digest", ["index", "weak_hash", "strong_hash"], ["u32", "u32", "StrongHash"])}
        spec["signature"] = [("index", "u32"), ("data", "[u8]")]
        return translate_fn(src, "compute", "BlockSignature", spec, "g_bsig_compute", "(index : Z) (data : list Z)", "bsig digest")
    out.append(("bsig_compute", "src/signature.rs BlockSignature::compute", None, t_bsig_compute))

    def t_sig_generate():
        src = read("src/signature.rs")
        params, ret, body = R.find_fn(src, "generate", "Signature")
        norm = lambda x: json.loads(json.dumps(x))
        want = R.Parser(R.tokenize(SIG_READ)).block()[1]
        stmts = list(body[1])
        if [n for n, _ in params] != ["reader", "block_size"] or norm(stmts[:2]) != norm(want):
            raise Unsupported("Signature::generate: the basis is no longer read whole by `let mut data = Vec::new(); reader.read_to_end(&mut data)?;`")
        spec = sig_spec()
        spec["structs"] = {"Self": ("Build_signature digest", ["block_size", "file_size", "blocks"], ["usize", "u64", "Vec<BlockSignature>"])}
        spec["print_only_lets"] = ("expected_blocks",)
        spec["ok"] = lambda s_: s_
        fn = Fn(spec)
        text = fn.block(("block", stmts[2:], body[2]), {"block_size": "usize", "data": "Vec<u8>"}, Ctx(val=(lambda x: x), ret=(lambda x: x), fall=None))
        return "Definition g_sig_generate (data : list Z) (block_size : Z) : signature digest :=\n  %s." % text
    out.append(("sig_generate", "src/signature.rs Signature::generate", None, t_sig_generate))

    def t_table(fname, gname, gparams, gret, sigparams, try_none=None):
        def go():
            src = read("src/signature.rs")
            spec = sig_spec()
            spec["structs"] = {"Self": ("pair", ["weak_index", "signature"], ["WeakIndex", "Signature"])}
            spec["rename"] = {"self": "tbl"}
            if try_none:
                spec["try_transparent"] = False
                spec["try_none"] = try_none
            spec["signature"] = sigparams
            return translate_fn(src, fname, "SignatureTable", spec, gname, gparams, gret, self_type="SignatureTable")
        return go
    out.append(("table_from_signature", "src/signature.rs SignatureTable::from_signature", None,
                t_table("from_signature", "g_table_from_signature", "(signature : Delta.signature digest)", "list (Z * list Z) * Delta.signature digest", [("signature", "Signature")])))
    out.append(("table_find_match", "src/signature.rs SignatureTable::find_match", None,
                t_table("find_match", "g_table_find_match", "(tbl : list (Z * list Z) * Delta.signature digest) (weak : Z) (data : list Z)", "option (bsig digest)",
                        [("self", "Self"), ("weak", "u32"), ("data", "[u8]")], try_none="None")))
    out.append(("table_has_weak_match", "src/signature.rs SignatureTable::has_weak_match", None,
                t_table("has_weak_match", "g_table_has_weak_match", "(tbl : list (Z * list Z) * Delta.signature digest) (weak : Z)", "bool", [("self", "Self"), ("weak", "u32")])))
    out.append(("table_is_empty", "src/signature.rs SignatureTable::is_empty", None,
                t_table("is_empty", "g_table_is_empty", "(tbl : list (Z * list Z) * Delta.signature digest)", "bool", [("self", "Self")])))

    def t_push_delete_request():
        src = read("src/bin/copia/incremental.rs")
        params, ret, body = R.find_fn(src, "apply_remote_deletes", None)
        if [n for n, _ in params] != ["dir", "host", "remote_root", "local_root", "dels"]:
            raise Unsupported("signature of apply_remote_deletes is %s" % params)
        arms = [a for st in body[1] if st[0] == "expr" and st[1][0] == "match" and st[1][1] == ("path", ["dir"]) for a in st[1][2]]
        push = [a for a in arms if a[0] == ("ppath", ["Dir", "Push"], None)]
        if len(push) != 1 or push[0][2][0] != "block":
            raise Unsupported("apply_remote_deletes: `match dir { .. Dir::Push => { .. } }` not found")
        ss = []
        it = iter(list(push[0][2][1]))
        for st in it:
            if st[0] == "item":
                continue
            if st[0] == "expr" and st[1] == ("path", ["use"]):
                next(it, None)
                continue
            ss.append(st)
        if len(ss) != 3 or ss[0][0] != "let" or ss[0][1] != ("pbind", "list") or ss[1][0] != "for" or ss[2][0] != "let" or ss[2][1] != ("pbind", "remote_cmd"):
            raise Unsupported("apply_remote_deletes (push): expected `let mut list = String::new(); for rel in dels { .. }; let remote_cmd = format!(..);` before the ssh call")
        spec = dict(format_bytes={"02x": "hex2 {0}"}, format_int="dec {0}", calls={"String::new": ("(@nil Z)", "String"), ".display": ("{0}", "str")})
        fn = Fn(spec)
        env = {"remote_root": "str", "dels": "Vec<PathBuf>"}
        text = fn.block(("block", ss, ("tuple", [("path", ["list"]), ("path", ["remote_cmd"])])), env, Ctx(val=(lambda x: x), ret=(lambda x: x), fall=None))
        return "Definition g_push_delete_request (remote_root : list Z) (dels : list (list Z)) : list Z * list Z :=\n  %s." % text
    out.append(("push_delete_request", "src/bin/copia/incremental.rs apply_remote_deletes (push arm: list and command)", None, t_push_delete_request))

    def t_push_command():
        src = read("src/bin/copia/transfer.rs")
        params, ret, body = R.find_fn(src, "transfer_file_to_remote", None)
        if [n for n, _ in params] != ["local_path", "host", "remote_path", "mtime"]:
            raise Unsupported("signature of transfer_file_to_remote is %s" % params)
        lets = [st for st in body[1] if st[0] == "let" and st[1][0] == "pbind" and st[1][1] in ("escaped", "tmp_escaped", "touch")]
        if [st[1][1] for st in lets] != ["escaped", "tmp_escaped", "touch"]:
            raise Unsupported("transfer_file_to_remote: expected `let escaped`, `let tmp_escaped`, `let touch` in this order")
        cmds = []
        def walk(n):
            if isinstance(n, tuple) and len(n) == 3 and n[0] == "macro" and n[1] == "format" and n[2] and n[2][0][0] == "str" and n[2][0][1].lstrip('"').startswith("cat > "):
                cmds.append(n)
            if isinstance(n, (list, tuple)):
                for c in n:
                    walk(c)
        walk(body)
        if len(cmds) != 1:
            raise Unsupported("transfer_file_to_remote: the remote command `cat > .. && [ .. -eq .. ] && mv -f ..` was not found")
        spec = dict(format_bytes={"02x": "hex2 {0}"}, format_int="dec_signed {0}", calls={"String::new": ("(@nil Z)", "String")})
        fn = Fn(spec)
        env = {"remote_path": "str", "mtime": "Option<i64>", "file_size": "u64"}
        text = fn.block(("block", lets, cmds[0]), env, Ctx(val=(lambda x: x), ret=(lambda x: x), fall=None))
        return "Definition g_push_command (remote_path : list Z) (file_size : Z) (mtime : option Z) : list Z :=\n  %s." % text
    out.append(("push_command", "src/bin/copia/transfer.rs transfer_file_to_remote (the remote command)", None, t_push_command))

    def cmd_of(path, fname, let_names, starts, gname, gparams, env):
        """the `let`s named and the one format!(..) whose text starts with `starts`, as a byte list"""
        def go():
            src = read(path)
            params, ret, body = R.find_fn(src, fname, None)
            lets = [st for st in body[1] if st[0] == "let" and st[1][0] == "pbind" and st[1][1] in let_names]
            if [st[1][1] for st in lets] != list(let_names):
                raise Unsupported("%s: expected the statements %s in this order" % (fname, ", ".join("`let %s`" % n for n in let_names)))
            cmds = []
            def walk(n):
                if isinstance(n, tuple) and len(n) == 3 and n[0] == "macro" and n[1] == "format" and n[2] and n[2][0][0] == "str" and n[2][0][1].lstrip('"').startswith(starts):
                    cmds.append(n)
                if isinstance(n, (list, tuple)):
                    for c in n:
                        walk(c)
            walk(body)
            if len(cmds) != 1:
                raise Unsupported("%s: the remote command `%s..` was not found" % (fname, starts))
            spec = dict(format_bytes={"02x": "hex2 {0}"}, format_int="dec_signed {0}")
            fn = Fn(spec)
            text = fn.block(("block", lets, cmds[0]), env, Ctx(val=(lambda x: x), ret=(lambda x: x), fall=None))
            return "Definition %s %s : list Z :=\n  %s." % (gname, gparams, text)
        return go
    out.append(("pull_command", "src/bin/copia/dir_sync.rs transfer_file_from_remote (the remote command)", None,
                cmd_of("src/bin/copia/dir_sync.rs", "transfer_file_from_remote", ("escaped",), "cat $", "g_pull_command", "(remote_path : list Z)", {"remote_path": "str"})))
    out.append(("list_command", "src/bin/copia/meta.rs discover_remote_with_meta (the remote command)", None,
                cmd_of("src/bin/copia/meta.rs", "discover_remote_with_meta", ("escaped",), "cd $", "g_list_command", "(remote_root : list Z)", {"remote_root": "str"})))

    def t_mkdir_list():
        src = read("src/bin/copia/transfer.rs")
        params, ret, body = R.find_fn(src, "create_remote_dirs", None)
        if [n for n, _ in params] != ["host", "remote_root", "dirs"]:
            raise Unsupported("signature of create_remote_dirs is %s" % params)
        ss = [st for st in body[1] if (st[0] == "let" and st[1] == ("pbind", "dir_list")) or (st[0] == "for" and st[2] == ("path", ["dirs"]))]
        if len(ss) != 2 or ss[0][0] != "let" or ss[1][0] != "for":
            raise Unsupported("create_remote_dirs: expected `let mut dir_list = format!(..);` and one `for dir in dirs { .. }`")
        cmd = []
        def walk(n):
            if isinstance(n, tuple) and n and n[0] == "str" and "mkdir" in n[1]:
                cmd.append(n[1])
            if isinstance(n, (list, tuple)):
                for c in n:
                    walk(c)
        walk(body)
        if cmd != ["xargs -0 mkdir -p"]:
            raise Unsupported("create_remote_dirs: the remote command is no longer `xargs -0 mkdir -p` (%s)" % cmd)
        spec = dict(format_bytes={"02x": "hex2 {0}"}, format_int="dec_signed {0}", prints_ignored=True, calls={".display": ("{0}", "str")})
        fn = Fn(spec)
        text = fn.block(("block", ss, ("path", ["dir_list"])), {"remote_root": "str", "dirs": "Vec<PathBuf>"}, Ctx(val=(lambda x: x), ret=(lambda x: x), fall=None))
        return "Definition g_mkdir_list (remote_root : list Z) (dirs : list (list Z)) : list Z :=\n  %s." % text
    out.append(("mkdir_list", "src/bin/copia/transfer.rs create_remote_dirs (the list sent to `xargs -0 mkdir -p`)", None, t_mkdir_list))

    def t_run_remote():
        src = read("src/bin/copia/incremental.rs")
        params, ret, body = R.find_fn(src, "run_remote", None)
        norm = lambda x: json.loads(json.dumps(x))
        want = R.Parser(R.tokenize(SPAWN_REMOTE)).block()[1]
        loops = [st for st in body[1] if st[0] == "for" and norm(st[2]) == norm(("field", ("path", ["plan"]), "transfer"))]
        if len(loops) != 1:
            raise Unsupported("run_remote: expected exactly one loop over plan.transfer")
        lb = list(loops[0][3][1])
        if loops[0][3][2] is not None or len(lb) != 1 + len(want) or norm(lb[1:]) != norm(want) or lb[0][0] != "let" or lb[0][1] != ("pbind", "mtime"):
            raise Unsupported("run_remote: a planned file is no longer handed to the reviewed `tokio::spawn(async move { .. transfer_file_to_remote / deliver_pull .. })` with remote_file = remote_root/rel and local_file = local_root.join(rel)")
        new_loop = ("for", loops[0][1], loops[0][2], ("block", [lb[0], ("expr", ("call", ("path", ["SPAWN_REMOTE"]), [("path", ["dir"]), ("path", ["rel"]), ("path", ["mtime"])]), True)], None))
        # the two descriptions are text for messages: the statement that builds them is checked literally and dropped, and
        # they may occur nowhere but in the closing report(..) call
        want_desc = R.Parser(R.tokenize(DESC_LET)).block()[1][0]
        descs = [st for st in body[1] if st[0] == "let" and st[1][0] == "ptuple" and norm(st) == norm(want_desc)]
        if len(descs) != 1:
            raise Unsupported("run_remote: src_desc / dst_desc are no longer built by the reviewed statement")
        stmts = [new_loop if st is loops[0] else st for st in body[1] if st is not descs[0]]
        tail = body[2]
        if tail is None or tail[0] != "call" or tail[1] != ("path", ["report"]):
            raise Unsupported("run_remote no longer ends with report(..)")
        tail = ("call", tail[1], [a for a in tail[2] if a not in (("path", ["src_desc"]), ("path", ["dst_desc"]))])
        def uses(n):
            if isinstance(n, tuple):
                if len(n) == 2 and n[0] == "path" and list(n[1]) in (["src_desc"], ["dst_desc"]):
                    return True
                return any(uses(x) for x in n)
            if isinstance(n, list):
                return any(uses(x) for x in n)
            return False
        if uses(stmts) or uses(tail):
            raise Unsupported("run_remote: src_desc / dst_desc are used outside messages")
        if [n for n, _ in params] != ["dir", "host", "remote_root", "local_root", "opts"]:
            raise Unsupported("signature of run_remote is %s" % params)
        spec = dict(try_transparent=True, prints_ignored=True,
                    print_effects=[("No files found", "ENoFiles"), ("Already up to date", "EUpToDate")],
                    paths={"Dir::Push": "Push", "Dir::Pull": "Pull"},
                    fields={("SyncOptions", "delete"): ("(o_delete {0})", "bool"), ("SyncOptions", "excludes"): ("(o_excludes {0})", "[String]"),
                            ("SyncOptions", "dry_run"): ("(o_dry_run {0})", "bool"), ("SyncOptions", "jobs"): ("jobs (* {0} *)", "usize"),
                            ("SyncOptions", "verbose"): ("verbose (* {0} *)", "bool"),
                            ("SyncPlan", "transfer"): ("(transfer {0})", "Vec<PathBuf>"), ("SyncPlan", "delete"): ("(sp_delete {0})", "Vec<PathBuf>"),
                            ("FileMeta", "mtime"): ("(fm_mtime {0})", "i64")},
                    calls={"Instant::now": ("tt", "Instant"), "discover_local_with_meta": ("local_meta (* {0} *)", "MetaMap"),
                           "discover_remote_with_meta": ("remote_meta (* {0} {1} *)", "MetaMap"),
                           ".unwrap_or_default": ("{0}", "MetaMap"), "build_plan": ("build_plan {0} {1} {2} {3}", "SyncPlan"),
                           "collect_dirs": ("collect_dirs {0}", "Vec<PathBuf>"), "Arc::new": ("tt (* {0} *)", "Sem"), "Semaphore::new": ("tt (* {0} *)", "Sem"),
                           "TransferProgress::new": ("tt (* {0} *)", "Progress"), "Vec::with_capacity": ("tt (* {0} *)", "Handles"),
                           ".get": ("mm_get {1} {0}", "Option<FileMeta>"),
                           "report": ("effs ++ [RReport] (* {0} {1} {3} *)", "Result")},
                    effects={"print_plan": "RPrintPlan {0} {1}", "create_remote_dirs": "RCreateDirs Push {2} (* {0} {1} *)",
                             "create_local_dirs": "RCreateDirs Pull {1} (* {0} *)", "SPAWN_REMOTE": "RSpawn {0} {1} {2}",
                             "join_handles": "RJoin (* {0} *)", "apply_remote_deletes": "RDeletes {0} {4} (* {1} {2} {3} *)"},
                    param_types={"dir": "Dir"},
                    ok=lambda s_: "effs", prologue="let effs := [] in ")
        fn = Fn(spec)
        env = {"dir": "Dir", "host": "str", "remote_root": "str", "local_root": "Path", "opts": "SyncOptions"}
        text = spec["prologue"] + fn.block(("block", stmts, tail), env, Ctx(val=(lambda x: x), ret=(lambda x: x), fall=None))
        return "Definition g_run_remote (dir : rdir) (opts : OneWay.opts) (jobs : Z) (verbose : bool) : list reff :=\n  %s." % text
    out.append(("run_remote", "src/bin/copia/incremental.rs run_remote", None, t_run_remote))

    def t_safe_join():
        src = read("src/bin/copia/serve.rs")
        spec = dict(signature=[("root", "Path"), ("rel", "str")],
                    let_conv={"p": "rel"},        # Path::new(rel) is the same string seen as a path
                    calls={".is_absolute": ("is_absolute", "bool"), ".components": ("components", "Vec<Component>"),
                           ".join": ("join", "PathBuf")},
                    paths={"Component::ParentDir": "CParent", "Component::RootDir": "CRoot", "Component::Prefix": None},
                    param_types={"root": "Path", "rel": "str"})
        params, ret, body = R.find_fn(src, "safe_join", None)
        if body[1][0] != ("let", ("pbind", "p"), None, ("call", ("path", ["Path", "new"]), [("path", ["rel"])]), None):
            raise Unsupported("safe_join no longer starts with `let p = Path::new(rel);`")
        return translate_fn(src, "safe_join", None, spec, "g_safe_join", "(root rel : list Z)", "option (list Z)",
                            env_types={"p": "Path"})
    out.append(("safe_join", "src/bin/copia/serve.rs safe_join", None, t_safe_join))
    return out


GROUPS = {
    # group -> (imports, needs the digest section, [function keys], properties whose models rest on these functions)
    "Reconcile": ("Model.Reconcile", True, ["same", "reconcile_path", "reconcile"]),
    "Cas": ("", True, ["cas_decide"]),
    "Targets": ("Model.Targets", False, ["split_target", "parse_location"]),
    "WireMagic": ("Model.Wire", False, ["read_magic"]),
    "WireFrame": ("Model.Wire", "wireframe", ["read_frame"]),
    "BisyncApply": ("", "bisync", ["apply"]),
    "ConflictName": ("", "conflictname", ["short_hex", "short_hash", "loser_name", "hub_conflict_name", "staging_name", "create_staging"]),
    "HubDelete": ("", "hubseq", ["handle_delete", "handle_put", "handle_get"]),
    "BisyncRun": ("", "bisyncrun", ["run_bisync"]),
    "HubSync": ("", "hubsync", ["hub_sync"]),
    "ServeLoop": ("", "serveloop", ["serve"]),
    "CommitLock": ("", "commitlock", ["with_commit_lock", "pull_stream"]),
    "HubConnect": ("Model.Targets Gen.TargetsGen", "hubconnect", ["client_connect"]),
    "HubWireClient": ("", "hubwireclient", ["client_put", "client_list"]),
    "BisyncSys": ("", "bisyncsys", ["copy_atomic"]),
    "ArchiveSave": ("Model.ArchiveSys", "archivesys", ["archive_save"]),
    "OneWaySys": ("Model.OneWaySys", "onewaysys", ["tmp_path", "deliver_local", "deliver_pull"]),
    "OneWayRun": ("Model.Glob Model.Plan Model.OneWay", "onewayrun", ["run_local"]),
    "Fingerprint": ("Model.Reconcile", "fingerprintg", ["fingerprint_path", "discover_local_fingerprints"]),
    "LocalScan": ("Model.Glob Model.Plan Model.OneWay", "localscan", ["mtime_secs", "discover_local_with_meta", "set_local_mtime"]),
    "ListingParse": ("Model.Glob Model.Plan Model.Listing", "listingparse", ["parse_listing"]),
    "OneWayPrint": ("Model.Glob Model.Plan Model.OneWay", "onewayprint", ["print_plan", "report"]),
    "PushDelete": ("Model.Glob Model.Plan Model.Listing Model.ShellQuote", "plainz", ["push_delete_request"]),
    "PushCommand": ("Model.Glob Model.Plan Model.Listing Model.ShellQuote", "pushcommand", ["push_command", "pull_command", "list_command", "mkdir_list"]),
    "RemoteRun": ("Model.Glob Model.Plan Model.OneWay", "remoterun", ["run_remote"]),
    "PairKey": ("", "pairkey", ["root_pair_hash", "archive_path", "host_id"]),
    "Archive": ("Model.Archive", "archive", ["archive_load"]),
    "Plan": ("Model.Glob Model.Plan", False, ["needs_transfer", "glob_match", "is_excluded", "build_plan"]),
    "Protocol": ("Model.Checksum Model.Delta Model.Protocol", False, ["from_u8", "hvalidate"]),
    "ProtocolHeader": ("Model.Checksum Model.Delta Model.Bincode Model.Protocol Gen.ProtocolGen", "protocolheader", ["header_new", "header_encode", "header_decode", "header_read_from", "codec_read_message", "codec_write_message"]),
    "CliReaders": ("Model.Checksum Model.Delta Model.Protocol", "clireaders", ["validate_block_size", "run_patch", "run_delta"]),
    "DeltaV": ("Model.Checksum Model.Delta", True, ["delta_validate", "delta_push_copy", "delta_push_literal", "delta_push_literal_byte"]),
    "SigTable": ("Model.Checksum Model.Delta", "sigtable", ["bsig_compute", "sig_generate", "table_from_signature", "table_find_match", "table_has_weak_match", "table_is_empty"]),
    "Scan": ("Model.Checksum Model.Delta Gen.SigTableGen", "scan", ["delta", "async_delta"]),
    "SyncFiles": ("Model.Checksum Model.Delta Gen.SigTableGen", "syncfiles", ["sync_files"]),
    "Patch": ("Model.Checksum Model.Delta Gen.DeltaVGen", "patch", ["patch", "async_patch"]),
    "SafeJoin": ("Model.SafeJoin", False, ["safe_join"]),
}

HEADER = """(** GENERATED by tools/gen_logic.py from /repo's CURRENT source - do not edit.
    One Gallina function per translated Rust function; Proofs/Tie%s.v proves each equal to the model's. *)
From Coq Require Import ZArith List Bool.
From Copia Require Import Gen.Constants Model.LoopLib Model.Path %s.
Import ListNotations.
Open Scope Z_scope.
"""


def main():
    fns = {key: (desc, thunk) for key, desc, _needs, thunk in functions()}
    gen_dir = os.path.dirname(os.path.abspath(OUT))
    status = {"translated": [], "failed": []}
    changed = 0
    for group, (imports, digest, keys) in GROUPS.items():
        texts, failed = [], False
        for key in keys:
            desc, thunk = fns[key]
            try:
                texts.append("(* %s *)\n%s\n" % (desc, thunk()))
                status["translated"].append(key)
            except Unsupported as ex:
                failed = True
                status["failed"].append({"function": key, "group": group, "source": desc, "why": str(ex)[:300]})
            except FileNotFoundError as ex:
                failed = True
                status["failed"].append({"function": key, "group": group, "source": desc, "why": "source file missing: %s" % ex})
        path = os.path.join(gen_dir, group + "Gen.v")
        if failed and os.path.exists(path):
            continue            # keep the previous file: everything else still builds; the group is reported as failed
        body = HEADER % (group, imports)
        if group == "Cas":
            body += "\nInductive g_cas := GCommit | GConflict.\n"
        if digest == "hubseq":
            body = ("(** GENERATED by tools/gen_logic.py from /repo's CURRENT source - do not edit.\n    serve.rs `handle_delete` as a function of the served tree (sequential reading: `with_commit_lock(.., || body)` is\n"
                    "    its body; `safe_join` yields the canonical key of the file the joined path names; `write_frame(w, r)` is the reply r). *)\n"
                    "From stdpp Require Import gmap.\nFrom Copia Require Import Model.LoopLib Model.Hub Model.SafeJoin Model.HubSeq Gen.CasGen.\n\n"
                    "Section WithHub.\nContext {D : Type} `{EqDecision D}.\nVariable Hh : list Z -> D.\n"
                    "Definition deqD : forall x y : D, {x = y} + {x <> y} := fun x y => decide (x = y).\n"
                    "Definition safe_key (rel : list Z) : option (list Z) := if refused rel then None else Some (canon rel).\n"
                    "Notation bytes := (list Z).\nNotation tree := (gmap (list Z) (list Z)).\nVariable cname : bytes -> D -> bytes.\n"
                    "Definition deq_b (x y : D) : bool := bool_decide (x = y).\n"
                    "(* a staging file is not a name of the served tree: its own type, so that it cannot stand where a live path is meant *)\n"
                    "Inductive staging := mk_staging (dst : bytes).\n"
                    "Definition rm_staging (s : staging) (t : tree) : tree := t.\n"
                    "Definition mv_staging (s : staging) (to : bytes) (c : bytes) (t : tree) : tree := <[to := c]> t.\n\n" + "\n".join(texts) + "End WithHub.\n")
        elif digest == "hubsync":
            body = ("(** GENERATED by tools/gen_logic.py from /repo's CURRENT source - do not edit.\n    hub.rs `hub_sync` as a function of the listing it received (L), the hub tree its Puts act on (t, through the hub\n"
                    "    specification of Model/Hub.v) and the local fingerprints in path order; `lfile p` is the content of the local\n"
                    "    file at `local_root/p` when it is streamed. Result: the hub tree, (sent, skipped, conflicts), exit status ok. *)\n"
                    "From stdpp Require Import gmap.\nFrom Copia Require Import Model.LoopLib Model.Hub Model.HubClient.\n\n"
                    "Section WithClient.\nContext `{Countable K} {D : Type} `{EqDecision D}.\nVariable Hh : list Z -> D.\nVariable cname : K -> D -> K.\n"
                    "Variable lfile : K -> list Z.\nNotation tree := (gmap K (list Z)).\n"
                    "Definition cput (t : tree) (p : K) (e : option D) (c : list Z) (h : D) : tree * bool :=\n"
                    "  let '(t', rp) := spec Hh cname t (Put p e h (Z.of_nat (length c)) [c]) in (t', is_committed rp).\n"
                    "Definition deq_ob (x y : option D) : bool := bool_decide (x = y).\n\n" + "\n".join(texts) + "End WithClient.\n")
        elif digest == "patch":
            body += ("\nSection WithDigest.\nVariable digest : Type.\nVariable H : list Z -> digest.\nVariable deq : forall x y : digest, {x = y} + {x <> y}.\n"
                     "Notation presult := Delta.presult.\nNotation read := Delta.read.\nNotation out_len := Delta.out_len.\n\n" + "\n".join(texts) + "End WithDigest.\n")
        elif digest == "scan":
            body += ("\nSection WithDigest.\nVariable digest : Type.\nVariable H : list Z -> digest.\nVariable deq : forall x y : digest, {x = y} + {x <> y}.\n"
                     "Notation ddelta := (Delta.delta digest).\n"
                     "(* while it is built the delta keeps its operations newest first as push_copy / push_lit of Model/Delta.v expect; Ok(delta) puts them in order *)\n"
                     "Definition dset (d : ddelta) (ops : list dop) : ddelta := Build_delta digest (d_block_size _ d) (d_source_size _ d) (d_basis_size _ d) ops (d_checksum _ d).\n"
                     "Definition dpush_copy (d : ddelta) (off len : Z) : ddelta := dset d (push_copy (d_ops _ d) off len).\n"
                     "Definition dpush_lit (d : ddelta) (x : list Z) : ddelta := dset d (push_lit (d_ops _ d) x).\n"
                     "Definition dpush_lit_byte (d : ddelta) (x : Z) : ddelta := dset d (push_lit_byte (d_ops _ d) x).\n"
                     "Definition dfinish (d : ddelta) : ddelta := dset d (rev (d_ops _ d)).\n\n" + "\n".join(texts) + "End WithDigest.\n")
        elif digest == "wireframe":
            body += ("\nSection WithDecoder.\nVariable request : Type.\nVariable decode : list Z -> option request.   (* ciborium::from_reader on the whole payload *)\n"
                     "(* what one call of read_frame does to the input: the clean end, an oversize prefix (nothing reserved), a short or\n   undecodable payload (after reserving [alloc] bytes), or a request; [rest] = the input left *)\n"
                     "Inductive fres := FEnd (rest : list Z) | FTooBig (rest : list Z) | FShort (alloc : Z) (rest : list Z) | FBad (alloc : Z) (rest : list Z)\n"
                     "                | FOk (alloc : Z) (rq : request) (rest : list Z).\n\n" + "\n".join(texts) + "End WithDecoder.\n")
        elif digest == "bisyncrun":
            body = ("(** GENERATED by tools/gen_logic.py from /repo's CURRENT source - do not edit.\n    bidir.rs `run_bisync` as a function of the two trees and the recorded state (Model/Bisync.v [state]): the result is\n"
                    "    the two trees with the I/O error flag, what was SAVED as the new recorded state (None = nothing saved), what a\n"
                    "    dry run printed on stdout, and the exit status.  `apply(..)?` is Model/Bisync.v [apply] (tied to the source of\n"
                    "    `apply` by Proofs/TieBisyncApply.v) on the file systems [w], the common map and the conflict list. *)\n"
                    "From stdpp Require Import gmap.\nFrom Copia Require Import Model.LoopLib Model.Bisync.\n\n"
                    "Section WithBisync.\nContext `{Countable K} {D : Type} `{EqDecision D}.\nVariable Hh : list Z -> D.\nVariable kle : K -> K -> bool.\n"
                    "Variable dge : D -> D -> bool.\nVariable cname : K -> D -> K.\n"
                    "Notation state := (@Bisync.state K _ _ D).\nNotation action := Bisync.action.\n"
                    "Inductive side := SA | SB.\nInductive gres := GOk | GConflicts | GIoErr.\n"
                    "(* the two file systems and whether an I/O error has occurred *)\n"
                    "Definition fs : Type := gmap K (list Z) * gmap K (list Z) * bool.\n"
                    "Definition w_of (s : state) : fs := (tA s, tB s, false).\nDefinition failed (w : fs) : bool := snd w.\n"
                    "Definition scan_of (s : state) (sd : side) : gmap K D := match sd with SA => scan Hh (tA s) | SB => scan Hh (tB s) end.\n"
                    "Definition plan_tb (a b base : gmap K D) (trust : bool) : list (K * action) := plan kle a b (if trust then Some base else None).\n"
                    "(* conflict_paths is only ever counted: one [tt] per conflicted path *)\n"
                    "Definition apply_st (a b : gmap K D) (w : fs) (common : gmap K D) (conf : list unit) (p : K) (act : action) : fs * gmap K D * list unit :=\n"
                    "  let w' := Bisync.apply dge cname a b {| wA := fst (fst w); wB := snd (fst w); wC := common; wConf := length conf; wErr := snd w |} (p, act) in\n"
                    "  ((wA w', wB w', wErr w'), wC w', repeat tt (wConf w')).\n\n"
                    + "\n".join(texts) + "End WithBisync.\n")
        elif digest == "onewayrun":
            body += ("\nSection WithScans.\nVariable src_meta dst_meta : metamap.   (* discover_local_with_meta(src), discover_local_with_meta(dst).unwrap_or_default() *)\n"
                     "Variable collect_dirs : list (list Z) -> list (list Z).\n"
                     "Inductive root := SRC | DST.\nDefinition scan_meta (r : root) : metamap := match r with SRC => src_meta | DST => dst_meta end.\n"
                     "(* what run_local does, in order *)\n"
                     "Inductive leff := ENoFiles | EPrintPlan (p : sync_plan) (dry : bool) | EUpToDate | ECreateDirs (r : root) (dirs : list (list Z))\n"
                     "  | ESpawn (rel : list Z) (mtime : option Z) | EJoin | ERemove (at_ : root * list Z) | EReport.\n\n" + "\n".join(texts) + "End WithScans.\n")
        elif digest == "remoterun":
            body += ("\nSection WithScans.\nVariable local_meta remote_meta : metamap.   (* discover_local_with_meta(local_root), discover_remote_with_meta(host, remote_root) *)\n"
                     "Variable collect_dirs : list (list Z) -> list (list Z).\n"
                     "Inductive rdir := Push | Pull.\n"
                     "(* what run_remote does, in order *)\n"
                     "Inductive reff := ENoFiles | RPrintPlan (p : sync_plan) (dry : bool) | EUpToDate | RCreateDirs (d : rdir) (dirs : list (list Z))\n"
                     "  | RSpawn (d : rdir) (rel : list Z) (mtime : option Z) | RJoin | RDeletes (d : rdir) (dels : list (list Z)) | RReport.\n\n" + "\n".join(texts) + "End WithScans.\n")
        elif digest == "onewayprint":
            body += "\n(* one line of `sync --dry-run` on stdout *)\nInductive pline := PSend (p : list Z) | PDelete (p : list Z).\n\n" + "\n".join(texts)
        elif digest == "listingparse":
            body += ("\n(* `s.splitn(3, sep)` taken three times: up to the first sep, up to the second, and all the rest *)\n"
                     "Definition splitn3 (sep : Z) (s : list Z) : option (list Z * list Z * list Z) :=\n"
                     "  match split_first sep s with\n  | Some (a, r) => match split_first sep r with Some (b, c) => Some (a, b, c) | None => None end\n  | None => None\n  end.\n"
                     "(* `s.strip_prefix(\"lit\")` *)\n"
                     "Fixpoint strip_prefix_lit (pre s : list Z) : option (list Z) :=\n"
                     "  match pre with\n  | [] => Some s\n  | p :: pre' => match s with x :: s' => if x =? p then strip_prefix_lit pre' s' else None | [] => None end\n  end.\n\n"
                     + "\n".join(texts))
        elif digest == "serveloop":
            body = ("(** GENERATED by tools/gen_logic.py from /repo's CURRENT source - do not edit.\n    serve.rs `serve` as the ordered list of what it does, given whether the prologue was the magic and the requests\n"
                    "    that `read_frame` decodes (Proofs/TieWireFrame.v) until the clean end. *)\n"
                    "From stdpp Require Import gmap.\nFrom Copia Require Import Gen.Constants Model.LoopLib Model.Hub Model.SafeJoin Model.HubSeq.\n\n"
                    "Section WithDigest.\nContext {D : Type}.\nNotation sreq := (@HubSeq.sreq D).\n"
                    "Definition VERSION : Z := WIRE_VERSION.\n"
                    "Inductive place := Root | LockDir.\nInductive vreply := RHelloV (version : Z).\n"
                    "Inductive veff := VMkdir (p : place) | VBadPrologue | VReply (r : vreply) | VList | VGet (path : list Z)\n"
                    "  | VPut (path : list Z) (expected : option D) (len : Z) (hash : D) | VDelete (path : list Z) (expected : option D).\n\n"
                    + "\n".join(texts) + "End WithDigest.\n")
        elif digest == "hubwireclient":
            body = ("(** GENERATED by tools/gen_logic.py from /repo's CURRENT source - do not edit.\n    hub.rs `HubClient::put` / `HubClient::list` as what they put on the wire, in order, and what they return for the\n"
                    "    reply that comes back ([content] = the bytes of the local file, which `metadata(..).len()` measures and\n    `io::copy` streams). *)\n"
                    "From stdpp Require Import gmap.\nFrom Copia Require Import Model.LoopLib Model.Hub Model.SafeJoin Model.HubSeq.\n\n"
                    "Section WithDigest.\nContext {D : Type}.\nNotation sreq := (@HubSeq.sreq D).\nNotation sreply := (@HubSeq.sreply D).\n"
                    "Inductive ceff := CSend (r : sreq) | CStream (c : list Z) | CFlush | CRecv.\n\n" + "\n".join(texts) + "End WithDigest.\n")
        elif digest == "syncfiles":
            body += ("\nSection WithDigest.\nVariable digest : Type.\nVariable H : list Z -> digest.\nVariable deq : forall x y : digest, {x = y} + {x <> y}.\nVariable bs : nat.\n"
                     "Definition bsz : Z := Z.of_nat bs.\n"
                     "(* the three files sync_files touches, and their contents: the source never changes *)\n"
                     "Inductive fpath := SRCP | DSTP | TMPP.\n"
                     "Record fstate := { f_dest : option (list Z); f_tmp : option (list Z) }.\n"
                     "Definition exists_file (fs : fstate) (p : fpath) : bool := match p with SRCP => true | DSTP => match f_dest fs with Some _ => true | None => false end | TMPP => match f_tmp fs with Some _ => true | None => false end end.\n"
                     "Definition read_file (source : list Z) (fs : fstate) (p : fpath) : list Z :=\n  match p with SRCP => source | DSTP => match f_dest fs with Some b => b | None => [] end | TMPP => match f_tmp fs with Some b => b | None => [] end end.\n"
                     "Definition write_file (fs : fstate) (p : fpath) (c : list Z) : fstate :=\n  match p with DSTP => {| f_dest := Some c; f_tmp := f_tmp fs |} | TMPP => {| f_dest := f_dest fs; f_tmp := Some c |} | SRCP => fs end.\n"
                     "Definition rename_file (fs : fstate) (from to : fpath) : fstate :=\n  match from, to with TMPP, DSTP => {| f_dest := f_tmp fs; f_tmp := None |} | _, _ => fs end.\n"
                     "Record sresult := mk_result { bytes_matched : Z; bytes_literal : Z; source_size : Z; basis_size : Z }.\n"
                     "Definition matched_of (d : Delta.delta digest) : Z := out_len (d_ops _ d) - lits (d_ops _ d).\n"
                     "Definition patch_out (checked verify : bool) (basis : list Z) (d : Delta.delta digest) : option (list Z) :=\n  match Delta.patch digest H deq checked verify basis d with POk o => Some o | _ => None end.\n\n"
                     + "\n".join(texts) + "End WithDigest.\n")
        elif digest == "clireaders":
            body += ("\n(* the files and steps of `copia delta` / `copia patch`; [decoded] = the block size carried by the file that\n   bincode::deserialize accepted (None = refused) *)\n"
                     "Inductive kfile := KSource | KInput | KBasis | KOutput.\nDefinition block_size_of (z : Z) : Z := z.\n"
                     "Inductive keff := KRead (f : kfile) | KFail | KEngine (bs : Z) | KOpen (f : kfile) | KCreate (f : kfile) | KPatch | KDelta | KWrite (f : kfile) | KDone.\n\n"
                     + "\n".join(texts))
        elif digest == "conflictname":
            body = (HEADER % (group, "")).replace(" .\n", ".\n") + ("\n(* `{b:02x}`: two lower-case hexadecimal digits of a byte *)\n"
                    "Definition hexd (n : Z) : Z := if n <? 10 then 48 + n else 87 + n.\nDefinition hex2 (b : Z) : list Z := [hexd (b / 16); hexd (b mod 16)].\n"
                    "(* `{}` of an unsigned integer: decimal digits; `{:x}`: lower-case hexadecimal digits - most significant first, `0` for zero *)\n"
                    "Fixpoint digits_aux (base : Z) (fuel : nat) (n : Z) (acc : list Z) : list Z :=\n  match fuel with O => acc | S f => let acc' := hexd (n mod base) :: acc in if n / base =? 0 then acc' else digits_aux base f (n / base) acc' end.\n"
                    "Definition dec (n : Z) : list Z := digits_aux 10 (S (Z.to_nat (Z.log2 n))) n [].\nDefinition hexz (n : Z) : list Z := digits_aux 16 (S (Z.to_nat (Z.log2 n))) n [].\n"
                    "(* `OpenOptions::new().write(true).create_new(true).open(p)`: created (O_EXCL: the name did not exist), the name exists, or another error *)\n"
                    "Inductive opened := Created | AlreadyExists | OtherError.\n\n" + "\n".join(texts))
        elif digest == "sigtable":
            body += ("\nSection WithDigest.\nVariable digest : Type.\nVariable H : list Z -> digest.\nVariable deq : forall x y : digest, {x = y} + {x <> y}.\n"
                     "Definition digest_eqb (x y : digest) : bool := if deq x y then true else false.\n"
                     "(* `data.chunks(n)`: consecutive pieces of n bytes, the last one shorter - Model/Delta.v [chunks] *)\n"
                     "Definition chunksZ (n : Z) (l : list Z) : list (list Z) := Delta.chunks (Z.to_nat n) (length l) l.\n"
                     "Fixpoint enumerate_from {A} (i : Z) (l : list A) : list (Z * A) := match l with [] => [] | x :: r => (i, x) :: enumerate_from (i + 1) r end.\n"
                     "Definition enumerateZ {A} (l : list A) : list (Z * A) := enumerate_from 0 l.\n"
                     "(* FxHashMap<u32, Vec<usize>> with `entry(k).or_default().push(v)` and `get(&k)`: buckets in insertion order *)\n"
                     "Fixpoint al_push (k v : Z) (m : list (Z * list Z)) : list (Z * list Z) :=\n  match m with [] => [(k, [v])] | (k', vs) :: r => if k' =? k then (k', vs ++ [v]) :: r else (k', vs) :: al_push k v r end.\n"
                     "Fixpoint al_find (k : Z) (m : list (Z * list Z)) : option (list Z) :=\n  match m with [] => None | (k', vs) :: r => if k' =? k then Some vs else al_find k r end.\n"
                     "Definition nth_blk (l : list (bsig digest)) (i : Z) : bsig digest := nth (Z.to_nat i) l (Build_bsig digest 0 0 (H [])).\n\n"
                     + "\n".join(texts) + "End WithDigest.\n")
        elif digest == "pushcommand":
            body += ("\n(* `s.replace(c, lit)`: every occurrence of the character c replaced by the bytes lit *)\n"
                     "Definition replace_char (c : Z) (lit s : list Z) : list Z := flat_map (fun x => if x =? c then lit else [x]) s.\n"
                     "(* `{t}` for an i64: a minus sign for a negative number, then the decimal digits *)\n"
                     "Definition dec_signed (n : Z) : list Z := if n <? 0 then 45 :: dec (- n) else dec n.\n\n" + "\n".join(texts))
        elif digest == "protocolheader":
            body += ("\n(* a FrameHeader value: the model's record, its `magic: [u8; 4]` field spread over four components *)\n"
                     "Definition mk_header (magic : list Z) (length : Z) (t : mtype) (version flags : Z) : header :=\n"
                     "  {| h_m0 := nthZ magic 0; h_m1 := nthZ magic 1; h_m2 := nthZ magic 2; h_m3 := nthZ magic 3; h_length := length; h_type := t; h_version := version; h_flags := flags |}.\n"
                     "(* `uN::from_le_bytes([b0, b1, ..])` *)\n"
                     "Fixpoint le_bytes (l : list Z) : Z := match l with [] => 0 | b :: r => b + 256 * le_bytes r end.\n"
                     "Definition with_rest (r : res header) (rest : list Z) : res (header * list Z) := match r with ROk h => ROk (h, rest) | RErr e => RErr e end.\n"
                     "Section WithPayloadDecoder.\nVariable decode_message : list Z -> option (message * list Z).   (* Message::decode on exactly the payload *)\n\n"
                     + "\n".join(texts) + "End WithPayloadDecoder.\n")
        elif digest == "localscan":
            body += ("\n(* what `std::fs::metadata` reports of a file: its size and, when the file system has one, its modification time in\n   NANOSECONDS relative to the epoch (negative = before it) *)\n"
                     "Record fmeta := { size_of : Z; modified_of : option Z }.\n"
                     "Definition since_epoch (t : Z) : option Z := if 0 <=? t then Some t else None.   (* duration_since(UNIX_EPOCH).ok() *)\n"
                     "Definition as_secs (d : Z) : Z := d / 1000000000.                                  (* Duration::as_secs *)\n\n" + "\n".join(texts))
        elif digest == "fingerprintg":
            body += ("\nSection WithDigest.\nVariable D : Type.\nVariable Hh : list Z -> D.\n"
                     "(* symlink_metadata(full): None = error; Some b = b says whether the entry is a symbolic link *)\n"
                     "Definition is_symlink (b : bool) : bool := b.\n\n" + "\n".join(texts) + "End WithDigest.\n")
        elif digest == "pairkey":
            body = (HEADER % (group, "")).replace(" .\n", ".\n") + ("\nSection WithHash.\nVariable D : Type.\nVariable Hh : list Z -> D.            (* BLAKE3 *)\n"
                     "Variable hex_of : D -> list Z.           (* its 64 hexadecimal digits *)\n"
                     "Variable canon : list Z -> list Z.        (* std::fs::canonicalize(p), or p itself when that fails *)\n"
                     "(* PathBuf::join on Unix: an absolute argument replaces the base; otherwise a `/` goes between unless the base is empty or already ends in one *)\n"
                     "Definition pjoin (base x : list Z) : list Z :=\n"
                     "  match x with 47 :: _ => x | _ => match rev base with [] => x | 47 :: _ => base ++ x | _ => base ++ [47] ++ x end end.\n"
                     "(* str::trim on ASCII output: white space (blank, \\t \\n \\v \\f \\r) dropped at both ends; `String::from_utf8_lossy` is read as the identity (what `hostname` prints) *)\n"
                     "Definition is_ws (c : Z) : bool := (c =? 32) || ((9 <=? c) && (c <=? 13)).\n"
                     "Fixpoint trim_start (l : list Z) : list Z := match l with c :: r => if is_ws c then trim_start r else l | [] => [] end.\n"
                     "Definition trim_ws (l : list Z) : list Z := rev (trim_start (rev (trim_start l))).\n"
                     "Definition is_nil (l : list Z) : bool := match l with [] => true | _ => false end.\n\n" + "\n".join(texts) + "End WithHash.\n")
        elif digest == "hubconnect":
            body += ("\n(* the reply to the client's Hello, and what connect does in order *)\nInductive hreply := RHelloV (version : Z) | ROther.\n"
                     "Inductive hreq := SHello (version : Z).\n"
                     "Inductive heff := HSpawn (argv : list (list Z)) | HWriteMagic | HSend (r : hreq) | HRecv.\n\n" + "\n".join(texts))
        elif digest == "commitlock":
            body = (HEADER % (group, "")).replace(" .\n", ".\n") + ("\n(* what with_commit_lock does, in order *)\nInductive leffect := LOpenLockFile | LLockExclusive | LBody | LUnlock.\n"
                    "(* what transfer_file_from_remote does, in order *)\nInductive teffect := TSpawn | TCreateTruncate | TCopy | TFlush | TWait | TDone | TFail.\n\n" + "\n".join(texts))
        elif digest == "plainz":
            body += "\n" + "\n".join(texts)
        elif digest == "archivesys":
            body = (HEADER % (group, imports)) + "\nSection WithFs.\nVariable path_exists : apath -> bool.   (* path.exists() *)\n\n" + "\n".join(texts) + "End WithFs.\n"
        elif digest == "onewaysys":
            body = (HEADER % (group, imports)) + "\nSection WithPaths.\nContext {K : Type}.\nNotation opath := (@opath K).\nNotation osys := (@osys K).\n\n" + "\n".join(texts) + "End WithPaths.\n"
        elif digest == "bisyncsys":
            body = ("(** GENERATED by tools/gen_logic.py from /repo's CURRENT source - do not edit.\n    bidir.rs `copy_atomic` as the list of file-system calls it makes, in order; Proofs/TieBisyncSys.v maps them onto\n"
                    "    the steps of Model/BisyncSteps.v. *)\nFrom stdpp Require Import gmap.\nFrom Copia Require Import Model.Bisync Model.BisyncSys.\n\n"
                    "Section WithPaths.\nContext {K : Type}.\nVariable parent_of : @pexpr K -> option (@pexpr K).\nNotation pexpr := (@pexpr K).\nNotation sys := (@sys K).\n\n" + "\n".join(texts) + "End WithPaths.\n")
        elif digest == "bisync":
            body = ("(** GENERATED by tools/gen_logic.py from /repo's CURRENT source - do not edit.\n    bidir.rs `apply` as the LIST OF EFFECTS it performs, in order (copy_atomic, remove_file, the inserts/removes on the\n"
                    "    common state, the conflict counter); Proofs/TieBisyncApply.v proves that running these effects is Model/Bisync.v's [apply]. *)\n"
                    "From stdpp Require Import gmap.\nFrom Copia Require Import Model.Reconcile Model.Bisync Model.BisyncEffects.\n\n"
                    "Section WithBisync.\nContext `{Countable K} {D : Type} `{EqDecision D}.\nVariable dge : D -> D -> bool.\nVariable cname : K -> D -> K.\n"
                    "Notation eff := (@eff K D).\n\n" + "\n".join(texts) + "End WithBisync.\n")
        elif digest == "archive":
            body += ("\nSection WithParser.\nVariable E : Type.\nVariable parse : list Z -> option (Z * list Z * E).\n"
                     "Variable file : list Z -> option (list Z).   (* std::fs::read(path).ok() *)\n\n" + "\n".join(texts) + "End WithParser.\n")
        elif digest:
            body += ("\nSection WithDigest.\nVariable digest : Type.\nVariable deq : forall x y : digest, {x = y} + {x <> y}.\n"
                     "Definition digest_eqb (x y : digest) : bool := if deq x y then true else false.\n\n" + "\n".join(texts) + "End WithDigest.\n")
        else:
            body += "\n" + "\n".join(texts)
        old = open(path).read() if os.path.exists(path) else None
        if old != body:
            with open(path, "w") as f:
                f.write(body)
            changed += 1
    os.makedirs(os.path.dirname(STATUS), exist_ok=True)
    with open(STATUS, "w") as f:
        json.dump(status, f, indent=1)
    print("gen_logic: %d functions translated, %d group files rewritten" % (len(status["translated"]), changed))
    for f in status["failed"]:
        print("gen_logic: NOT TRANSLATED %s (group %s): %s" % (f["function"], f["group"], f["why"]))
    return 3 if status["failed"] else 0


if __name__ == "__main__":
    sys.exit(main())
