#!/usr/bin/env python3
"""Prints the DESIGN.md 11.5 table from seeded/*/meta.json."""
import json, os, glob
rows = []
for mf in sorted(glob.glob(os.path.join(os.path.dirname(os.path.abspath(__file__)), "..", "seeded", "*", "meta.json"))):
    m = json.load(open(mf))
    caught = m.get("caught_by", {})
    def kind(v):
        v = v.lower()
        if v.startswith("missed"):
            return "missed at first, concrete replay after strengthening"
        if "no-failing-input-found" in v and "concrete" not in v.split("no-failing-input-found")[0][-80:]:
            return "no-failing-input-found"
        if v.startswith("exit 0") or v.startswith("not affected"):
            return "exit 0"
        return "concrete replay"
    cells = "; ".join("%s: %s" % (k, kind(v)) for k, v in caught.items())
    rows.append("| seeded/%s | %s | %s | %s |" % (m["id"], ", ".join(m["breaks"]), m["change"].replace("|", "\\|")[:170], cells))
table = "| change | breaks | what it does | checks run against it -> outcome |\n|---|---|---|---|\n" + "\n".join(rows)
import sys
if "--update" in sys.argv:
    d = os.path.join(os.path.dirname(os.path.abspath(__file__)), "..", "DESIGN.md")
    s = open(d).read()
    a, b = s.index("<!-- seeded-table -->"), s.index("<!-- /seeded-table -->")
    open(d, "w").write(s[:a] + "<!-- seeded-table -->\n" + table + "\n" + s[b:])
else:
    print(table)
