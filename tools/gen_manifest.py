#!/usr/bin/env python3
"""Writes MANIFEST.json from the table below (so that it is always schema-valid)."""
import json, os
V = os.path.dirname(os.path.dirname(os.path.abspath(__file__)))
ALL = ["C%02d" % i for i in range(1, 21)]

CLAIMED = {
 "C17": dict(
  text="Coq theorems over all windows <= 65536 bytes and all Push/Roll histories (induction over the history): both checksum types equal the exact-sum definition, agree with each other and with a fresh construction, components < 65521, lengths exact, and no machine operation overflows. The model is tied to src/checksum.rs three ways: the arithmetic of new/roll/push/digest of both types is TRANSLATED from the current source on every run (tools/gen_checksum.py -> Gen/ChecksumGen.v) and proved equal to the model by reflexivity (C17_model_is_translation_of_source), the constants are regenerated, and a differential run (shipped and checked profile) of the public API against the extracted model and an exact i128 oracle.",
  note="Trusted: Coq kernel, gen_constants.py and gen_checksum.py (translators), ExtrOcamlBasic extraction + driver.ml, the Rust harness; modelled: Rust integer semantics of u32/u64 (wrapping in the shipped profile, trapping with overflow-checks) as written into the translator's output.",
  technique="Coq proof (invariant by induction over operation history) + checked model/implementation correspondence",
  ref="5.1"),
 "C16": dict(
  text="Coq theorems for all byte-valued basis/source and every block size 1..2^28: the literal byte count of the computed delta EQUALS that of the textbook greedy scan (so it is never larger), an identical source costs < one block, and the textbook scan resynchronises after any damaged region (|pre|+|tail| bound). The scan-side/signature-side weak checksum agreement is exactly C17's invariant. Tie: op-for-op comparison of implementation deltas (both engines, both profiles) with the extracted model plus an independent Rust greedy oracle.",
  note="Trusted as C17, plus: BLAKE3 modelled as a quantified function assumed collision-free between basis blocks and source windows; the k+2-blocks clause is covered through the resynchronisation lemma (partial: arithmetic instantiation not a separate theorem).",
  technique="Coq proof (loop invariant over the scan, induction on fuel) + checked correspondence",
  ref="5.2"),
 "C01": dict(
  text="Coq theorems for all basis/source, every positive block size < 2^32 and every hash function that does not collide between basis blocks and source windows: patch(basis, delta(signature(basis), source)) = Ok(source) in both profiles; declared sizes/checksum are the source's, op lengths sum to the source size, every copy lies in the basis; the executed (extracted) scan equals the proved one. Tie: Sync trait, AsyncCopiaSync with fragmented reads, `copia signature|delta|patch` files and `copia sync` on generated triples, signatures and deltas compared op-for-op with the model and with each other.",
  note="Trusted as C17, plus: BLAKE3 quantified (collision-freeness hypothesis), rayon/tokio library behaviour and the bincode file format are exercised by the tie, not proved (bincode model: C20).",
  technique="Coq proof (denotation invariant of the scan loop) + checked correspondence incl. real binary",
  ref="5.3"),
 "C05": dict(
  text="Coq theorems for ALL basis byte strings and ALL deltas (no well-formedness assumed): Ok(out) implies H(out) = delta.checksum; every copy of a successful patch read inside the actual basis; the shipped profile never panics and the checked profile panics exactly when op lengths do not sum to source_size; with a collision-free hash success means out = source. Tie: 16 corruption operators applied to valid pairs, through both engines/both profiles and `copia patch` under ulimit -v; outcome class and bytes compared with the model; independent BLAKE3 oracle.",
  note="Trusted as C17, plus: seek/read_exact semantics modelled by a partial read; buffer allocation for hostile copy lengths is not modelled (observed under ulimit -v in the CLI runs).",
  technique="Coq proof (case analysis on the patch outcome for arbitrary input) + checked correspondence",
  ref="5.4"),
 "C03": dict(
  text="Coq theorems over ANY number of server processes, ANY request programs and EVERY schedule of their file-system steps (kills included), by induction over the schedule: the live tree equals the one-at-a-time replay of the commit log through the CAS-map specification, every logged reply is the specification's reply, the log is ordered by strictly increasing time and every reply a client received belongs to a logged operation that took effect between invocation and response (real-time order theorem); specification lemmas for uncommitted/committed writes and 'nothing vanishes except by a logged operation on that path'. Tie: real `copia serve` processes under an LD_PRELOAD gate-mode scheduler replay generated and directed schedules; replies, final tree and the tree after every essential step are compared with the extracted model; a brute-force linearizability checker is the search oracle.",
  note="Trusted as C17, plus: the kernel semantics assumed by Model/Hub.v (atomic libc calls, atomic rename, flock mutual exclusion released on death), flat path names (no file/directory clash), the shim and controller; concurrent List is not modelled (List only in quiescent states).",
  technique="Coq proof (simulation invariant by induction over arbitrary schedules) + checked correspondence under a controlled scheduler",
  ref="5.16"),
 "C10": dict(
  text="Coq theorems over every schedule with kills: after EVERY event each live path holds an initial content or the complete body of ONE Put of the clients' programs whose bytes match its declared hash and length; every Put in the commit log was verified and the live tree is exactly the replay of that log (a bad Put never takes effect); a Get reply is one content. Tie: the C03 scheduler runs with kill points and wrong-hash/short-length Puts; after every event the real tree is checked by a BLAKE3 oracle and compared with the model; Gets are parked between their opens in the directed corpus.",
  note="Trusted as C03. Durability across power loss is not modelled (process kills are executed for real).",
  technique="Coq proof (invariant over all schedules and kill points) + checked correspondence under a controlled scheduler",
  ref="5.17"),
 "C11": dict(
  text="Coq theorems for EVERY byte string sent as a path: an absolute path or one with a '..' component is refused; every accepted path, its per-process staging name and its conflict-copy name resolve (kernel resolution on a symlink-free tree) inside the served directory; directories on the way are existing ancestors or inside; a refused well-framed request (its Put content drained) is skippable - the session with it equals its error reply followed by the session without it. Tie: generated hostile path strings through real sessions (Get/Put/Delete + probe), refusal verdict compared with the extracted model, every libc file-system call logged by the shim must lie under the served directory, sentinels outside unchanged, differential run without the refused requests.",
  note="Trusted as C17, plus: Path::components/join as modelled, symlink-free served tree (the property's stated domain), the logging shim.",
  technique="Coq proof (string-level confinement for all inputs) + checked correspondence with syscall logging",
  ref="5.18"),
 "C12": dict(
  text="Coq theorems for EVERY input byte string, decoder and handler: the read loop terminates (never spins after EOF) with exit 0 or an error; every control-frame buffer it reserves is <= MAX_FRAME = 1 MiB (oversize prefixes rejected before reserving); a bad or short prologue has no effect at all; the tree changes only through the handler of a well-framed decoded request (no reply => no change); a well-framed request with its announced content is consumed exactly, whatever its reply, so the stream stays in step. Tie: real `copia serve` fed generated/mutated byte strings under ulimit -v; exit class, reply stream and final tree compared with the extracted loop model instantiated with the real decoder's verdicts.",
  note="Trusted as C17, plus: the CBOR decoder is a section variable (validated by hostile-CBOR inputs under a memory limit, not proved); handlers per Model/HubSeq.v.",
  technique="Coq proof (total function on the whole input; compositional in-step lemma) + checked correspondence",
  ref="5.19"),
 "C13": dict(
  text="Coq theorems for every hub tree and local tree (distinct non-hidden paths): hub-sync alone exits 0, lands every local file at its path with identical bytes, leaves other hub paths untouched, sent+unchanged = number of files, and an immediate second run issues no Put; under a stale listing every request it issues is a hash- and length-verified CAS Put carrying the listed digest, so by C03 each either commits or leaves the live file untouched with its bytes at the conflict name. Tie: real `copia hub-sync` histories by 1-3 clients (local and host:root targets through an ssh stand-in), a quarter with the listing forced stale by gating the server; exit status, counters and hub tree compared with the extracted model plus independent oracles.",
  note="Trusted as C03, plus: ssh replaced by a stand-in, process/pipe plumbing not modelled; local tree must have no entry under `.copia/` and no file/directory clash with the hub (explicit hypotheses).",
  technique="Coq proof (induction over the local file list through the CAS specification) + checked correspondence incl. forced stale listings",
  ref="5.20"),
 "C20": dict(
  text="Coq theorems over ALL values and ALL byte strings: frame headers with magic COPA, version 1, length <= 16 MiB, any type and flags survive encode/decode and have the stated byte shape; every 12-byte input with a wrong magic, wrong version, type byte outside 1..7 or oversize length is an error (acceptance iff validity, by cases on the fields); bincode round trips decode(encode v ++ rest) = (v, rest) for signatures, deltas and all seven message kinds with lists of any length; read_message(write_message m ++ rest) = (m, rest), the written length field is the payload length, write refuses exactly the payloads above the bound; for every input the frame buffer reserved by read_message is <= MAX_PAYLOAD_SIZE, the decoders' fuel (input length) always suffices, a Vec decoder pre-reserves <= 1 MiB; the CLI readers end in an error exit or construct the engine with a block size that satisfies its assertion. Tie: regenerated constants (magic, version, MAX_PAYLOAD_SIZE, type codes, CLI and engine block-size bounds) and a differential run of FrameHeader/Message/Codec/bincode (both profiles) and of `copia delta|patch` against the extracted model on random values, all truncations and single-field corruptions, with implementation-side oracles (no panic, allocation watermark, round trip, no signal/timeout).",
  note="Trusted as C17, plus: bincode 1.3.3/serde 1.0.228 behaviour is the hand-written Model/Bincode.v, validated by the differential run, not derived from their source; UTF-8 validity is a quantified predicate (supplied per case by the harness when executing); allocation failure is not modelled; the delta/patch engine behind a Proceed outcome is C01/C05's subject.",
  technique="Coq proof (structural induction on values / case analysis on header fields; totality by construction with fuel-sufficiency lemmas) + checked correspondence incl. real binary",
  ref="5.5"),
}

CLAIMED["C19"] = dict(
  text="Coq theorems, closed under the global context: the iterative single-backtrack-point glob_match of plan.rs (branch order after the F3 repair) equals the wildcard definition gm for EVERY pattern and text (incl. texts containing * and ?) and never exhausts its fuel; the pre-repair order is refuted by (\"*\", \"*ab\"); is_excluded is characterised by gm (trailing slashes trimmed, empty patterns ignored, slash patterns on the whole path string, others on each Normal component); build_plan's transfer/skipped/delete are exactly the set definitions (membership iff, count, delete only with the flag), sorted and duplicate-free, excluded paths are never planned; parse_remote_meta_output applied to the modelled find -printf output returns the map of the (path, size, whole-second mtime) triples for all paths without NUL, sizes <= u64::MAX, 0 <= seconds <= i64::MAX and any fraction text (decimal printer/parser round trip proved). Tie: the real functions (source compiled in unchanged, both profiles) vs the extracted model line by line; matcher exhaustive over {a,b,*,?,.,/} (patterns <= 4 x texts <= 5 quick, <= 5 x <= 7 thorough) against an independent table-based definition; planner exhaustive over a 4-path universe x all metadata relations x 7 exclude lists x both delete settings.",
  note="Trusted: Coq kernel, gen_constants.py (metacharacters, separators and the find format string are regenerated from plan.rs/meta.rs), extraction + driver.ml (UTF-8 decoding of case strings), the Rust harness. Modelled, not verified: std::path components/ordering, BTreeMap, slice::sort, str::parse, from_utf8_lossy on valid UTF-8, GNU find -printf. The binary-level `sync -r --dry-run` cross-check of DESIGN 5.6 is left to C15/C04.",
  technique="Coq proof (loop invariant of the matcher by strong induction on a lexicographic measure; set characterisations by induction; decimal round trip) + checked correspondence incl. exhaustive sweeps",
  ref="5.6")
CLAIMED["C18"] = dict(
  text="Coq theorems, closed under the global context, for an ARBITRARY digest type with decidable equality: reconcile_path (nested match as written) equals the documented case table written separately on the equality pattern of (a, b, base); it is mirror-symmetric (swap), invariant under every injective renaming of fingerprints (depends only on equalities of (digest, type) pairs), never deletes without a base, and deletes only when the other side is absent and the survivor equals the base; reconcile over whole trees = the non-Noop per-path decisions over the strictly sorted, duplicate-free union of both key sets, with every base lookup None when the base is untrusted (hence no delete), for any key type with a lawful comparison (PathBuf's is proved lawful). Tie: real reconcile_path/reconcile (source compiled in unchanged, both profiles) on all 343 triples of the quotient, 10^4 random 32-byte digests, all 27^3 maps over a 3-path universe x both trust settings, random larger trees; canonical action strings compared with the extracted model; oracle = independent Rust transcription of the documented table + mirror/renaming/delete checks.",
  note="Trusted as C19. sort_unstable+dedup is modelled as stable sort+dedup (identical unless the two maps spell a path-equal key differently). The `bisync --dry-run` binary-level cross-check of DESIGN 5.8 is left to C02/C06.",
  technique="Coq proof (case analysis over decidable equalities; sorting/dedup lemmas) + checked correspondence incl. exhaustive quotient",
  ref="5.8")

CLAIMED["C04"] = dict(
  text="Coq theorems, closed under the global context, over ALL source/destination trees (sorted association lists path -> (bytes, whole-second mtime) under PathBuf order, as insertion builds them - proved), all flag sets, EVERY completion order (any permutation of the transfer list, which covers every --jobs n >= 1) and EVERY failure oracle: at every path the destination after a non-dry run holds nothing if the path is in plan.delete, else the source's entry (bytes and mtime) if it is in plan.transfer and its delivery did not fail, else exactly its previous entry (oneway_exact); in the property's terms, through C19's set characterisations restated on trees: every non-excluded source file that was absent or differed in size or whole-second mtime arrives with the source's bytes and mtime when nothing failed, files the quick check matched keep bytes and mtime, a path whose entry changed was deleted by the plan or delivered, without --delete non-source paths are untouched, with it exactly the non-excluded destination-only files go; the result (tree at every path, exit status, plan, kind, counters) is independent of the completion order; exit status non-zero iff some delivery failed, and whatever fails nothing outside transfer + delete is touched; the source is an input only. Push: bash's decoding of $'<escape s>' returns s for EVERY byte string and continuation (unquote_escape), `xargs -0` splits a NUL-terminated list of NUL-free paths into exactly those paths, the remote command publishes a staging file iff all announced bytes arrived. Membership in plan lists is up to PathBuf equality. Tie: the real `copia sync -r` binary (local, push and pull through an ssh stand-in, real bash/cat/mv/touch/find/xargs) on generated tree pairs with hostile names, all per-file destination states, flag sets over --delete/--exclude/--jobs/--verbose; dry run, real run and second run per case; kind, exit, plan lists, counters and final tree (bytes + whole-second mtimes) compared line by line with the extracted model; independent oracles on the implementation.",
  note="Trusted as C19, plus: the three transports are modelled by their common effect on the destination tree (validated in all three directions); bash ANSI-C unquoting, xargs -0, cat/mv/touch/find are small Gallina models (exercised for real through the stand-in, not verified); ssh replaced by a stand-in (no sshd); completion orders are quantified in the proof, not driven in the tie (the binary picks its own under --jobs 1/2/4/16); failing deliveries are covered by the theorems only; staging names are not tree entries (harness oracle: none remains; crash behaviour is C09); domain: regular files, no file/directory clash, no name ending in .copia-tmp, mtimes >= epoch.",
  technique="Coq proof (closed form of the two folds at every path, for arbitrary order and failure oracle; set characterisations from C19) + checked correspondence with the real binary in three directions",
  ref="5.9")
CLAIMED["C14"] = dict(
  text="Coq theorems, closed under the global context, for all sorted trees, flag sets, completion orders: after a non-dry run in which no delivery failed (proved equivalent to exit status 0) the plan of the same command on the result is EMPTY - no transfer (delivered entries carry the source's size and whole-second mtime, skipped ones were equal) and no delete (deleted files are gone, excluded destination-only files never were in the list) - so the second run, for any order argument and failure oracle, is UpToDate/NoFiles, sends nothing, exits 0 and returns the destination tree unchanged (second_run_empty_plan, second_run_identity); a path is sent iff it is a non-excluded source file absent from the destination or differing in size or whole-second mtime (sent_iff_changed). Tie: after every generated real run of `copia sync -r` that exits 0 (local/push/pull, hostile names, sizes from 0, source mtimes from 0 to 2^32+1 with sub-second parts) the same command is run again on the real binary and must plan nothing, exit 0 and leave both snapshots (bytes + mtimes) identical; first-run results compared with the extracted model.",
  note="Trusted as C04. The three mtime writers/readers (SystemTime, touch -d @secs, find %T@ truncated) are represented by the whole-second mtime of the model's trees; their round trip for the swept timestamps is what the binary-level second runs check (far-future end bounded by the sandbox file system).",
  technique="Coq proof (second plan computed from the closed form of the first run) + checked correspondence incl. real second runs",
  ref="5.10")
CLAIMED["C15"] = dict(
  text="Coq theorems, closed under the global context. Matcher/planner level in Props/C19.v (glob_match = the wildcard definition for every pattern and text, is_excluded characterised, excluded paths never planned, no delete list without the flag). Run level here, for all trees, flag sets, every completion order and failure oracle: the destination entry of an excluded path is unchanged by `sync -r` (with or without --delete/--dry-run), where excluded means every spelling of the path that is a key of one of the trees is excluded - for trees that spell common paths alike this is is_excluded p = true for a file of either tree; a counterexample shows the premise is needed in the model (pattern `a//b` vs source spelling `a/b`); without --delete every path present in the destination is present afterwards; --dry-run returns the destination tree itself and its plan is the plan component of the real run from the same trees (whose effect is C04's oneway_exact); `bisync --dry-run` returns both trees and the archive unchanged and its printed plan is the plan the real run applies from the same state. Tie: real `copia sync -r -n` then the real run on generated trees/patterns over an alphabet with * ? [ ] . / (three directions), snapshots before/after, printed send/delete lists compared with the extracted model and with the real run's effects; real `copia bisync --dry-run` before every run of generated bisync histories, plan compared with the model's, trees unchanged.",
  note="Trusted as C04 and C19; Model/Bisync.v as C02 (HOME redirected; archive and plan compared with the model after every operation; the tree-unchanged oracle of the bisync dry run is on both trees).",
  technique="Coq proof (corollaries of the closed form of a run; unfolding for the dry runs) + checked correspondence with the real binary (sync -r in three directions, bisync)",
  ref="5.7")

CLAIMED["C09"] = dict(
  text="Coq theorems for any deliveries with pairwise different paths, any initial destination and EVERY schedule of their atomic steps (open staging, write chunk*, rename, set mtime) cut at any point: every path holds its pre-run entry or the COMPLETE bytes of its delivery, paths of no delivery are unchanged, a staging file is always a prefix; the same after the remote command of a killed push has run to completion (it renames only a complete staging file); re-running from any such crashed destination gives the uninterrupted result at every path (with the path-spelling side condition the proof found for --delete). Tie: real `copia sync -r` in all three directions killed before EVERY k-th file-system or pipe write call (shim), destination bytes and staging files compared with the extracted step model on the observed step prefix, then re-run and compared with the uninterrupted result.",
  note="Trusted as C17, plus: atomic libc calls and rename, GNU cat/wc/mv/touch + bash behaviour of the remote command (modelled by remote_push/remote_finish), ssh stand-in; durability across power loss not modelled.",
  technique="Coq proof (invariant over arbitrary schedules and crash prefixes) + checked correspondence with executed kill points",
  ref="5.11")

CLAIMED["C08"] = dict(
  text="Coq theorems over every bisync state and EVERY crash point k: executing the generated file-system step list reproduces the run (conflict names differ from their paths); the step list is a sequence of copy blocks (stage, data, fsync, rename) and unlinks followed by the archive steps - every delivered file is fsynced before its rename and all data steps precede the archive rename; at every crash point the archive is the old one, absent, or the new one, the new one only after all data steps; every live path holds a complete pre-existing version (exactly the initial or the final content when conflict names are fresh); re-running after a crash: for runs without a both-changed conflict one re-run reaches exactly the uninterrupted state (recovery_converges_partial, no premise on names); for every state in HashOk/Fresh (the premises of C02/C06), both-changed conflicts included, no re-run stops on an I/O error and TWO re-runs reach exactly the uninterrupted state - both trees and the archive - the second with exit status 0 (recovery_converges_conflicts); after ONE re-run the state is already that one except, when the record holds a stale entry for a conflict name absent from both trees and the crash fell between the two deliveries of that conflict copy, for this one copy being on one side only and unrecorded (recovery_first_rerun; closed witness recovery_one_rerun_refuted; one re-run suffices without stale entries: recovery_one_rerun); no version present before the interrupted run is lost (recovery_no_loss). Tie: real `copia bisync` on the property's scenarios - ordered mutating libc calls of an uninterrupted run compared with the model's step list; for EVERY k the run is killed before its k-th mutating call, trees/staging/archive compared with the model's crash state, then bisync re-run (up to three times) and compared with the uninterrupted result.",
  note="Trusted as C17, plus: atomic libc calls and rename; durability is represented by the fsync-before-rename ordering obligation only; staging files are not part of the recovered state of the proofs: leftover-staging reruns are executed for every kill point by the tie, not proved (partial).",
  technique="Coq proof (structure of the step list, invariants over all crash prefixes) + checked correspondence with executed kill points",
  ref="5.15")
_BISYNC_NOTE = ("Trusted as C17, plus: the real `copia bisync` binary is driven with HOME redirected; trees are maps path -> bytes of regular files "
  "(no symlinks, modes, mtimes, file/directory clashes); copy_atomic = read the source now, replace the destination; BLAKE3 quantified "
  "(premise: no collision between the two files of one path, injective on the contents in play over a history); nothing is assumed about the path order. "
  "Every run-level theorem carries the explicit premise Fresh: for each both-changed path of the plan with loser l and conflict name q, each side holds at q nothing or "
  "exactly l, and if exactly one side holds it the record for q is not l's digest (inside: q absent; l on both sides = the repeated conflict; l on one side "
  "unrecorded = a crash leftover), and distinct both-changed paths have distinct conflict names (proved automatic for the real name format). Outside it nothing "
  "is claimed: it is the documented known class F5, shown real by closed witness theorems - an edited conflict copy is overwritten on both sides "
  "(C02_name_clash_loses_version); a recorded one-sided copy is deleted again and the trees diverge (C06_name_clash_one_sided_diverges).")
CLAIMED["C02"] = dict(
  text="Coq theorems, closed under the global context, over any path/digest types, any hash, digest comparison, conflict-name function and path order, trees of any size: one run - every version present on either side when the run starts is afterwards on BOTH sides (at its path, or at the conflict name the run generated for it) unless the record holds its digest for that path and the other side's entry differs (C02_run_no_loss, a corollary of the per-path characterisation of the whole run proved by a loop invariant over the plan); the record is truthful - after every completed run it is exactly the tree both sides hold, user writes/deletes leave it alone (C02_arch_truthful) - and along ANY finite history of writes, deletes, runs and archive faults from arbitrary initial trees (induction over the history) a trusted record is the tree both sides held at the end of the most recent run with only user operations since (C02_arch_is_previous_run), so at EVERY run of every history a version disappears only if both sides held it at that path at the end of the previous completed run and the other side has since changed or deleted it (C02_history_no_loss). Covers delete-on-both-sides-then-recreate (the repaired pruning of the record) and repeated conflicts with the same loser. Tie: real `copia bisync` on generated and directed histories; both trees, the archive, exit class and the dry-run plan compared with the extracted model after every operation; the no-loss oracle is evaluated on the implementation's own snapshots.",
  note=_BISYNC_NOTE,
  technique="Coq proof (invariant of the apply loop by induction over the plan; induction over arbitrary histories) + checked correspondence against the real binary",
  ref="5.12")
CLAIMED["C06"] = dict(
  text="Coq theorems, closed under the global context, quantified as C02: the run never ends in an I/O error (C06_run_no_io_error); central lemma C06_run_per_path - after the run EVERY path holds, on both sides and in the record, the loser if it is a conflict name generated by this run and otherwise the explicit per-path result (a function of the two contents and the recorded digest alone, C06_per_path_result_by_action); corollaries: both trees are equal (C06_run_converges), the record is exactly the tree with no extra and no missing entry (C06_run_records_tree), an immediate second run plans nothing, exits 0 and returns the same state (C06_run_idempotent), the exit status is non-zero exactly when the plan contains a both-changed conflict (C06_exit_status_spec), a divergent edit ends with the greater-digest version at the path and the other at the conflict name on both sides (C06_conflict_resolution), and naming the directories in the other order yields the exchanged trees, the same record and exit status (C06_swap_symmetric, premise: the digest comparison is that of a total order on different digests); the plan is a duplicate-free listing of the union of the keys for any order (C06_plan_keys_spec). Tie: the C02 runs; oracles: trees equal, archive JSON = tree entry for entry, an immediate second dry run prints 0 actions, every 4th history re-executed with the arguments swapped, mtimes randomised independently of contents.",
  note=_BISYNC_NOTE + " mtime independence holds by construction of the model (trees carry no mtimes; exercised by the tie only). pair_identity (archive file name) is not modelled.",
  technique="Coq proof (invariant of the apply loop by induction over the plan, per-path characterisation, corollaries) + checked correspondence against the real binary",
  ref="5.13")
CLAIMED["C07"] = dict(
  text="Coq theorems, closed under the global context: for EVERY parser, Archive::load yields entries exactly when the file could be read and parsed to a record with the current format version (regenerated constant) and the expected pair identity (C07_load_checks); with no trusted record the plan contains no delete for any two scans (C07_untrusted_plan_no_delete); a run without a trusted record keeps every version present before on BOTH sides (at its path or at the generated conflict name), every path of either side exists on both sides afterwards and the trees are equal (C07_untrusted_run_preserves_all); the same inside any history: after a fault at any point followed by any user writes/deletes the next run preserves everything, whatever was recorded or deleted before (C07_fault_then_history_no_loss); C02's history theorem quantifies over histories with faults. Tie: the C02 histories with archive faults of 8 kinds injected before runs of the real binary; oracles: SAFE no-base banner, no Delete* in the dry-run plan, no path removed, every version on both sides; states compared with the extracted model.",
  note=_BISYNC_NOTE + " Partial: serde_json is not modelled (quantified parser); that every damaged byte string is rejected rests on the executed fault kinds, not on a theorem, and the exhaustive every-truncation-point enumeration against Archive::load of DESIGN 5.14(a) is not built.",
  technique="Coq proof (case analysis of load for an arbitrary parser; specialisation of the bisync run invariant to an untrusted record; induction over histories) + checked correspondence against the real binary",
  ref="5.14")


# the translator tie of DESIGN 11.6 (tools/gen_logic.py): which generated functions each property's Props file restates
TIE = {
    "Reconcile": ("Fingerprint::same, reconcile_path and reconcile (reconcile.rs)", ["C02", "C06", "C07", "C08", "C18"]),
    "BisyncApply": ("bidir.rs `apply` as the list of effects it performs (copies, removes, record updates, in program order), run on the model's working state, and - through Proofs/TieBisync.v - the bisync model's own per-path decision `rpath`", ["C02", "C06", "C07", "C08"]),
    "BisyncSys": ("bidir.rs `copy_atomic` as the list of file-system calls it makes (mkdir, copy into the staging name, fsync of that staging file, rename onto the destination), read as the four steps of one copy in the crash model", ["C08"]),
    "OneWaySys": ("incremental.rs tmp_path / deliver_local / deliver_pull as the list of file-system calls one delivery makes (data into the staging name, rename onto the destination, mtime), read as the program-counter transitions of the one-way crash model", ["C09", "C04"]),
    "ArchiveSave": ("archive.rs `Archive::save` as the list of file-system calls it makes (create and fill `.tmp`, fsync it, `.bak` rotation iff an archive exists, rename into place, fsync of the directory), read as the archive steps of the crash model", ["C08"]),
    "WireMagic": ("wire.rs `read_magic` (exactly six bytes, all compared with MAGIC)", ["C12"]),
    "Targets": ("main.rs FileLocation::parse and hub.rs split_target (how `host:path` arguments are read)", ["C04", "C13"]),
    "Cas": ("cas_decide (wire.rs)", ["C03", "C10", "C13"]),
    "Archive": ("Archive::load's trust decision (archive.rs)", ["C07"]),
    "Plan": ("needs_transfer, glob_match, is_excluded and build_plan (plan.rs)", ["C04", "C14", "C15", "C19"]),
    "Protocol": ("MessageType::from_u8 and FrameHeader::validate (protocol.rs)", ["C20"]),
    "DeltaV": ("Delta::validate (delta.rs)", ["C05"]),
    "SafeJoin": ("safe_join (serve.rs)", ["C11", "C12"]),
}
for _g, (_what, _props) in TIE.items():
    for _p in _props:
        if _p in CLAIMED:
            CLAIMED[_p]["text"] += (" Translator tie: %s are re-translated from the current Rust source on every run (tools/gen_logic.py -> coq/Gen/%sGen.v) and proved equal to the model on all inputs (coq/Proofs/Tie%s.v or <Model>Proofs.v, restated in coq/Props/%s.v); a function the translator cannot read, or whose tie proof no longer goes through, fails this check closed." % (_what, _g, _g, _p))
            if "gen_logic.py" not in CLAIMED[_p]["note"]:
                CLAIMED[_p]["note"] += " Also trusted: tools/gen_logic.py + tools/rustmini.py (Rust-subset parser/translator and its tables naming model vocabulary for Rust paths, fields, library calls and error texts)."
            if "source-to-Gallina" not in CLAIMED[_p]["technique"]:
                CLAIMED[_p]["technique"] += " + source-to-Gallina translation of the decision functions with a proved tie"

NA_REASON = "check not built yet in this session; see DESIGN.md section 5 for the planned model and theorems"


def main():
    checks = []
    for pid in ALL:
        if pid not in CLAIMED:
            continue
        c = CLAIMED[pid]
        checks.append(dict(
            property_id=pid,
            quick_cmd="./check %s --tier quick" % pid,
            thorough_cmd="./check %s --tier thorough" % pid,
            evidence_file="evidence/%s.json" % pid,
            replay_cmd_template="./check %s --replay {path}" % pid,
            engine="coq-proof+correspondence",
            level_claimed=dict(category="proof", text=c["text"], design_ref=c["ref"]),
            level_note=c["note"],
            technique=c["technique"]))
    m = dict(
        version=1,
        setup_cmd="./setup.sh",
        hooks=dict(guard="copia_verif", enable='RUSTFLAGS="--cfg copia_verif"', baseline_off_cmd="tools/baseline.sh",
                   source_commits=[], add_only=True),
        engines=[dict(name="coq-proof+correspondence", path="check",
                      serves_properties=sorted(CLAIMED),
                      kind_free_text="Coq 8.16.1 theorems over hand-written Gallina models (coq/), constants and pure decision functions regenerated from the Rust source on every run and proved equal to the models (tools/gen_constants.py, gen_checksum.py, gen_logic.py), and a differential correspondence check between the extracted models (OCaml) and the implementation (Rust harness / real binary)")],
        checks=checks,
        notes="See DESIGN.md. Fix commits in /repo are recorded in KNOWN_FINDINGS.txt.",
        not_applicable=[dict(property_id=p, reason=NA_REASON) for p in ALL if p not in CLAIMED])
    with open(os.path.join(V, "MANIFEST.json"), "w") as f:
        json.dump(m, f, indent=1)
        f.write("\n")


if __name__ == "__main__":
    main()
