#!/usr/bin/env python3
"""Writes MANIFEST.json from the table below (so that it is always schema-valid)."""
import json, os
V = os.path.dirname(os.path.dirname(os.path.abspath(__file__)))
ALL = ["C%02d" % i for i in range(1, 21)]

CLAIMED = {
 "C17": dict(
  text="Coq theorems over all windows <= 65536 bytes and all Push/Roll histories (induction over the history): both checksum types equal the exact-sum definition, agree with each other and with a fresh construction, components < 65521, lengths exact, and no machine operation overflows. Model tied to src/checksum.rs by regenerated constants and a differential run (shipped and checked profile) of the public API against the extracted model and an exact i128 oracle.",
  note="Trusted: Coq kernel, gen_constants.py, ExtrOcamlBasic extraction + driver.ml, the Rust harness; modelled: Rust integer semantics of u32/u64.",
  technique="Coq proof (invariant by induction over operation history) + checked model/implementation correspondence",
  ref="5.1"),
}

NA_REASON = "check not built yet in this session; see DESIGN.md section 5 for the planned model and theorems"


def main():
    checks = []
    for pid in ALL:
        if pid not in CLAIMED:
            continue
        c = CLAIMED[pid]
        checks.append(dict(
            property_id=pid,
            quick_cmd="./check %s --tier quick" % pid,
            thorough_cmd="./check %s --tier thorough" % pid,
            evidence_file="evidence/%s.json" % pid,
            replay_cmd_template="./check %s --replay {path}" % pid,
            engine="coq-proof+correspondence",
            level_claimed=dict(category="proof", text=c["text"], design_ref=c["ref"]),
            level_note=c["note"],
            technique=c["technique"]))
    m = dict(
        version=1,
        setup_cmd="./setup.sh",
        hooks=dict(guard="copia_verif", enable='RUSTFLAGS="--cfg copia_verif"', baseline_off_cmd="tools/baseline.sh",
                   source_commits=[], add_only=True),
        engines=[dict(name="coq-proof+correspondence", path="check",
                      serves_properties=sorted(CLAIMED),
                      kind_free_text="Coq 8.16.1 theorems over hand-written Gallina models (coq/), regenerated constants, and a differential correspondence check between the extracted models (OCaml) and the implementation (Rust harness / real binary)")],
        checks=checks,
        notes="See DESIGN.md. Fix commits in /repo are recorded in KNOWN_FINDINGS.txt.",
        not_applicable=[dict(property_id=p, reason=NA_REASON) for p in ALL if p not in CLAIMED])
    with open(os.path.join(V, "MANIFEST.json"), "w") as f:
        json.dump(m, f, indent=1)
        f.write("\n")


if __name__ == "__main__":
    main()
