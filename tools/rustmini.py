"""A tokenizer and recursive-descent parser for the small Rust subset that tools/gen_logic.py translates.

Anything outside the subset raises Unsupported: the translator refuses to guess (it fails closed for the function
concerned).  The AST is made of plain tuples, first element = node kind.

expressions
  ('num', int) ('char', int) ('bool', b) ('str', text) ('path', [seg..]) ('call', f, [args]) ('mcall', recv, name, [args])
  ('field', e, name) ('index', e, i) ('tuple', [e..]) ('array', [e..]) ('unary', op, e) ('bin', op, l, r)
  ('if', cond, block, else_expr|None) ('iflet', pat, e, block, else_expr|None) ('match', scrut, [(pat, guard|None, expr)..])
  ('closure', [names], body) ('block', [stmts], tail|None) ('return', e|None) ('macro', name, [arg exprs], raw_tokens)
  ('struct', [seg..], [(field, e)..]) ('cast', e, type_text) ('try', e) ('continue',) ('break',)
patterns
  ('pwild',) ('pbind', name) ('plit', expr) ('ppath', [seg..], [pat..]|None) ('ptuple', [pat..]) ('por', [pat..])
  ('pstruct', [seg..], [(field, pat)..]) ('pref', pat)
statements
  ('let', pat, type_text|None, expr|None, else_block|None) ('expr', e, has_semicolon) ('assign', lhs, op, e)
  ('while', cond, block) ('for', pat, iter, block)
"""
import re


class Unsupported(Exception):
    pass


TOKEN = re.compile(r"""
    (?P<ws>\s+|//[^\n]*|/\*.*?\*/)
  | (?P<char>'(?:\\x[0-9a-fA-F]{2}|\\u\{[0-9a-fA-F]+\}|\\.|[^'\\])')
  | (?P<bchar>b'(?:\\x[0-9a-fA-F]{2}|\\.|[^'\\])')
  | (?P<life>'[A-Za-z_]\w*)
  | (?P<str>b?"(?:\\.|[^"\\])*")
  | (?P<num>0x[0-9a-fA-F_]+(?:[iu](?:8|16|32|64|128|size))?|\d[\d_]*(?:[iu](?:8|16|32|64|128|size))?)
  | (?P<id>[A-Za-z_]\w*)
  | (?P<op>::|->|=>|==|!=|<=|>=|&&|\|\||\+=|-=|\*=|/=|%=|<<|>>|\.\.=|\.\.|[(){}\[\],;:.|&!*+\-/%<>=?#@^])
""", re.X | re.S)

ESC = {"n": 10, "t": 9, "r": 13, "0": 0, "\\": 92, "'": 39, '"': 34}


def char_value(tok):
    body = tok[tok.index("'") + 1:-1]
    if body.startswith("\\x"):
        return int(body[2:], 16)
    if body.startswith("\\u{"):
        return int(body[3:-1], 16)
    if body.startswith("\\"):
        if body[1] not in ESC:
            raise Unsupported("escape " + body)
        return ESC[body[1]]
    return ord(body)


def tokenize(src):
    out, i = [], 0
    while i < len(src):
        m = TOKEN.match(src, i)
        if not m:
            raise Unsupported("cannot tokenize at: " + src[i:i + 30])
        i = m.end()
        k = m.lastgroup
        if k == "ws":
            continue
        out.append((k, m.group(k)))
    return out


BINPREC = [("||",), ("&&",), ("==", "!=", "<", "<=", ">", ">="), ("|",), ("^",), ("&",), ("<<", ">>"), ("+", "-"), ("*", "/", "%")]


class Parser:
    def __init__(self, toks):
        self.t = toks
        self.i = 0

    # ---------------------------------------------------------- helpers
    def peek(self, k=0):
        return self.t[self.i + k] if self.i + k < len(self.t) else ("eof", "")

    def at(self, text, k=0):
        return self.peek(k)[1] == text and self.peek(k)[0] in ("op", "id")

    def eat(self, text):
        if not self.at(text):
            raise Unsupported("expected %r, found %r (token %d)" % (text, self.peek()[1], self.i))
        self.i += 1

    def accept(self, text):
        if self.at(text):
            self.i += 1
            return True
        return False

    def ident(self):
        k, v = self.peek()
        if k != "id":
            raise Unsupported("expected identifier, found %r" % v)
        self.i += 1
        return v

    # ---------------------------------------------------------- types (kept as text)
    def type_text(self):
        """consume a type, return its text without spaces"""
        start = self.i
        depth = 0
        while True:
            k, v = self.peek()
            if k == "eof":
                break
            if v in ("<", "(", "["):
                depth += 1
            elif v in (">", ")", "]"):
                if depth == 0:
                    break
                depth -= 1
            elif v == ">>":
                if depth < 2:
                    break
                depth -= 2
            elif depth == 0 and v in (",", ";", "=", "{", "|", "=>"):
                break
            self.i += 1
        return "".join(v for _, v in self.t[start:self.i])

    # ---------------------------------------------------------- patterns
    def pattern(self):
        alts = [self.pattern1()]
        while self.at("|"):
            self.i += 1
            alts.append(self.pattern1())
        return alts[0] if len(alts) == 1 else ("por", alts)

    def pattern1(self):
        k, v = self.peek()
        if v == "&":
            self.i += 1
            self.accept("mut")
            return ("pref", self.pattern1())
        if v == "(":
            self.i += 1
            ps = []
            while not self.at(")"):
                ps.append(self.pattern())
                if not self.accept(","):
                    break
            self.eat(")")
            return ("ptuple", ps) if len(ps) != 1 else ps[0]
        if k in ("num", "char", "bchar") or v in ("true", "false") or v == "-":
            return ("plit", self.primary())
        if v == "_":
            self.i += 1
            return ("pwild",)
        if k == "id":
            if v in ("mut", "ref"):
                self.i += 1
                return self.pattern1()
            segs = [self.ident()]
            while self.at("::"):
                self.i += 1
                segs.append(self.ident())
            if self.at("("):
                self.i += 1
                ps = []
                while not self.at(")"):
                    ps.append(self.pattern())
                    if not self.accept(","):
                        break
                self.eat(")")
                return ("ppath", segs, ps)
            if self.at("{"):
                self.i += 1
                fs = []
                while not self.at("}"):
                    if self.accept(".."):
                        break
                    f = self.ident()
                    if self.accept(":"):
                        fs.append((f, self.pattern()))
                    else:
                        fs.append((f, ("pbind", f)))
                    if not self.accept(","):
                        break
                self.eat("}")
                return ("pstruct", segs, fs)
            if len(segs) == 1 and segs[0][0].islower():
                return ("pbind", segs[0])
            return ("ppath", segs, None)
        raise Unsupported("pattern at %r" % v)

    # ---------------------------------------------------------- expressions
    def expr(self, nostruct=False):
        e = self.binary(0, nostruct)
        if self.at("..="):                  # inclusive range `a..=b` (the exclusive `..` stays with the slice syntax)
            self.i += 1
            return ("range", e, self.binary(0, nostruct), True)
        return e

    def binary(self, lvl, nostruct):
        if lvl == len(BINPREC):
            return self.unary(nostruct)
        left = self.binary(lvl + 1, nostruct)
        while self.peek()[0] == "op" and self.peek()[1] in BINPREC[lvl]:
            op = self.peek()[1]
            # `|` directly followed by something that cannot start an operand never occurs in the subset
            self.i += 1
            right = self.binary(lvl + 1, nostruct)
            left = ("bin", op, left, right)
        return left

    def unary(self, nostruct):
        k, v = self.peek()
        if v in ("!", "-", "*"):
            self.i += 1
            return ("unary", v, self.unary(nostruct))
        if v == "&":
            self.i += 1
            self.accept("mut")
            return self.unary(nostruct)          # references are transparent in the subset
        e = self.postfix(self.primary(nostruct), nostruct)
        while self.at("as"):
            self.i += 1
            e = ("cast", e, self.type_text())
        return e

    def args(self):
        self.eat("(")
        out = []
        while not self.at(")"):
            out.append(self.expr())
            if not self.accept(","):
                break
        self.eat(")")
        return out

    def postfix(self, e, nostruct):
        while True:
            if self.at("."):
                k, v = self.peek(1)
                if k == "num":
                    self.i += 2
                    e = ("field", e, v)
                    continue
                self.i += 1
                name = self.ident()
                if self.at("::"):            # turbofish
                    self.i += 1
                    self.eat("<")
                    tt = self.type_text()
                    self.eat(">")
                    if name == "parse":     # `s.parse::<T>()`: which parser runs is in the type argument
                        name = "parse::<%s>" % "".join(str(tt).split())
                if self.at("("):
                    e = ("mcall", e, name, self.args())
                else:
                    e = ("field", e, name)
            elif self.at("(") and e[0] not in ("block", "if", "iflet", "match"):
                e = ("call", e, self.args())
            elif self.at("[") and e[0] not in ("block", "if", "iflet", "match"):
                self.i += 1
                lo = None if self.at("..") else self.expr()
                if self.accept(".."):
                    hi = None if self.at("]") else self.expr()
                    self.eat("]")
                    e = ("slice", e, lo, hi)
                else:
                    self.eat("]")
                    e = ("index", e, lo)
            elif self.at("?"):
                self.i += 1
                e = ("try", e)
            else:
                return e

    def block(self):
        self.eat("{")
        stmts, tail = [], None
        while not self.at("}"):
            if self.accept(";"):
                continue
            s = self.statement()
            if s[0] == "expr" and not s[2] and self.at("}"):
                tail = s[1]
            else:
                stmts.append(s)
        self.eat("}")
        return ("block", stmts, tail)

    def if_expr(self):
        self.eat("if")
        if self.accept("let"):
            pat = self.pattern()
            self.eat("=")
            e = self.expr(nostruct=True)
            then = self.block()
            els = None
            if self.accept("else"):
                els = self.if_expr() if self.at("if") else self.block()
            return ("iflet", pat, e, then, els)
        c = self.expr(nostruct=True)
        then = self.block()
        els = None
        if self.accept("else"):
            els = self.if_expr() if self.at("if") else self.block()
        return ("if", c, then, els)

    def primary(self, nostruct=False):
        k, v = self.peek()
        if k == "num":
            self.i += 1
            txt = re.sub(r"[iu](8|16|32|64|128|size)$", "", v.replace("_", ""))
            return ("num", int(txt, 16) if txt.startswith("0x") else int(txt))
        if k in ("char", "bchar"):
            self.i += 1
            return ("char", char_value(v))
        if k == "str":
            self.i += 1
            return ("str", v[v.index('"') + 1:-1])
        if v == "(":
            self.i += 1
            es = []
            trailing = False
            while not self.at(")"):
                es.append(self.expr())
                trailing = self.accept(",")
                if not trailing:
                    break
            self.eat(")")
            if len(es) == 1 and not trailing:
                return es[0]
            return ("tuple", es)
        if v == "[":
            self.i += 1
            es = []
            while not self.at("]"):
                es.append(self.expr())
                if self.accept(";"):
                    n = self.expr()
                    self.eat("]")
                    return ("repeat", es[0], n)
                if not self.accept(","):
                    break
            self.eat("]")
            return ("array", es)
        if v == "{":
            return self.block()
        if v == "async" and k == "id" and (self.peek(1)[1] in ("move", "{")):
            self.i += 1
            self.accept("move")
            return ("async", self.block())
        if v == "if":
            return self.if_expr()
        if v == "match":
            self.i += 1
            scrut = self.expr(nostruct=True)
            self.eat("{")
            arms = []
            while not self.at("}"):
                pat = self.pattern()
                guard = None
                if self.accept("if"):
                    guard = self.expr(nostruct=True)
                self.eat("=>")
                body = self.expr()
                arms.append((pat, guard, body))
                if not self.accept(","):
                    if body[0] not in ("block", "if", "iflet", "match"):
                        break
            self.eat("}")
            return ("match", scrut, arms)
        if v == "|" or v == "||":
            names = []
            if v == "||":
                self.i += 1
            else:
                self.i += 1
                while not self.at("|"):
                    p = self.pattern1()
                    if self.accept(":"):
                        self.type_text()
                    names.append(p)
                    if not self.accept(","):
                        break
                self.eat("|")
            return ("closure", names, self.expr())
        if v == "return":
            self.i += 1
            if self.at(";") or self.at("}") or self.at(","):
                return ("return", None)
            return ("return", self.expr())
        if v == "continue":
            self.i += 1
            return ("continue",)
        if v == "break":
            self.i += 1
            return ("break",)
        if v in ("true", "false"):
            self.i += 1
            return ("bool", v == "true")
        if k == "id":
            segs = [self.ident()]
            while self.at("::"):
                self.i += 1
                if self.at("<"):
                    self.i += 1
                    self.type_text()
                    while self.accept(","):
                        self.type_text()
                    self.eat(">")
                    continue
                segs.append(self.ident())
            if self.at("!") and not self.at("=", 1):
                # macro call: name!( ... )  /  name![ ... ]
                self.i += 1
                open_ = self.peek()[1]
                close = {"(": ")", "[": "]", "{": "}"}[open_]
                start = self.i + 1
                depth = 0
                while True:
                    kk, vv = self.peek()
                    if kk == "eof":
                        raise Unsupported("unterminated macro")
                    if vv in ("(", "[", "{"):
                        depth += 1
                    elif vv in (")", "]", "}"):
                        depth -= 1
                        if depth == 0:
                            break
                    self.i += 1
                raw = self.t[start:self.i]
                self.i += 1
                return ("macro", segs[-1], raw)
            if self.at("{") and not nostruct and segs[-1][0].isupper():
                self.i += 1
                fs = []
                while not self.at("}"):
                    f = self.ident()
                    if self.accept(":"):
                        fs.append((f, self.expr()))
                    else:
                        fs.append((f, ("path", [f])))
                    if not self.accept(","):
                        break
                self.eat("}")
                return ("struct", segs, fs)
            return ("path", segs)
        raise Unsupported("expression at %r (token %d)" % (v, self.i))

    # ---------------------------------------------------------- statements
    def statement(self):
        k, v = self.peek()
        if v == "#":                       # attribute
            self.i += 1
            self.eat("[")
            depth = 1
            start = self.i
            while depth:
                vv = self.peek()[1]
                depth += vv == "["
                depth -= vv == "]"
                self.i += 1
            attr = "".join(t[1] for t in self.t[start:self.i - 1])
            st = self.statement()
            if attr.startswith("cfg(") and not attr.startswith("cfg(not(test"):
                # a statement compiled only under a configuration: the translator must decide what that means
                return ("cfg", attr, st)
            return st
        if k == "id" and v in ("use", "static") and self.peek(1)[0] == "id":
            # an item inside a block (`use a::{b, c};`, `static X: T = e;`): no behaviour of its own
            depth = 0
            while True:
                kk, vv = self.peek()
                if kk == "eof":
                    raise Unsupported("unterminated item")
                depth += vv in ("(", "[", "{")
                depth -= vv in (")", "]", "}")
                self.i += 1
                if vv == ";" and depth == 0:
                    break
            return ("item", v)
        if v == "let":
            self.i += 1
            pat = self.pattern()
            ty = None
            if self.accept(":"):
                ty = self.type_text()
            e = None
            els = None
            if self.accept("="):
                e = self.expr()
                if self.accept("else"):
                    els = self.block()
            self.eat(";")
            return ("let", pat, ty, e, els)
        if v == "while":
            self.i += 1
            if self.accept("let"):
                pat = self.pattern()
                self.eat("=")
                e = self.expr(nostruct=True)
                return ("whilelet", pat, e, self.block())
            c = self.expr(nostruct=True)
            return ("while", c, self.block())
        if v == "for":
            self.i += 1
            pat = self.pattern()
            self.eat("in")
            it = self.expr(nostruct=True)
            return ("for", pat, it, self.block())
        e = self.expr()
        for op in ("=", "+=", "-=", "*=", "/=", "%="):
            if self.at(op):
                self.i += 1
                rhs = self.expr()
                self.eat(";")
                return ("assign", e, op, rhs)
        semi = self.accept(";")
        return ("expr", e, semi)


# ---------------------------------------------------------------- source access
def strip_comments(src):
    out, i = [], 0
    while i < len(src):
        if src.startswith("//", i):
            j = src.find("\n", i)
            i = len(src) if j < 0 else j
        elif src.startswith("/*", i):
            j = src.find("*/", i)
            i = len(src) if j < 0 else j + 2
        elif src[i] == '"':
            j = i + 1
            while j < len(src) and src[j] != '"':
                j += 2 if src[j] == "\\" else 1
            out.append(src[i:j + 1])
            i = j + 1
        elif src[i] == "'" and re.match(r"'(\\.[^']*|[^'\\])'", src[i:]):
            m = re.match(r"'(\\.[^']*|[^'\\])'", src[i:])
            out.append(m.group(0))
            i += m.end()
        else:
            out.append(src[i])
            i += 1
    return "".join(out)


def balanced(src, start):
    depth = 0
    i = start
    while i < len(src):
        c = src[i]
        if c == '"':
            i += 1
            while i < len(src) and src[i] != '"':
                i += 2 if src[i] == "\\" else 1
        elif c == "'" and re.match(r"'(\\.[^']*|[^'\\])'", src[i:]):
            i += re.match(r"'(\\.[^']*|[^'\\])'", src[i:]).end() - 1
        elif c == "{":
            depth += 1
        elif c == "}":
            depth -= 1
            if depth == 0:
                return i + 1
        i += 1
    raise Unsupported("unbalanced braces")


def find_fn(src, name, within=None):
    """(params [(name, type)], return type text, parsed body block) of `fn name` (inside `impl within` if given).
    The region of a `#[cfg(test)]` / `#[cfg(kani)]` module is not searched."""
    src = strip_comments(src)
    cut = re.search(r"#\[cfg\((?:test|kani)\)\]\s*(?:#\[[^\]]*\]\s*)*mod\b", src)
    if cut:
        src = src[:cut.start()]
    if within:
        m = re.search(r"\bimpl\s+%s\s*\{" % re.escape(within), src)
        if not m:
            raise Unsupported("impl %s not found" % within)
        src = src[m.end() - 1:balanced(src, m.end() - 1)]
    ms = []
    for m0 in re.finditer(r"\bfn\s+%s\s*(?=[<(])" % re.escape(name), src):
        j0 = m0.end()
        if src[j0] == "<":                   # generic parameters, possibly nested (`T: for<'de> Deserialize<'de>`)
            d0 = 0
            while True:
                d0 += src[j0] == "<"
                d0 -= src[j0] == ">" and src[j0 - 1] != "-"
                j0 += 1
                if d0 == 0:
                    break
        m1 = re.compile(r"\s*\(").match(src, j0)
        if m1:
            ms.append(m1)
    if len(ms) != 1:
        raise Unsupported("fn %s: %d definitions found" % (name, len(ms)))
    m = ms[0]
    # parameter list
    depth, i = 0, m.end() - 1
    while True:
        depth += src[i] == "("
        depth -= src[i] == ")"
        i += 1
        if depth == 0:
            break
    ptext = src[m.end():i - 1]
    j = src.index("{", i)
    ret = src[i:j].strip()
    ret = re.sub(r"^->\s*", "", ret).strip()
    body_src = src[j:balanced(src, j)]
    params = []
    depth, cur = 0, ""
    for ch in ptext + ",":
        if ch in "<([":
            depth += 1
        elif ch in ">)]":
            depth -= 1
        if ch == "," and depth == 0:
            cur = cur.strip()
            if cur:
                if ":" in cur:
                    n, t = cur.split(":", 1)
                    params.append((n.strip().replace("mut ", ""), re.sub(r"\s+", "", t)))
                else:
                    params.append((re.sub(r"[&\s]|mut", "", cur), "Self"))
            cur = ""
        else:
            cur += ch
    p = Parser(tokenize(body_src))
    body = p.block()
    if p.peek()[0] != "eof":
        raise Unsupported("trailing tokens after fn %s" % name)
    return params, re.sub(r"\s+", "", ret), body


def struct_fields(src, name):
    src = strip_comments(src)
    m = re.search(r"\bstruct\s+%s\s*\{" % re.escape(name), src)
    if not m:
        raise Unsupported("struct %s not found" % name)
    body = src[m.end():balanced(src, m.end() - 1) - 1]
    body = re.sub(r"#\[[^\]]*\]", "", body)
    out = []
    for f, t in re.findall(r"(?:pub(?:\([^)]*\))?\s+)?(\w+)\s*:\s*([^,\n]+?)\s*,", body + ","):
        out.append((f, re.sub(r"\s+", "", t)))
    return out


def enum_variants(src, name):
    src = strip_comments(src)
    m = re.search(r"\benum\s+%s\s*\{" % re.escape(name), src)
    if not m:
        raise Unsupported("enum %s not found" % name)
    body = src[m.end():balanced(src, m.end() - 1) - 1]
    body = re.sub(r"#\[[^\]]*\]", "", body)
    out = []
    for part in body.split(","):
        part = part.strip()
        if not part:
            continue
        mm = re.match(r"(\w+)\s*(\(([^)]*)\))?\s*(=\s*(\S+))?$", part)
        if not mm:
            raise Unsupported("enum %s variant %r" % (name, part))
        out.append((mm.group(1), mm.group(3), mm.group(5)))
    return out
