#!/bin/bash
# usage: tools/try_tie.sh <checkout>   - translate the decision functions of another checkout into a scratch copy of coq/
# and re-check the tie proofs there (quick look at what the translator tie says about a change; /verif/coq is not touched)
set -u
cd "$(dirname "$0")/.."
S=$(mktemp -d /var/tmp/vp-tie.XXXXXX)
cp -r coq "$S/coq"
VERIF_REPO="$1" VERIF_LOGIC_OUT="$S/coq/Gen/LogicGen.v" python3 tools/gen_logic.py
for g in Reconcile Bisync BisyncApply BisyncSys ArchiveSave OneWaySys WireMagic HubDelete Cas Archive Plan Protocol SafeJoin DeltaV; do
  if (cd "$S/coq" && timeout 600 make Proofs/Tie$g.vo >"$S/$g.log" 2>&1); then echo "tie $g: checks"; else echo "tie $g: BROKEN: $(grep -A3 '^Error' "$S/$g.log" | tr '\n' ' ' | cut -c1-300)"; fi
done
rm -rf "$S"
