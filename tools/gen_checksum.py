#!/usr/bin/env python3
"""Translator: src/checksum.rs -> coq/Gen/ChecksumGen.v   (fails closed).

The arithmetic of `RollingChecksum` and `FastRollingChecksum` (new / roll / push / digest) is translated,
statement by statement, from /repo's CURRENT source into Gallina, in both machine semantics of the hand-written
model Model/Checksum.v:
  - shipped profile: every +, -, * and << at an integer type of width N is wrapped (w32 / w64);
    `wrapping_add` likewise; `%` is `mod`; `|` is `Z.lor`; widening casts are the identity, narrowing casts wrap;
  - checked profile (overflow-checks): +, -, * yield None when the exact result leaves the type (`ck N`);
    `wrapping_add`, `<<`, `%`, `|` and casts never trap.
`usize` arithmetic (the window length counter) is exact: a window never has 2^64 elements.
`debug_assert!` lines are skipped (they assert `x % MOD < MOD`).

Proofs/ChecksumTie.v proves, by `reflexivity`, that every generated function IS the corresponding function of
Model/Checksum.v; the C17/C16/C01 theorems are about those.  A change of the source arithmetic therefore changes
the generated terms and the tie no longer type-checks.

Supported Rust subset: `let x = e;`, `self.f = e;`, `self.f op= e;`, a trailing `if c { .. }` without else,
a tail expression, struct literals `Self { f: e, .. }`, the accumulation loop
`for (i, &byte) in data.iter().enumerate() { .. }` with `len = data.len()`.
Anything else raises Unsupported: the translator refuses to guess.
"""
import os, re, sys

HERE = os.path.dirname(os.path.abspath(__file__))
REPO = os.environ.get("VERIF_REPO", "/repo")
OUT = os.environ.get("VERIF_GEN_OUT", os.path.join(HERE, "..", "coq", "Gen", "ChecksumGen.v"))


class Unsupported(Exception):
    pass


# ---------------------------------------------------------------- source access
def strip_comments(src):
    src = re.sub(r"//[^\n]*", "", src)
    src = re.sub(r"/\*.*?\*/", "", src, flags=re.S)
    return src


def balanced(src, start):
    """index just after the brace block that starts at src[start] == '{'"""
    depth = 0
    for i in range(start, len(src)):
        if src[i] == "{":
            depth += 1
        elif src[i] == "}":
            depth -= 1
            if depth == 0:
                return i + 1
    raise Unsupported("unbalanced braces")


def impl_block(src, name):
    m = re.search(r"\nimpl\s+%s\s*\{" % name, src)
    if not m:
        raise Unsupported("impl %s" % name)
    return src[m.end() - 1:balanced(src, m.end() - 1)]


def struct_fields(src, name):
    m = re.search(r"pub struct\s+%s\s*\{(.*?)\}" % name, src, flags=re.S)
    if not m:
        raise Unsupported("struct %s" % name)
    return dict(re.findall(r"(\w+)\s*:\s*(\w+)\s*,", m.group(1)))


def fn_body(impl, name):
    m = re.search(r"\bfn\s+%s\s*\(([^)]*)\)\s*(?:->\s*[\w:<>]+\s*)?\{" % name, impl)
    if not m:
        raise Unsupported("fn %s" % name)
    body = impl[m.end() - 1:balanced(impl, m.end() - 1)]
    params = {}
    for p in m.group(1).split(","):
        p = p.strip()
        if ":" in p and not p.startswith("&"):
            k, t = p.split(":")
            params[k.strip()] = t.strip()
    return params, body[1:-1]


# ---------------------------------------------------------------- tokens / expressions
TOK = re.compile(r"\s*(?:(\d[\d_]*)|([A-Za-z_]\w*(?:::[A-Za-z_]\w*)*)|(<<|>=|<=|==|\+=|-=|\*=|%=|[-+*%|(){};:,.=&<>!]))")


def tokenize(s):
    out, i = [], 0
    s = s.strip()
    while i < len(s):
        m = TOK.match(s, i)
        if not m:
            raise Unsupported("cannot tokenise: %r" % s[i:i + 30])
        if m.group(1):
            out.append(("num", int(m.group(1).replace("_", ""))))
        elif m.group(2):
            out.append(("id", m.group(2)))
        else:
            out.append(("op", m.group(3)))
        i = m.end()
    return out


WIDTH = {"u8": 8, "u32": 32, "u64": 64, "usize": 0}  # 0 = exact (usize: see the module comment)
PREC = {"|": 1, "<<": 2, "+": 3, "-": 3, "*": 4, "%": 4}


class P:
    def __init__(self, toks):
        self.t, self.i = toks, 0

    def peek(self):
        return self.t[self.i] if self.i < len(self.t) else ("eof", None)

    def eat(self, kind=None, val=None):
        k, v = self.peek()
        if (kind and k != kind) or (val is not None and v != val):
            raise Unsupported("expected %s %s, found %s %s" % (kind, val, k, v))
        self.i += 1
        return v

    def expr(self, minp=1):
        left = self.unary()
        while True:
            k, v = self.peek()
            if k == "op" and v in PREC and PREC[v] >= minp:
                self.eat()
                right = self.expr(PREC[v] + 1)
                left = ("bin", v, left, right)
            else:
                return left

    def unary(self):
        e = self.atom()
        while True:
            k, v = self.peek()
            if k == "id" and v == "as":
                self.eat()
                e = ("cast", self.eat("id"), e)
            elif k == "op" and v == ".":
                self.eat()
                name = self.eat("id")
                if self.peek() == ("op", "("):
                    self.eat()
                    args = []
                    if self.peek() != ("op", ")"):
                        args.append(self.expr())
                    self.eat("op", ")")
                    e = ("method", name, e, args)
                else:
                    e = ("field", e, name)
            else:
                return e

    def atom(self):
        k, v = self.peek()
        if k == "num":
            self.eat()
            return ("num", v)
        if k == "op" and v == "(":
            self.eat()
            e = self.expr()
            self.eat("op", ")")
            return e
        if k == "id":
            self.eat()
            if self.peek() == ("op", "("):
                self.eat()
                a = self.expr()
                self.eat("op", ")")
                return ("call", v, a)
            return ("var", v)
        raise Unsupported("unexpected token %s %s" % (k, v))


def parse_expr(s):
    p = P(tokenize(s))
    e = p.expr()
    if p.peek()[0] != "eof":
        raise Unsupported("trailing tokens in expression %r" % s)
    return e


# ---------------------------------------------------------------- emission
class Emitter:
    """env: Rust name -> (coq term, type).  mode: 'wrap' | 'ck'.  In ck mode `binds` collects `x <- ck N (..) ;;` lines."""

    def __init__(self, mode, consts, fields, prefix):
        self.mode, self.consts, self.fields, self.prefix = mode, consts, fields, prefix
        self.env = {}
        self.lines = []
        self.n = 0

    def fresh(self, base="t"):
        self.n += 1
        return "%s%d" % (base, self.n)

    def wrapper(self, ty):
        w = WIDTH.get(ty)
        if w is None:
            raise Unsupported("type %s" % ty)
        return {32: "w32", 64: "w64", 8: None, 0: None}[w]

    def arith(self, op, l, r, ty):
        sym = {"+": "+", "-": "-", "*": "*"}[op]
        raw = "(%s %s %s)" % (l, sym, r)
        w = WIDTH[ty]
        if w == 0:
            return raw  # usize: exact
        if w == 8:
            raise Unsupported("arithmetic at u8")
        if self.mode == "wrap":
            return "(w%d %s)" % (w, raw)
        x = self.fresh()
        self.lines.append("%s <- ck %d %s ;;" % (x, w, raw))
        return x

    def ev(self, e):
        """returns (coq term, type or None for an untyped literal)"""
        k = e[0]
        if k == "num":
            return str(e[1]), None
        if k == "var":
            v = e[1]
            if v in self.env:
                return self.env[v]
            if v in self.consts:
                return self.consts[v]
            raise Unsupported("unknown name %s" % v)
        if k == "field":
            if e[1] == ("var", "self") and ("self." + e[2]) in self.env:
                return self.env["self." + e[2]]
            raise Unsupported("field access %r" % (e,))
        if k == "call":
            m = re.fullmatch(r"(u32|u64)::from", e[1])
            if m:
                t, ty = self.ev(e[2])
                if ty is not None and WIDTH[ty] != 0 and WIDTH[ty] > WIDTH[m.group(1)]:
                    raise Unsupported("From narrows")
                return t, m.group(1)
            raise Unsupported("call %s" % e[1])
        if k == "cast":
            t, ty = self.ev(e[2])
            to = e[1]
            if to not in WIDTH:
                raise Unsupported("cast to %s" % to)
            src_w = 64 if (ty is None or WIDTH[ty] == 0) else WIDTH[ty]
            dst_w = 64 if WIDTH[to] == 0 else WIDTH[to]
            if dst_w < src_w:
                return "(w%d %s)" % (dst_w, t), to
            return t, to
        if k == "method":
            if e[1] == "wrapping_add" and len(e[3]) == 1:
                l, lt = self.ev(e[2])
                r, rt = self.ev(e[3][0])
                ty = lt or rt
                if WIDTH[ty] not in (32, 64):
                    raise Unsupported("wrapping_add at %s" % ty)
                return "(w%d (%s + %s))" % (WIDTH[ty], l, r), ty
            raise Unsupported("method %s" % e[1])
        if k == "bin":
            op = e[1]
            l, lt = self.ev(e[2])
            r, rt = self.ev(e[3])
            ty = lt or rt
            if lt and rt and lt != rt and op != "<<":
                raise Unsupported("operands of %s have types %s and %s" % (op, lt, rt))
            if ty is None:
                raise Unsupported("untyped arithmetic")
            if op in "+-*":
                return self.arith(op, l, r, ty), ty
            if op == "%":
                return "(%s mod %s)" % (l, r), ty
            if op == "|":
                return "(Z.lor %s %s)" % (l, r), ty
            if op == "<<":
                w = WIDTH[lt]
                if w not in (32, 64):
                    raise Unsupported("shift at %s" % lt)
                return "(w%d (Z.shiftl %s %s))" % (w, l, r), lt
        raise Unsupported("expression %r" % (e,))

    def let(self, name, term):
        x = self.fresh(re.sub(r"\W", "_", name) + "_")
        self.lines.append("let %s := %s in" % (x, term))
        return x


def split_statements(body):
    """top-level statements of a block body (text), `if .. { .. }` kept whole"""
    out, i, cur, depth = [], 0, "", 0
    while i < len(body):
        ch = body[i]
        if ch == "{":
            j = balanced(body, i)
            cur += body[i:j]
            i = j
            if re.match(r"\s*(if|for)\b", cur):
                out.append(cur.strip())
                cur = ""
            continue
        if ch == ";":
            out.append(cur.strip())
            cur = ""
        else:
            cur += ch
        i += 1
    if cur.strip():
        out.append(cur.strip())  # tail expression
    return [s for s in out if s]


def run_block(em, stmts, tail_ok):
    """executes statements in the emitter; returns the tail expression text (or None)"""
    tail = None
    for idx, s in enumerate(stmts):
        if s.startswith("debug_assert!"):
            continue
        m = re.fullmatch(r"let\s+(mut\s+)?(\w+)(?:\s*:\s*(\w+))?\s*=\s*(.*)", s, flags=re.S)
        if m:
            name, ann, rhs = m.group(2), m.group(3), m.group(4)
            if rhs.strip().startswith("Self {") or rhs.strip().startswith("Self{"):
                em.env["__struct_" + name] = rhs.strip()
                continue
            if re.fullmatch(r"data\.len\(\)", rhs.strip()):
                em.env[name] = ("len", "usize")
                continue
            t, ty = em.ev(parse_expr(rhs))
            ty = ann or ty
            if ty is None:
                raise Unsupported("cannot type `%s`" % s)
            em.env[name] = (em.let(name, t), ty)
            continue
        m = re.fullmatch(r"self\.(\w+)\s*(\+|-|\*|%)?=\s*(.*)", s, flags=re.S)
        if m:
            f, op, rhs = m.groups()
            if op:
                rhs = "self.%s %s (%s)" % (f, op, rhs)
            t, ty = em.ev(parse_expr(rhs))
            fty = em.fields[f]
            if ty is not None and ty != fty:
                raise Unsupported("assignment of %s to field %s: %s" % (ty, f, fty))
            em.env["self." + f] = (em.let(f, t), fty)
            continue
        m = re.fullmatch(r"(\w+)\s*(\+|-|\*|%)=\s*(.*)", s, flags=re.S)
        if m and m.group(1) in em.env:
            v, op, rhs = m.groups()
            t, ty = em.ev(parse_expr("%s %s (%s)" % (v, op, rhs)))
            em.env[v] = (em.let(v, t), em.env[v][1])
            continue
        if s.startswith("if "):
            return ("if", s, stmts[idx + 1:])
        if idx == len(stmts) - 1 and tail_ok:
            tail = s
            continue
        raise Unsupported("statement `%s`" % s[:80])
    return tail


def record(em, rec, names):
    return "{| " + "; ".join("%s := %s" % (names[f], em.env["self." + f][0]) for f in names) + " |}"


def gen_method(src_impl, fields, consts, fname, mode, names, rectype, self_terms, extra_params=()):
    """roll / push: state in, state out"""
    params, body = fn_body(src_impl, fname)
    em = Emitter(mode, consts, fields, fname)
    for f, t in self_terms.items():
        em.env["self." + f] = (t, fields[f])
    for p, ty in params.items():
        em.env[p] = (p, ty)
    res = run_block(em, split_statements(body), tail_ok=False)
    def finish(e):
        r = record(e, rectype, names)
        return ("Some %s" % r) if mode == "ck" else r
    if isinstance(res, tuple) and res[0] == "if":
        _, ifs, rest = res
        if [x for x in rest if not x.startswith("debug_assert!")]:
            raise Unsupported("%s: statements after the final if" % fname)
        m = re.fullmatch(r"if\s+(.*?)\s*\{(.*)\}", ifs, flags=re.S)
        cond, inner = m.group(1), m.group(2)
        cm = re.fullmatch(r"(.+?)\s*>=\s*(.+)", cond)
        if not cm:
            raise Unsupported("%s: condition `%s`" % (fname, cond))
        l, _ = em.ev(parse_expr(cm.group(1)))
        r, _ = em.ev(parse_expr(cm.group(2)))
        pre = list(em.lines)
        saved = dict(em.env)
        em.lines = []
        if run_block(em, split_statements(inner), tail_ok=False) is not None:
            raise Unsupported("%s: nested control flow" % fname)
        then_lines, then_rec = em.lines, record(em, rectype, names)
        em.env = saved
        em.lines = []
        else_rec = record(em, rectype, names)
        if mode == "ck" and any("<-" in x for x in then_lines):
            body_txt = "\n  ".join(pre + ["if %s >=? %s" % (l, r), "then " + " ".join(then_lines) + " Some " + then_rec, "else Some " + else_rec])
        else:
            # nothing in the branch can trap: the conditional is a value
            ite = "(if %s >=? %s\n   then %s %s\n   else %s)" % (l, r, " ".join(then_lines), then_rec, else_rec)
            body_txt = "\n  ".join(pre + [("Some " + ite) if mode == "ck" else ite])
    else:
        body_txt = "\n  ".join(em.lines + [finish(em)])
    ps = " ".join("(%s : Z)" % p for p in params)
    ret = ("option " + rectype) if mode == "ck" else rectype
    return "Definition g_%s%s (s : %s) %s : %s :=\n  %s." % (fname, "_ck" if mode == "ck" else "", rectype, ps, ret, body_txt)


def gen_digest(src_impl, fields, consts, name, rectype, self_terms):
    params, body = fn_body(src_impl, "digest")
    em = Emitter("wrap", consts, fields, "digest")
    for f, t in self_terms.items():
        em.env["self." + f] = (t, fields[f])
    tail = run_block(em, split_statements(body), tail_ok=True)
    if not isinstance(tail, str):
        raise Unsupported("digest: no tail expression")
    t, _ = em.ev(parse_expr(tail))
    return "Definition g_%s (s : %s) : Z :=\n  %s." % (name, rectype, "\n  ".join(em.lines + [t]))


def gen_new(src_impl, fields, consts, prefix, names, rectype):
    """the accumulation loop body (one step) and the final struct literal of `new`"""
    params, body = fn_body(src_impl, "new")
    m = re.search(r"for\s*\(\s*i\s*,\s*&byte\s*\)\s*in\s*data\.iter\(\)\.enumerate\(\)\s*\{", body)
    if not m:
        raise Unsupported("new: the loop `for (i, &byte) in data.iter().enumerate()`")
    end = balanced(body, m.end() - 1)
    loop_body = body[m.end():end - 1]
    head = body[:m.start()]
    tail = body[end:]
    if not re.search(r"let\s+len\s*=\s*data\.len\(\)\s*;", head):
        raise Unsupported("new: `let len = data.len();`")
    accs = re.findall(r"let\s+mut\s+(\w+)\s*:\s*(\w+)\s*=\s*0\s*;", head)
    if [a for a, _ in accs] != ["a", "b"]:
        raise Unsupported("new: accumulators `let mut a: u64 = 0; let mut b: u64 = 0;`")
    outs = []
    for mode in ("wrap", "ck"):
        em = Emitter(mode, consts, fields, "new")
        for a, ty in accs:
            em.env[a] = (a, ty)
        em.env["byte"] = ("x", "u8")
        # `(len - i)` is the number of bytes from the current one to the end: the variable `rem` of the model's loop
        lb = re.sub(r"\(\s*len\s*-\s*i\s*\)", "rem", loop_body)
        if re.search(r"\blen\b|\bi\b", lb):
            raise Unsupported("new: the loop body uses len / i other than as (len - i)")
        em.env["rem"] = ("rem", "usize")
        if run_block(em, split_statements(lb), tail_ok=False) is not None:
            raise Unsupported("new: control flow in the loop body")
        pair = "(%s, %s)" % (em.env["a"][0], em.env["b"][0])
        fin = ("Some %s" % pair) if mode == "ck" else pair
        outs.append("Definition g_%s_new_step%s (rem x a b : Z) : %s :=\n  %s." % (
            prefix, "_ck" if mode == "ck" else "", "option (Z * Z)" if mode == "ck" else "Z * Z", "\n  ".join(em.lines + [fin])))
    # final struct literal
    sm = re.search(r"Self\s*\{(.*?)\}", tail, flags=re.S)
    if not sm:
        raise Unsupported("new: final `Self { .. }`")
    em = Emitter("wrap", consts, fields, "new")
    for a, ty in accs:
        em.env[a] = (a, ty)
    em.env["len"] = ("n", "usize")
    vals = {}
    for f, rhs in re.findall(r"(\w+)\s*:\s*([^,]+),", sm.group(1) + ","):
        t, ty = em.ev(parse_expr(rhs.strip()))
        if ty is not None and ty != fields[f] and not (WIDTH[fields[f]] == 0 and WIDTH.get(ty) == 0):
            raise Unsupported("new: field %s gets a %s" % (f, ty))
        vals[f] = t
    if set(vals) != set(names):
        raise Unsupported("new: struct literal fields %s" % sorted(vals))
    outs.append("Definition g_%s_new_fin (n a b : Z) : %s :=\n  {| %s |}." % (prefix, rectype, "; ".join("%s := %s" % (names[f], vals[f]) for f in names)))
    return outs


def gather():
    src = strip_comments(open(os.path.join(REPO, "src/checksum.rs")).read())
    src = src.split("#[cfg(test)]")[0]
    out = []
    for struct, prefix, rectype, names, modc in (
            ("RollingChecksum", "rc", "rc", {"a": "ra", "b": "rb", "count": "rcount"}, "M"),
            ("FastRollingChecksum", "frc", "frc", {"a": "fa", "b": "fb", "count": "fcount", "rolls": "frolls"}, "FM")):
        impl = impl_block(src, struct)
        fields = struct_fields(src, struct)
        if set(fields) != set(names):
            raise Unsupported("%s: fields %s" % (struct, sorted(fields)))
        consts = {}
        for cname, cty, _ in re.findall(r"const\s+(\w+)\s*:\s*(\w+)\s*=\s*([^;]+);", impl):
            consts["Self::" + cname] = ({"MOD": modc, "NORMALIZE_INTERVAL": "INTERVAL"}.get(cname), cty)
            if consts["Self::" + cname][0] is None:
                raise Unsupported("%s: constant %s" % (struct, cname))
        self_terms = {f: "(%s s)" % names[f] for f in names}
        for fname in ("roll", "push"):
            for mode in ("wrap", "ck"):
                d = gen_method(impl, fields, consts, fname, mode, names, rectype, self_terms)
                out.append(d.replace("Definition g_%s" % fname, "Definition g_%s_%s" % (prefix, fname), 1))
        out.append(gen_digest(impl, fields, consts, "%s_digest" % prefix, rectype, self_terms))
        out += gen_new(impl, fields, consts, prefix, names, rectype)
    return out


def render(defs):
    head = ["(* GENERATED by tools/gen_checksum.py from src/checksum.rs of /repo's current source. Do not edit. *)",
            "From Coq Require Import ZArith List Bool.", "From Copia Require Import Gen.Constants Model.Checksum.",
            "Open Scope Z_scope.", ""]
    return "\n".join(head) + "\n\n".join(defs) + "\n"


def main():
    try:
        text = render(gather())
    except Unsupported as e:
        print("gen_checksum: cannot translate src/checksum.rs: %s" % e, file=sys.stderr)
        return 2
    out = os.path.abspath(OUT)
    old = open(out).read() if os.path.exists(out) else None
    if old != text:
        os.makedirs(os.path.dirname(out), exist_ok=True)
        open(out, "w").write(text)
    print("gen_checksum: %s" % ("unchanged" if old == text else "written"))
    return 0


if __name__ == "__main__":
    sys.exit(main())
