#!/bin/bash
# usage: tools/run_mutants.sh <ID>:<Cxx>[,<Cyy>..] ...     (checkouts under /tmp/mut/<ID>; meant for `vp run`, after ./setup.sh)
cd "$(dirname "$0")/.."
for spec in "$@"; do
  id="${spec%%:*}"; props="${spec#*:}"
  echo "##### $id"
  tools/try_mutant.sh "/tmp/mut/$id" ${props//,/ }
done
