#!/bin/bash
# usage: tools/baseline.sh [checkout]   (default /repo)
# Run /repo's pinned test suite with the verification guard OFF and compare with BASELINE.json's stable_pass.
# Exit 0 iff every stable_pass test still passes.
set -u
R="${1:-/repo}"
cd "$R"
export VP_BASE_REPO="$R"
export CARGO_NET_OFFLINE=true
unset RUSTFLAGS
rm -f target/nextest/pb/junit.xml
cargo nextest run --workspace --no-fail-fast --tool-config-file pb:/w/lib/nextest.toml --profile pb --test-threads 8 --offline >"$R/target/vp-baseline.log" 2>&1
python3 - <<'P'
import json,sys,os,xml.etree.ElementTree as ET,glob
R=os.environ['VP_BASE_REPO']
b=json.load(open('/root/.vp/BASELINE.json'))
want=set(b['stable_pass'])
files=glob.glob(R+'/target/nextest/pb/junit.xml')
if not files: print("baseline: no junit.xml produced (see target/vp-baseline.log)"); sys.exit(1)
passed=set();failed=set()
for tc in ET.parse(files[0]).getroot().iter('testcase'):
    tid=(tc.get('classname') or '')+'::'+(tc.get('name') or '')
    if tc.find('failure') is not None or tc.find('error') is not None: failed.add(tid)
    elif tc.find('skipped') is None: passed.add(tid)
missing=sorted(want-passed)
print("baseline: %d/%d stable tests pass; %d other failures"%(len(want&passed),len(want),len(failed-want)))
for m in missing[:20]: print("  NOT PASSING:",m)
sys.exit(1 if missing else 0)
P
