#!/usr/bin/env python3
"""Regenerate coq/Gen/Constants.v from the CURRENT text of /repo's sources.

A tiny translator: anchored regular expressions over the source. It fails
closed (exit 2, message naming the declaration) when a declaration is not
found or its right-hand side is not a literal this script can evaluate.
The output file is rewritten only when its content changes so `make` stays
incremental.
"""
import os, re, sys

REPO = os.environ.get("VERIF_REPO", "/repo")
OUT = os.path.join(os.path.dirname(os.path.abspath(__file__)), "..", "coq", "Gen", "Constants.v")


class Missing(Exception):
    pass


def read(rel):
    with open(os.path.join(REPO, rel), encoding="utf-8") as f:
        return f.read()


def strip_tests(src):
    i = src.find("#[cfg(test)]")
    return src if i < 0 else src[:i]


def lit(expr):
    """Evaluate a Rust integer literal expression made of literals, * + << and parentheses."""
    e = expr.strip()
    e = re.sub(r"_", "", e)
    e = re.sub(r"(?<=[0-9a-fA-Fx])(u8|u16|u32|u64|usize|i64|i32)\b", "", e)
    if not re.fullmatch(r"[0-9a-fA-Fx\s\*\+\-\(\)<]+", e):
        raise Missing("not a literal expression: %r" % expr)
    return int(eval(e, {"__builtins__": {}}, {}))


def find(src, pattern, what, group=1):
    m = re.search(pattern, src, re.S)
    if not m:
        raise Missing(what)
    return m.group(group)


def impl_block(src, name):
    m = re.search(r"impl\s+%s\s*\{" % re.escape(name), src)
    if not m:
        raise Missing("impl %s" % name)
    depth, i = 0, m.end() - 1
    while i < len(src):
        if src[i] == "{":
            depth += 1
        elif src[i] == "}":
            depth -= 1
            if depth == 0:
                return src[m.end():i]
        i += 1
    raise Missing("impl %s (unbalanced)" % name)


def gather():
    c = {}
    ck = strip_tests(read("src/checksum.rs"))
    rc = impl_block(ck, "RollingChecksum")
    frc = impl_block(ck, "FastRollingChecksum")
    c["RC_MOD"] = lit(find(rc, r"const\s+MOD\s*:\s*u32\s*=\s*([^;]+);", "RollingChecksum::MOD"))
    c["FRC_MOD"] = lit(find(frc, r"const\s+MOD\s*:\s*u64\s*=\s*([^;]+);", "FastRollingChecksum::MOD"))
    c["FRC_INTERVAL"] = lit(find(frc, r"const\s+NORMALIZE_INTERVAL\s*:\s*u32\s*=\s*([^;]+);",
                                 "FastRollingChecksum::NORMALIZE_INTERVAL"))

    def bs_bounds(src, what):
        m = re.search(r"\((\d[\d_]*)\s*\.\.=\s*(\d[\d_]*)\)\s*\.contains\(&\s*(?:size|block_size)\)", src)
        if not m:
            raise Missing(what)
        return lit(m.group(1)), lit(m.group(2))

    sy = strip_tests(read("src/sync.rs"))
    asy = strip_tests(read("src/async_sync.rs"))
    sg = strip_tests(read("src/signature.rs"))
    lo1, hi1 = bs_bounds(find(sy, r"pub fn block_size\(mut self.*?\n    \}", "SyncBuilder::block_size", 0), "SyncBuilder::block_size bounds")
    lo2, hi2 = bs_bounds(find(asy, r"pub fn with_block_size.*?\n    \}", "AsyncCopiaSync::with_block_size", 0), "AsyncCopiaSync::with_block_size bounds")
    lo3, hi3 = bs_bounds(find(sg, r"pub fn validate_block_size.*?\n    \}", "SignatureTable::validate_block_size", 0), "validate_block_size bounds")
    c["BS_MIN_SYNC"], c["BS_MAX_SYNC"] = lo1, hi1
    c["BS_MIN_ASYNC"], c["BS_MAX_ASYNC"] = lo2, hi2
    c["BS_MIN_TABLE"], c["BS_MAX_TABLE"] = lo3, hi3
    c["SIG_PAR_THRESHOLD"] = lit(find(sg, r"if\s+data\.len\(\)\s*>\s*([0-9_ \*]+)\{", "parallel signature threshold"))

    pr = strip_tests(read("src/protocol.rs"))
    magic = find(pr, r'pub const PROTOCOL_MAGIC\s*:\s*\[u8;\s*4\]\s*=\s*\*b"([^"]{4})";', "PROTOCOL_MAGIC")
    for i, ch in enumerate(magic.encode()):
        c["PROTO_MAGIC%d" % i] = ch
    c["PROTO_VERSION"] = lit(find(pr, r"pub const PROTOCOL_VERSION\s*:\s*u8\s*=\s*([^;]+);", "PROTOCOL_VERSION"))
    c["MAX_PAYLOAD_SIZE"] = lit(find(pr, r"pub const MAX_PAYLOAD_SIZE\s*:\s*u32\s*=\s*([^;]+);", "MAX_PAYLOAD_SIZE"))
    c["HEADER_SIZE"] = lit(find(pr, r"pub const SIZE\s*:\s*usize\s*=\s*([^;]+);", "FrameHeader::SIZE"))
    enum = find(pr, r"pub enum MessageType\s*\{(.*?)\n\}", "enum MessageType")
    for name, val in re.findall(r"(\w+)\s*=\s*(0x[0-9a-fA-F]+|\d+)\s*,", enum):
        c["MT_" + name.upper()] = lit(val)
    if not any(k.startswith("MT_") for k in c):
        raise Missing("MessageType discriminants")

    wr = strip_tests(read("src/bin/copia/wire.rs"))
    wm = find(wr, r'pub const MAGIC\s*:\s*&\[u8(?:;\s*\d+)?\]\s*=\s*b"([^"]+)";', "wire::MAGIC")
    c["WIRE_MAGIC_LEN"] = len(wm)
    for i, ch in enumerate(wm.encode()):
        c["WIRE_MAGIC%d" % i] = ch
    c["WIRE_VERSION"] = lit(find(wr, r"pub const VERSION\s*:\s*u\d+\s*=\s*([^;]+);", "wire::VERSION"))
    c["WIRE_MAX_FRAME"] = lit(find(wr, r"(?:pub )?const MAX_FRAME\s*:\s*\w+\s*=\s*([^;]+);", "wire::MAX_FRAME"))

    ar = strip_tests(read("src/bin/copia/archive.rs"))
    c["ARCHIVE_FORMAT_VERSION"] = lit(find(ar, r"const FORMAT_VERSION\s*:\s*u\d+\s*=\s*([^;]+);", "archive::FORMAT_VERSION"))

    # C20: the CLI's own validate_block_size (applied to block sizes read from signature/delta files)
    mn = strip_tests(read("src/bin/copia/main.rs"))
    lo4, hi4 = bs_bounds(find(mn, r"fn validate_block_size\(size: usize\).*?\n\}", "cli validate_block_size", 0), "cli validate_block_size bounds")
    c["BS_MIN_CLI"], c["BS_MAX_CLI"] = lo4, hi4
    # C19: glob metacharacters (plan.rs) and the remote listing format (meta.rs)
    pl = strip_tests(read("src/bin/copia/plan.rs"))
    gmf = find(pl, r"pub fn glob_match\(.*?\n\}", "plan::glob_match", 0)
    stars = set(re.findall(r"p\[pi\]\s*==\s*'(.)'\s*\{", gmf))
    if len(stars) != 1:
        raise Missing("glob_match: the single star character (p[pi] == '*' {)")
    c["GLOB_STAR"] = ord(stars.pop())
    c["GLOB_QMARK"] = ord(find(gmf, r"\(p\[pi\]\s*==\s*'(.)'\s*\|\|\s*p\[pi\]\s*==\s*t\[ti\]\)", "glob_match: the one-character wildcard"))
    c["PATH_SEP"] = ord(find(pl, r"pat\.trim_end_matches\('(.)'\)", "is_excluded: trim_end_matches"))
    if find(pl, r"pat\.contains\('(.)'\)", "is_excluded: contains") != chr(c["PATH_SEP"]):
        raise Missing("is_excluded: contains() and trim_end_matches() use different characters")
    mt = strip_tests(read("src/bin/copia/meta.rs"))
    find(mt, r"""find \. -type f -printf '%s\\\\t%T@\\\\t%p\\\\0'""", "meta.rs: find -printf '%s\\t%T@\\t%p\\0' listing format", 0)
    pm = find(mt, r"pub fn parse_remote_meta_output\(.*?\n\}", "meta::parse_remote_meta_output", 0)
    c["LISTING_REC_SEP"] = lit(find(pm, r"stdout\.split\(\|&b\|\s*b\s*==\s*(\d+)\)", "parse_remote_meta_output: record separator"))
    nf, fs = re.search(r"\.splitn\((\d+),\s*'(\\?.)'\)", pm).groups() if re.search(r"\.splitn\((\d+),\s*'(\\?.)'\)", pm) else (None, None)
    if nf != "3" or fs not in ("\\t",):
        raise Missing("parse_remote_meta_output: splitn(3, '\\t')")
    c["LISTING_FIELD_SEP"] = 9
    c["LISTING_FRAC_SEP"] = ord(find(pm, r"mtime\s*\.split\('(.)'\)", "parse_remote_meta_output: fraction separator"))
    pref = find(pm, r'path\.strip_prefix\("([^"]*)"\)', "parse_remote_meta_output: strip_prefix")
    if pref != "./":
        raise Missing("parse_remote_meta_output: strip_prefix(\"./\")")
    return c


def render(c):
    lines = ["(* GENERATED by tools/gen_constants.py from /repo's current source. Do not edit. *)",
             "From Coq Require Import ZArith.", "Open Scope Z_scope.", ""]
    for k in sorted(c):
        lines.append("Definition %s : Z := %d." % (k, c[k]))
    lines.append("")
    return "\n".join(lines)


def main():
    try:
        c = gather()
    except Missing as e:
        print("gen_constants: cannot find/evaluate: %s" % e, file=sys.stderr)
        return 2
    text = render(c)
    out = os.path.abspath(OUT)
    os.makedirs(os.path.dirname(out), exist_ok=True)
    old = open(out).read() if os.path.exists(out) else None
    if old != text:
        with open(out, "w") as f:
            f.write(text)
    if "--print" in sys.argv:
        print(text)
    return 0


if __name__ == "__main__":
    sys.exit(main())
