#!/usr/bin/env python3
"""Regenerate coq/Gen/Constants.v from the CURRENT text of /repo's sources.

A tiny translator: anchored regular expressions over the source. It fails
closed (exit 2, message naming the declaration) when a declaration is not
found or its right-hand side is not a literal this script can evaluate.
The output file is rewritten only when its content changes so `make` stays
incremental.
"""
import os, re, sys

REPO = os.environ.get("VERIF_REPO", "/repo")
OUT = os.environ.get("VERIF_CONST_OUT", os.path.join(os.path.dirname(os.path.abspath(__file__)), "..", "coq", "Gen", "Constants.v"))


class Missing(Exception):
    pass


def read(rel):
    with open(os.path.join(REPO, rel), encoding="utf-8") as f:
        return f.read()


def strip_tests(src):
    i = src.find("#[cfg(test)]")
    return src if i < 0 else src[:i]


def lit(expr):
    """Evaluate a Rust integer literal expression made of literals, * + << and parentheses."""
    e = expr.strip()
    e = re.sub(r"_", "", e)
    e = re.sub(r"(?<=[0-9a-fA-Fx])(u8|u16|u32|u64|usize|i64|i32)\b", "", e)
    if not re.fullmatch(r"[0-9a-fA-Fx\s\*\+\-\(\)<]+", e):
        raise Missing("not a literal expression: %r" % expr)
    return int(eval(e, {"__builtins__": {}}, {}))


def find(src, pattern, what, group=1):
    m = re.search(pattern, src, re.S)
    if not m:
        raise Missing(what)
    return m.group(group)


def impl_block(src, name):
    m = re.search(r"impl\s+%s\s*\{" % re.escape(name), src)
    if not m:
        raise Missing("impl %s" % name)
    depth, i = 0, m.end() - 1
    while i < len(src):
        if src[i] == "{":
            depth += 1
        elif src[i] == "}":
            depth -= 1
            if depth == 0:
                return src[m.end():i]
        i += 1
    raise Missing("impl %s (unbalanced)" % name)


def g_checksum(c):
    ck = strip_tests(read("src/checksum.rs"))
    rc = impl_block(ck, "RollingChecksum")
    frc = impl_block(ck, "FastRollingChecksum")
    c["RC_MOD"] = lit(find(rc, r"const\s+MOD\s*:\s*u32\s*=\s*([^;]+);", "RollingChecksum::MOD"))
    c["FRC_MOD"] = lit(find(frc, r"const\s+MOD\s*:\s*u64\s*=\s*([^;]+);", "FastRollingChecksum::MOD"))
    c["FRC_INTERVAL"] = lit(find(frc, r"const\s+NORMALIZE_INTERVAL\s*:\s*u32\s*=\s*([^;]+);",
                                 "FastRollingChecksum::NORMALIZE_INTERVAL"))


def bs_bounds(src, what):
    m = re.search(r"\((\d[\d_]*)\s*\.\.=\s*(\d[\d_]*)\)\s*\.contains\(&\s*(?:size|block_size)\)", src)
    if not m:
        raise Missing(what)
    return lit(m.group(1)), lit(m.group(2))


def g_blocksize(c):
    sy = strip_tests(read("src/sync.rs"))
    asy = strip_tests(read("src/async_sync.rs"))
    sg = strip_tests(read("src/signature.rs"))
    lo1, hi1 = bs_bounds(find(sy, r"pub fn block_size\(mut self.*?\n    \}", "SyncBuilder::block_size", 0), "SyncBuilder::block_size bounds")
    lo2, hi2 = bs_bounds(find(asy, r"pub fn with_block_size.*?\n    \}", "AsyncCopiaSync::with_block_size", 0), "AsyncCopiaSync::with_block_size bounds")
    lo3, hi3 = bs_bounds(find(sg, r"pub fn validate_block_size.*?\n    \}", "SignatureTable::validate_block_size", 0), "validate_block_size bounds")
    c["BS_MIN_SYNC"], c["BS_MAX_SYNC"] = lo1, hi1
    c["BS_MIN_ASYNC"], c["BS_MAX_ASYNC"] = lo2, hi2
    c["BS_MIN_TABLE"], c["BS_MAX_TABLE"] = lo3, hi3
    c["SIG_PAR_THRESHOLD"] = lit(find(sg, r"if\s+data\.len\(\)\s*>\s*([0-9_ \*]+)\{", "parallel signature threshold"))


def g_protocol(c):
    pr = strip_tests(read("src/protocol.rs"))
    magic = find(pr, r'pub const PROTOCOL_MAGIC\s*:\s*\[u8;\s*4\]\s*=\s*\*b"([^"]{4})";', "PROTOCOL_MAGIC")
    for i, ch in enumerate(magic.encode()):
        c["PROTO_MAGIC%d" % i] = ch
    c["PROTO_VERSION"] = lit(find(pr, r"pub const PROTOCOL_VERSION\s*:\s*u8\s*=\s*([^;]+);", "PROTOCOL_VERSION"))
    c["MAX_PAYLOAD_SIZE"] = lit(find(pr, r"pub const MAX_PAYLOAD_SIZE\s*:\s*u32\s*=\s*([^;]+);", "MAX_PAYLOAD_SIZE"))
    c["HEADER_SIZE"] = lit(find(pr, r"pub const SIZE\s*:\s*usize\s*=\s*([^;]+);", "FrameHeader::SIZE"))
    enum = find(pr, r"pub enum MessageType\s*\{(.*?)\n\}", "enum MessageType")
    n = 0
    for name, val in re.findall(r"(\w+)\s*=\s*(0x[0-9a-fA-F]+|\d+)\s*,", enum):
        c["MT_" + name.upper()] = lit(val)
        n += 1
    if n == 0:
        raise Missing("MessageType discriminants")


def g_wire(c):
    wr = strip_tests(read("src/bin/copia/wire.rs"))
    wm = find(wr, r'pub const MAGIC\s*:\s*&\[u8(?:;\s*\d+)?\]\s*=\s*b"([^"]+)";', "wire::MAGIC")
    c["WIRE_MAGIC_LEN"] = len(wm)
    for i, ch in enumerate(wm.encode()):
        c["WIRE_MAGIC%d" % i] = ch
    c["WIRE_VERSION"] = lit(find(wr, r"pub const VERSION\s*:\s*u\d+\s*=\s*([^;]+);", "wire::VERSION"))
    c["WIRE_MAX_FRAME"] = lit(find(wr, r"(?:pub )?const MAX_FRAME\s*:\s*\w+\s*=\s*([^;]+);", "wire::MAX_FRAME"))


def g_archive(c):
    ar = strip_tests(read("src/bin/copia/archive.rs"))
    c["ARCHIVE_FORMAT_VERSION"] = lit(find(ar, r"const FORMAT_VERSION\s*:\s*u\d+\s*=\s*([^;]+);", "archive::FORMAT_VERSION"))


def g_clibs(c):
    # C20: the CLI's own validate_block_size (applied to block sizes read from signature/delta files)
    mn = strip_tests(read("src/bin/copia/main.rs"))
    lo4, hi4 = bs_bounds(find(mn, r"fn validate_block_size\(size: usize\).*?\n\}", "cli validate_block_size", 0), "cli validate_block_size bounds")
    c["BS_MIN_CLI"], c["BS_MAX_CLI"] = lo4, hi4


def g_glob(c):
    # C19: glob metacharacters (plan.rs)
    pl = strip_tests(read("src/bin/copia/plan.rs"))
    gmf = find(pl, r"pub fn glob_match\(.*?\n\}", "plan::glob_match", 0)
    stars = set(re.findall(r"p\[pi\]\s*==\s*'(.)'\s*\{", gmf))
    if len(stars) != 1:
        raise Missing("glob_match: the single star character (p[pi] == '*' {)")
    c["GLOB_STAR"] = ord(stars.pop())
    c["GLOB_QMARK"] = ord(find(gmf, r"\(p\[pi\]\s*==\s*'(.)'\s*\|\|\s*p\[pi\]\s*==\s*t\[ti\]\)", "glob_match: the one-character wildcard"))
    c["PATH_SEP"] = ord(find(pl, r"pat\.trim_end_matches\('(.)'\)", "is_excluded: trim_end_matches"))
    if find(pl, r"pat\.contains\('(.)'\)", "is_excluded: contains") != chr(c["PATH_SEP"]):
        raise Missing("is_excluded: contains() and trim_end_matches() use different characters")


def g_listing(c):
    # C19: the remote listing format (meta.rs)
    mt = strip_tests(read("src/bin/copia/meta.rs"))
    find(mt, r"""find \. -type f -printf '%s\\\\t%T@\\\\t%p\\\\0'""", "meta.rs: find -printf '%s\\t%T@\\t%p\\0' listing format", 0)
    pm = find(mt, r"pub fn parse_remote_meta_output\(.*?\n\}", "meta::parse_remote_meta_output", 0)
    c["LISTING_REC_SEP"] = lit(find(pm, r"stdout\.split\(\|&b\|\s*b\s*==\s*(\d+)\)", "parse_remote_meta_output: record separator"))
    m = re.search(r"let mut parts = s\.splitn\((\d+),\s*'(\\?.)'\)", pm)
    nf, fs = m.groups() if m else (None, None)
    if nf != "3" or fs not in ("\\t",):
        raise Missing("parse_remote_meta_output: `let mut parts = s.splitn(3, '\\t')` applied to the record itself")
    c["LISTING_FIELD_SEP"] = 9
    c["LISTING_FRAC_SEP"] = ord(find(pm, r"mtime\s*\.split\('(.)'\)", "parse_remote_meta_output: fraction separator"))
    pref = find(pm, r'path\.strip_prefix\("([^"]*)"\)', "parse_remote_meta_output: strip_prefix")
    if pref != "./":
        raise Missing("parse_remote_meta_output: strip_prefix(\"./\")")


def g_pushcmd(c):
    # C09 / C04: the remote commands a push runs.  Shape facts, 1 = present in the current source, 0 = absent:
    #   PUSH_FILE_VERIFIES_COUNT    `cat > T && [ "$(wc -c < T)" -eq SIZE ] && mv -f T D`   (transfer_file_to_remote)
    #   PUSH_DELETE_VERIFIES_COUNT  `cat > "$t" && [ "$(wc -c < "$t")" -eq LEN ] && xargs -0 rm -f -- < "$t"` (apply_remote_deletes)
    tr = strip_tests(read("src/bin/copia/transfer.rs"))
    f = find(tr, r"pub async fn transfer_file_to_remote\(.*?\n\}", "transfer::transfer_file_to_remote", 0)
    if "mv -f" not in f or "cat >" not in f:
        raise Missing("transfer_file_to_remote: the remote `cat > T ... mv -f T D` command")
    c["PUSH_FILE_VERIFIES_COUNT"] = 1 if re.search(r"cat > \$'\{tmp_escaped\}' && \[ \\\"\$\(wc -c < \$'\{tmp_escaped\}'\)\\\" -eq \{file_size\} \] && mv -f \$'\{tmp_escaped\}'", f) else 0
    inc = strip_tests(read("src/bin/copia/incremental.rs"))
    d = find(inc, r"async fn apply_remote_deletes\(.*?\n\}", "incremental::apply_remote_deletes", 0)
    if "xargs -0 rm -f --" not in d:
        raise Missing("apply_remote_deletes: the remote `xargs -0 rm -f --` command")
    ok = re.search(r'cat > \\"\$t\\" && \[ \\"\$\(wc -c < \\"\$t\\"\)\\" -eq \{\} \] && xargs -0 rm -f -- < \\"\$t\\"', d) and re.search(r"list\.len\(\)\s*\)", d)
    c["PUSH_DELETE_VERIFIES_COUNT"] = 1 if ok else 0


# group -> (function, prefixes of the constants it defines).  A group that cannot be translated keeps the values of the
# previous Constants.v (so the development still builds) and is reported in the status file; a check fails closed only
# when the model files its property depends on mention a constant of a failed group (vlib.translator_problems).
GROUPS = [
    ("checksum", g_checksum, ("RC_MOD", "FRC_MOD", "FRC_INTERVAL")),
    ("blocksize", g_blocksize, ("BS_MIN_SYNC", "BS_MAX_SYNC", "BS_MIN_ASYNC", "BS_MAX_ASYNC", "BS_MIN_TABLE", "BS_MAX_TABLE", "SIG_PAR_THRESHOLD")),
    ("protocol", g_protocol, ("PROTO_", "MAX_PAYLOAD_SIZE", "HEADER_SIZE", "MT_")),
    ("wire", g_wire, ("WIRE_",)),
    ("archive", g_archive, ("ARCHIVE_FORMAT_VERSION",)),
    ("clibs", g_clibs, ("BS_MIN_CLI", "BS_MAX_CLI")),
    ("glob", g_glob, ("GLOB_", "PATH_SEP")),
    ("listing", g_listing, ("LISTING_",)),
    ("pushcmd", g_pushcmd, ("PUSH_",)),
]


def old_values():
    out = os.path.abspath(OUT)
    if not os.path.exists(out):
        return {}
    return {k: int(v) for k, v in re.findall(r"Definition (\w+) : Z := (-?\d+)\.", open(out).read())}


def gather():
    """returns (constants, failures[(group, why, [constant names kept from the previous file])])"""
    c, failures, old = {}, [], old_values()
    for name, fn, prefixes in GROUPS:
        part = {}
        try:
            fn(part)
            c.update(part)
        except Missing as e:
            kept = {k: v for k, v in old.items() if any(k.startswith(p) for p in prefixes)}
            if not kept:
                raise
            c.update(kept)
            failures.append((name, str(e), sorted(kept)))
    return c, failures


def render(c):
    lines = ["(* GENERATED by tools/gen_constants.py from /repo's current source. Do not edit. *)",
             "From Coq Require Import ZArith.", "Open Scope Z_scope.", ""]
    for k in sorted(c):
        lines.append("Definition %s : Z := %d." % (k, c[k]))
    lines.append("")
    return "\n".join(lines)


STATUS = os.environ.get("VERIF_CONST_STATUS", os.path.join(os.path.dirname(os.path.abspath(__file__)), "..", ".build", "translator_status.json"))


def main():
    import json
    try:
        c, failures = gather()
    except Missing as e:
        print("gen_constants: cannot find/evaluate: %s" % e, file=sys.stderr)
        return 2
    text = render(c)
    out = os.path.abspath(OUT)
    os.makedirs(os.path.dirname(out), exist_ok=True)
    old = open(out).read() if os.path.exists(out) else None
    if old != text:
        with open(out, "w") as f:
            f.write(text)
    os.makedirs(os.path.dirname(os.path.abspath(STATUS)), exist_ok=True)
    with open(os.path.abspath(STATUS), "w") as f:
        json.dump({"repo": REPO, "failed": [dict(group=g, why=w, constants=k) for g, w, k in failures]}, f, indent=1)
    for g, w, k in failures:
        print("gen_constants: group %s not translated (%s); previous values kept for %s" % (g, w, ", ".join(k)), file=sys.stderr)
    if "--print" in sys.argv:
        print(text)
    return 3 if failures else 0


if __name__ == "__main__":
    sys.exit(main())
