#!/bin/bash
# Re-check every compiled property file (and everything it depends on) with Coq's independent checker and print the
# axioms the whole development relies on.  Expected: `Axioms: <none>`, nothing relying on type-in-type, unsafe
# fixpoints or assumed positivity.  About one minute.  Run after ./setup.sh (needs the .vo files).
set -e
cd "$(dirname "$0")/../coq"
mods=$(ls Props/C*.v | sed 's|Props/\(C[0-9]*\)\.v|Copia.Props.\1|')
timeout 3000 coqchk -o -silent -Q . Copia $mods | sed -n '/CONTEXT SUMMARY/,$p'
