/* libvpsched: LD_PRELOAD shim that logs / gates / kills at the libc calls the copia binary makes.
 *
 * Environment:
 *   VPSCHED_WATCH=<substring>   only calls whose (resolved) path contains this are considered (pipes: see below)
 *   VPSCHED_LOG=<file>          append one line per considered call:  "<pid> <n> <M|R> <call> <path> [<path2>] [<extra>]"
 *                               (M = mutating: counted by KILL_AT; R = read-side: never counted)
 *   VPSCHED_KILL_AT=<k>         SIGKILL self immediately BEFORE the k-th mutating considered call
 *   VPSCHED_FAIL_AT=<k>         the k-th mutating considered call is NOT executed and fails with EIO (a survivable I/O fault)
 *   VPSCHED_PIPES=1             writes to pipes/sockets (other than fd 1/2) are considered mutating calls too
 *   VPSCHED_SOCK=<unix path>    gate mode: every considered call (and read(0) when VPSCHED_GATE_STDIN=1) is
 *                               announced to the controller ("<id> <M|R> <call> <path> ...\n") and the thread waits
 *                               for one byte: 'g' go, 'k' kill self (SIGKILL), 'b' (flock only) = report busy again.
 *   VPSCHED_ID=<name>           identity announced to the controller
 *   VPSCHED_ONLY=<name>         act only in processes whose executable's base name is <name> (default "copia");
 *                               helper processes (bash, cat, mv, xargs, ...) inherit the environment but are left alone
 * flock(LOCK_EX) in gate mode is turned into a non-blocking attempt; when the lock is busy the shim tells the
 * controller ("... flock-busy") and waits at the gate again, so a released process never blocks inside the kernel.
 * The shim never reorders, drops or alters a call. */
#define _GNU_SOURCE
#include <dlfcn.h>
#include <errno.h>
#include <fcntl.h>
#include <pthread.h>
#include <signal.h>
#include <stdarg.h>
#include <stdio.h>
#include <stdlib.h>
#include <string.h>
#include <sys/file.h>
#include <sys/socket.h>
#include <sys/stat.h>
#include <sys/types.h>
#include <sys/uio.h>
#include <sys/un.h>
#include <unistd.h>

static int (*real_open64)(const char *, int, ...);
static int (*real_openat64)(int, const char *, int, ...);
static ssize_t (*real_write)(int, const void *, size_t);
static ssize_t (*real_read)(int, void *, size_t);
static ssize_t (*real_writev)(int, const struct iovec *, int);
static int (*real_close)(int);
static pthread_mutex_t mu = PTHREAD_MUTEX_INITIALIZER;
static int mut_count = 0, all_count = 0, sock_fd = -2, inited = 0;
static const char *watch, *logf, *sockp, *ident;
static int kill_at = 0, fail_at = 0, pipes = 0, gate_stdin = 0, disabled = 0;
static int hold_ms = 0; /* VPSCHED_HOLD_MS: the call chosen by VPSCHED_KILL_AT is first held for that long (other threads go on), then the process is killed */
static __thread int pending_fail = 0;
static int take_fail(void) { if (pending_fail) { pending_fail = 0; errno = EIO; return 1; } return 0; }

static void init(void) {
  if (inited) return;
  inited = 1;
  real_open64 = dlsym(RTLD_NEXT, "open64");
  real_openat64 = dlsym(RTLD_NEXT, "openat64");
  real_write = dlsym(RTLD_NEXT, "write");
  real_read = dlsym(RTLD_NEXT, "read");
  real_writev = dlsym(RTLD_NEXT, "writev");
  real_close = dlsym(RTLD_NEXT, "close");
  watch = getenv("VPSCHED_WATCH");
  logf = getenv("VPSCHED_LOG");
  sockp = getenv("VPSCHED_SOCK");
  ident = getenv("VPSCHED_ID");
  if (!ident) ident = "?";
  const char *k = getenv("VPSCHED_KILL_AT");
  if (k) kill_at = atoi(k);
  { const char *h = getenv("VPSCHED_HOLD_MS"); if (h) hold_ms = atoi(h); }
  const char *fa = getenv("VPSCHED_FAIL_AT");
  if (fa) fail_at = atoi(fa);
  pipes = getenv("VPSCHED_PIPES") != NULL;
  gate_stdin = getenv("VPSCHED_GATE_STDIN") != NULL;
  {
    const char *only = getenv("VPSCHED_ONLY");
    if (!only) only = "copia";
    char exe[4096];
    ssize_t r = readlink("/proc/self/exe", exe, sizeof exe - 1);
    exe[r > 0 ? r : 0] = 0;
    const char *base = strrchr(exe, '/');
    base = base ? base + 1 : exe;
    if (*only && strcmp(base, only) != 0) disabled = 1;
  }
}

static void fd_path(int fd, char *out, size_t n) {
  char l[64];
  snprintf(l, sizeof l, "/proc/self/fd/%d", fd);
  ssize_t r = readlink(l, out, n - 1);
  out[r > 0 ? r : 0] = 0;
}

static void abs_path(const char *p, char *out, size_t n) {
  if (!p) { out[0] = 0; return; }
  if (p[0] == '/') { snprintf(out, n, "%s", p); return; }
  char cwd[2048];
  if (!getcwd(cwd, sizeof cwd)) cwd[0] = 0;
  snprintf(out, n, "%s/%s", cwd, p);
}

/* escape whitespace, control bytes and '%' so that a log / gate line stays one space-separated record */
static void esc(const char *in, char *out, size_t n) {
  size_t j = 0;
  if (!in || !*in) { snprintf(out, n, "-"); return; }
  for (size_t i = 0; in[i] && j + 4 < n; i++) {
    unsigned char c = (unsigned char)in[i];
    if (c <= 0x20 || c == '%' || c == 0x7f) j += snprintf(out + j, n - j, "%%%02X", c);
    else out[j++] = (char)c;
  }
  out[j] = 0;
}

static int considered(const char *a, const char *b) {
  if (!watch) return 1;
  return (a && strstr(a, watch)) || (b && strstr(b, watch));
}

/* returns 'g' normally; in gate mode the controller's answer */
static int announce(int mutating, const char *call, const char *a0, const char *b0, const char *extra) {
  char buf[20000], a[8192], b[8192];
  int ans = 'g';
  if (disabled) return ans;
  esc(a0, a, sizeof a);
  esc(b0, b, sizeof b);
  pthread_mutex_lock(&mu);
  int n_all = ++all_count;
  int n_mut = mutating ? ++mut_count : mut_count;
  if (logf) {
    int n = snprintf(buf, sizeof buf, "%d %d %c %s %s %s %s\n", getpid(), mutating ? n_mut : n_all, mutating ? 'M' : 'R', call,
                     a, b, extra ? extra : "-");
    int fd = real_open64(logf, O_WRONLY | O_APPEND | O_CREAT, 0644);
    if (fd >= 0) { ssize_t r = real_write(fd, buf, n); (void)r; real_close(fd); }
  }
  if (mutating && kill_at && n_mut == kill_at) {
    if (hold_ms > 0) { pthread_mutex_unlock(&mu); usleep((useconds_t)hold_ms * 1000); }
    kill(getpid(), SIGKILL); for (;;) pause();
  }
  if (mutating && fail_at && n_mut == fail_at) pending_fail = 1;
  if (sockp) {
    if (sock_fd == -2) {
      sock_fd = socket(AF_UNIX, SOCK_STREAM | SOCK_CLOEXEC, 0);
      struct sockaddr_un sa; memset(&sa, 0, sizeof sa); sa.sun_family = AF_UNIX;
      snprintf(sa.sun_path, sizeof sa.sun_path, "%s", sockp);
      if (sock_fd < 0 || connect(sock_fd, (struct sockaddr *)&sa, sizeof sa) != 0) sock_fd = -1;
    }
    if (sock_fd >= 0) {
      int n = snprintf(buf, sizeof buf, "%s %c %s %s %s %s\n", ident, mutating ? 'M' : 'R', call, a, b, extra ? extra : "-");
      if (real_write(sock_fd, buf, n) == n) {
        char c = 'g';
        ssize_t r = real_read(sock_fd, &c, 1);
        if (r == 1) ans = c;
      }
      if (ans == 'k') { kill(getpid(), SIGKILL); for (;;) pause(); }
    }
  }
  pthread_mutex_unlock(&mu);
  return ans;
}

static void gate_path(int mutating, const char *call, const char *p, const char *q, const char *extra) {
  init();
  char a[4096], b[4096];
  abs_path(p, a, sizeof a);
  abs_path(q, b, sizeof b);
  if (considered(a, q ? b : NULL)) announce(mutating, call, a, q ? b : NULL, extra);
}

/* fd-based data call: regular files that match WATCH; pipes/sockets (not fd 0/1/2) when VPSCHED_PIPES */
/* log-only record of a data call's RESULT (a pipe write may be partial): "<pid> 0 X ret - - <bytes>" */
static void note_ret(long ret) {
  if (disabled || !logf) return;
  char buf[128];
  int n = snprintf(buf, sizeof buf, "%d 0 X ret - - %ld\n", getpid(), ret);
  pthread_mutex_lock(&mu);
  int fd = real_open64(logf, O_WRONLY | O_APPEND | O_CREAT, 0644);
  if (fd >= 0) { ssize_t r = real_write(fd, buf, n); (void)r; real_close(fd); }
  pthread_mutex_unlock(&mu);
}

static int gate_fd(int mutating, const char *call, int fd, size_t len) {
  init();
  if (fd == sock_fd && fd >= 0) return 0;
  struct stat st;
  if (fstat(fd, &st) != 0) return 0;
  char a[4096], ex[64];
  snprintf(ex, sizeof ex, "%zu", len);
  if (S_ISREG(st.st_mode)) {
    fd_path(fd, a, sizeof a);
    if (logf && strcmp(a, logf) == 0) return 0;
    if (considered(a, NULL)) { announce(mutating, call, a, NULL, ex); return 1; }
  } else if (pipes && fd > 2 && (S_ISFIFO(st.st_mode) || S_ISSOCK(st.st_mode))) {
    announce(mutating, call, "pipe", NULL, ex);
    return 1;
  }
  return 0;
}

int open64(const char *p, int flags, ...) {
  mode_t m = 0;
  if (flags & (O_CREAT | O_TMPFILE)) { va_list ap; va_start(ap, flags); m = va_arg(ap, mode_t); va_end(ap); }
  init();
  int w = (flags & (O_WRONLY | O_RDWR | O_CREAT | O_TRUNC)) != 0;
  char ex[32]; snprintf(ex, sizeof ex, "%s%s", (flags & O_TRUNC) ? "T" : "", (flags & O_CREAT) ? "C" : "");
  gate_path(w, w ? "openw" : "openr", p, NULL, ex[0] ? ex : NULL);
  if (take_fail()) return -1;
  return real_open64(p, flags, m);
}
int open(const char *p, int flags, ...) {
  mode_t m = 0;
  if (flags & (O_CREAT | O_TMPFILE)) { va_list ap; va_start(ap, flags); m = va_arg(ap, mode_t); va_end(ap); }
  return open64(p, flags, m);
}
int openat64(int dfd, const char *p, int flags, ...) {
  mode_t m = 0;
  if (flags & (O_CREAT | O_TMPFILE)) { va_list ap; va_start(ap, flags); m = va_arg(ap, mode_t); va_end(ap); }
  init();
  if (dfd == AT_FDCWD || (p && p[0] == '/')) {
    int w = (flags & (O_WRONLY | O_RDWR | O_CREAT | O_TRUNC)) != 0;
    gate_path(w, w ? "openw" : "openr", p, NULL, NULL);
    if (take_fail()) return -1;
  }
  return real_openat64(dfd, p, flags, m);
}
int openat(int dfd, const char *p, int flags, ...) {
  mode_t m = 0;
  if (flags & (O_CREAT | O_TMPFILE)) { va_list ap; va_start(ap, flags); m = va_arg(ap, mode_t); va_end(ap); }
  return openat64(dfd, p, flags, m);
}

ssize_t write(int fd, const void *b, size_t n) {
  init();
  int g = (fd > 2) ? gate_fd(1, "write", fd, n) : 0;
  if (take_fail()) return -1;
  ssize_t r = real_write(fd, b, n);
  if (g) note_ret((long)r);
  return r;
}
ssize_t writev(int fd, const struct iovec *iov, int c) {
  init();
  int g = 0;
  if (fd > 2) { size_t t = 0; for (int i = 0; i < c; i++) t += iov[i].iov_len; g = gate_fd(1, "write", fd, t); }
  if (take_fail()) return -1;
  ssize_t r = real_writev(fd, iov, c);
  if (g) note_ret((long)r);
  return r;
}
ssize_t read(int fd, void *b, size_t n) {
  init();
  if (fd == 0 && gate_stdin && sockp) announce(0, "read0", "stdin", NULL, NULL);
  return real_read(fd, b, n);
}
ssize_t copy_file_range(int fi, off64_t *oi, int fo, off64_t *oo, size_t len, unsigned int fl) {
  static ssize_t (*real)(int, off64_t *, int, off64_t *, size_t, unsigned int);
  if (!real) real = dlsym(RTLD_NEXT, "copy_file_range");
  int g = gate_fd(1, "copy_file_range", fo, len);
  if (take_fail()) return -1;
  ssize_t r = real(fi, oi, fo, oo, len, fl);
  if (g) note_ret((long)r);
  return r;
}
ssize_t sendfile64(int out, int in, off64_t *off, size_t len) {
  static ssize_t (*real)(int, int, off64_t *, size_t);
  if (!real) real = dlsym(RTLD_NEXT, "sendfile64");
  int g = (out > 2) ? gate_fd(1, "sendfile", out, len) : 0;
  if (take_fail()) return -1;
  ssize_t r = real(out, in, off, len);
  if (g) note_ret((long)r);
  return r;
}
ssize_t splice(int fi, off64_t *oi, int fo, off64_t *oo, size_t len, unsigned int fl) {
  static ssize_t (*real)(int, off64_t *, int, off64_t *, size_t, unsigned int);
  if (!real) real = dlsym(RTLD_NEXT, "splice");
  int g = (fo > 2) ? gate_fd(1, "splice", fo, len) : 0;
  if (take_fail()) return -1;
  ssize_t r = real(fi, oi, fo, oo, len, fl);
  if (g) note_ret((long)r);
  return r;
}
int fsync(int fd) {
  static int (*real)(int);
  if (!real) real = dlsym(RTLD_NEXT, "fsync");
  init();
  struct stat st; char a[4096];
  if (fstat(fd, &st) == 0 && (S_ISREG(st.st_mode) || S_ISDIR(st.st_mode))) {
    fd_path(fd, a, sizeof a);
    if (considered(a, NULL)) announce(1, S_ISDIR(st.st_mode) ? "fsyncdir" : "fsync", a, NULL, NULL);
  }
  if (take_fail()) return -1;
  return real(fd);
}
int fdatasync(int fd) {
  static int (*real)(int);
  if (!real) real = dlsym(RTLD_NEXT, "fdatasync");
  gate_fd(1, "fsync", fd, 0);
  if (take_fail()) return -1;
  return real(fd);
}
int rename(const char *o, const char *n) {
  static int (*real)(const char *, const char *);
  if (!real) real = dlsym(RTLD_NEXT, "rename");
  gate_path(1, "rename", o, n, NULL);
  if (take_fail()) return -1;
  return real(o, n);
}
int unlink(const char *p) {
  static int (*real)(const char *);
  if (!real) real = dlsym(RTLD_NEXT, "unlink");
  gate_path(1, "unlink", p, NULL, NULL);
  if (take_fail()) return -1;
  return real(p);
}
int rmdir(const char *p) {
  static int (*real)(const char *);
  if (!real) real = dlsym(RTLD_NEXT, "rmdir");
  gate_path(1, "rmdir", p, NULL, NULL);
  if (take_fail()) return -1;
  return real(p);
}
int mkdir(const char *p, mode_t m) {
  static int (*real)(const char *, mode_t);
  if (!real) real = dlsym(RTLD_NEXT, "mkdir");
  gate_path(1, "mkdir", p, NULL, NULL);
  if (take_fail()) return -1;
  return real(p, m);
}
int futimens(int fd, const struct timespec t[2]) {
  static int (*real)(int, const struct timespec[2]);
  if (!real) real = dlsym(RTLD_NEXT, "futimens");
  gate_fd(1, "futimens", fd, 0);
  if (take_fail()) return -1;
  return real(fd, t);
}
int ftruncate64(int fd, off64_t l) {
  static int (*real)(int, off64_t);
  if (!real) real = dlsym(RTLD_NEXT, "ftruncate64");
  gate_fd(1, "ftruncate", fd, (size_t)l);
  if (take_fail()) return -1;
  return real(fd, l);
}
int flock(int fd, int op) {
  static int (*real)(int, int);
  if (!real) real = dlsym(RTLD_NEXT, "flock");
  init();
  char a[4096];
  fd_path(fd, a, sizeof a);
  if (!considered(a, NULL)) return real(fd, op);
  if ((op & ~LOCK_NB) == LOCK_UN) { announce(0, "funlock", a, NULL, NULL); return real(fd, op); }
  if (!sockp) { announce(0, "flock", a, NULL, NULL); return real(fd, op); }
  for (;;) {
    announce(0, "flock", a, NULL, NULL);
    int r = real(fd, op | LOCK_NB);
    if (r == 0 || errno != EWOULDBLOCK || (op & LOCK_NB)) return r;
    announce(0, "flock-busy", a, NULL, NULL);
  }
}
static void gate_stat(const char *call, const char *p) { gate_path(0, call, p, NULL, NULL); }
int stat64(const char *p, struct stat64 *s) {
  static int (*real)(const char *, struct stat64 *);
  if (!real) real = dlsym(RTLD_NEXT, "stat64");
  gate_stat("stat", p);
  return real(p, s);
}
int lstat64(const char *p, struct stat64 *s) {
  static int (*real)(const char *, struct stat64 *);
  if (!real) real = dlsym(RTLD_NEXT, "lstat64");
  gate_stat("lstat", p);
  return real(p, s);
}
int statx(int dfd, const char *p, int flags, unsigned int mask, struct statx *s) {
  static int (*real)(int, const char *, int, unsigned int, struct statx *);
  if (!real) real = dlsym(RTLD_NEXT, "statx");
  init();
  if (p && p[0] && (dfd == AT_FDCWD || p[0] == '/')) gate_stat((flags & AT_SYMLINK_NOFOLLOW) ? "lstat" : "stat", p);
  return real(dfd, p, flags, mask, s);
}
