(** Model of `copia sync -r SRC DST` (src/bin/copia/incremental.rs: run_local /
    run_remote, after the repairs recorded in KNOWN_FINDINGS.txt) on trees of
    regular files.  A tree is a BTreeMap-like association list path -> (bytes,
    whole-second mtime); the plan is Model/Plan.v's [build_plan] on the (size,
    mtime) metadata of both sides.  The three directions differ only in the
    transport (local copy / remote `cat` through the shell, Model/ShellQuote.v);
    their effect on the destination tree is the same function:

      deliveries: for every path of plan.transfer, in ANY completion order
                  ([order], a permutation - every --jobs n >= 1 yields one), the
                  destination entry becomes (source bytes, source whole-second
                  mtime); a failed delivery ([fail p]) leaves the entry untouched
                  and makes the exit status non-zero;
      deletes:    afterwards every path of plan.delete is removed. *)
From Coq Require Import ZArith List Bool.
From Copia Require Import Model.Path Model.Glob Model.Plan.
Import ListNotations.
Open Scope Z_scope.

Record file := { f_bytes : list Z; f_mtime : Z }.
Definition tree := list (list Z * file).

Definition t_get (p : list Z) (t : tree) : option file := al_get path_cmp p t.
Definition t_set (p : list Z) (f : file) (t : tree) : tree := al_insert path_cmp p f t.
Fixpoint t_remove (p : list Z) (t : tree) : tree :=
  match t with
  | [] => []
  | (k, v) :: r => if keq path_cmp p k then t_remove p r else (k, v) :: t_remove p r
  end.

(** discover_*_with_meta: size and whole-second mtime of every file *)
Definition meta_of (t : tree) : metamap :=
  map (fun kv => (fst kv, {| fm_size := Z.of_nat (length (f_bytes (snd kv))); fm_mtime := f_mtime (snd kv) |})) t.

Record opts := { o_delete : bool; o_excludes : list (list Z); o_dry_run : bool }.

Definition deliver (src : tree) (fail : list Z -> bool) (d : tree) (p : list Z) : tree :=
  if fail p then d
  else match t_get p src with Some f => t_set p f d | None => d end.

Inductive kind := NoFiles | DryRun | UpToDate | Ran.

Record result := { r_dst : tree; r_exit_ok : bool; r_plan : sync_plan; r_kind : kind;
                   r_sent : Z; r_failed : Z }.

Definition plan_of (src dst : tree) (o : opts) : sync_plan :=
  build_plan (meta_of src) (meta_of dst) (o_excludes o) (o_delete o).

Definition empty_plan : sync_plan := {| transfer := []; skipped := 0; sp_delete := [] |}.

Definition run_oneway (src dst : tree) (o : opts) (order : list (list Z)) (fail : list Z -> bool) : result :=
  match src, o_delete o with
  | [], false => {| r_dst := dst; r_exit_ok := true; r_plan := empty_plan; r_kind := NoFiles; r_sent := 0; r_failed := 0 |}
  | _, _ =>
    let plan := plan_of src dst o in
    if o_dry_run o then
      {| r_dst := dst; r_exit_ok := true; r_plan := plan; r_kind := DryRun; r_sent := 0; r_failed := 0 |}
    else match transfer plan, sp_delete plan with
    | [], [] => {| r_dst := dst; r_exit_ok := true; r_plan := plan; r_kind := UpToDate; r_sent := 0; r_failed := 0 |}
    | _, _ =>
      let d1 := fold_left (deliver src fail) order dst in
      let d2 := fold_left (fun d p => t_remove p d) (sp_delete plan) d1 in
      let nfail := Z.of_nat (length (filter fail order)) in
      {| r_dst := d2; r_exit_ok := (nfail =? 0); r_plan := plan; r_kind := Ran;
         r_sent := Z.of_nat (length order) - nfail; r_failed := nfail |}
    end
  end.
