(** The effects bidir.rs `apply` performs, as data, and what they do to the working state of Model/Bisync.v.

    tools/gen_logic.py translates `apply` from the current source into the LIST of effects it performs for one planned
    action (Gen/BisyncApplyGen.v): every `copy_atomic(x, y)?`, `remove_file(x)`, `common.insert(p, fp)`,
    `common.remove(p)` and `conflicts.push(p)` in program order.  [run_effs] executes such a list on the model's
    working state: a failed copy (missing source) sets the error flag and every later effect of the run is skipped -
    exactly what `?` does in the source (the function returns, and `run_bisync` stops at `apply(..)?`). *)
From stdpp Require Import gmap.
From Copia Require Import Model.Bisync.

Section Effects.
Context `{Countable K} {D : Type} `{EqDecision D}.
Notation content := (list Z).

Inductive eff :=
| ECopy (from to : side * K)       (* copy_atomic(root(from.1)/from.2, root(to.1)/to.2)? *)
| ERemove (at_ : side * K)         (* let _ = remove_file(..) *)
| ERecord (p : K) (d : D)          (* common.insert(p, fp) *)
| EForget (p : K)                  (* common.remove(p) *)
| EConflict (p : K).               (* conflicts.push(p) *)

Definition tree_of (s : side) (w : @work K _ _ D) : gmap K content := match s with SA => wA w | SB => wB w end.
Definition set_tree (s : side) (t : gmap K content) (w : @work K _ _ D) : @work K _ _ D :=
  match s with
  | SA => {| wA := t; wB := wB w; wC := wC w; wConf := wConf w; wErr := wErr w |}
  | SB => {| wA := wA w; wB := t; wC := wC w; wConf := wConf w; wErr := wErr w |}
  end.

Definition run_eff (w : @work K _ _ D) (e : eff) : @work K _ _ D :=
  if wErr w then w else
  match e with
  | ECopy (fs, fp) (ts, tp) =>
      match copy (tree_of fs w) fp (tree_of ts w) tp with
      | Some t' => set_tree ts t' w
      | None => fail w
      end
  | ERemove (s, p) => set_tree s (delete p (tree_of s w)) w
  | ERecord p d => {| wA := wA w; wB := wB w; wC := <[p := d]> (wC w); wConf := wConf w; wErr := wErr w |}
  | EForget p => {| wA := wA w; wB := wB w; wC := delete p (wC w); wConf := wConf w; wErr := wErr w |}
  | EConflict _ => {| wA := wA w; wB := wB w; wC := wC w; wConf := S (wConf w); wErr := wErr w |}
  end.

Definition run_effs (w : @work K _ _ D) (es : list eff) : @work K _ _ D := foldl run_eff w es.
End Effects.
