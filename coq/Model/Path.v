(** Paths as the CLI sees them.

    A path is the raw string a [PathBuf] was built from ([list Z]; an element is a
    byte - or a Unicode scalar value: nothing here or in Glob.v/Plan.v looks inside
    a multi-byte character, the only elements inspected are the ASCII ones
    [/ . * ?]).  [PathBuf]'s [Eq]/[Ord] do NOT compare the string: they compare
    [Path::components()] (std/src/path.rs, Unix: [RootDir] for a leading [/],
    [CurDir] only for a leading [.] component, [ParentDir] for [..], [Normal]
    otherwise; empty components and inner [.] dropped), with the derived order of
    [enum Component] (RootDir < CurDir < ParentDir < Normal(bytes)), lexicographically.
    A [BTreeMap<PathBuf, _>] is therefore a list of (raw string, value) strictly
    sorted by [path_cmp]; [insert] on an equal key keeps the OLD key string and
    replaces the value; [get]/[contains_key] find the entry whose key compares Equal.

    The generic part (section [Ordered]) is used with [path_cmp] by Plan.v, Listing.v
    and Reconcile.v. *)
From Coq Require Import ZArith List Bool.
Import ListNotations.
Open Scope Z_scope.

Definition SLASH : Z := 47.
Definition DOT : Z := 46.

(** [s.split(sep)]: always at least one piece. *)
Fixpoint split_on (sep : Z) (s : list Z) : list (list Z) :=
  match s with
  | [] => [[]]
  | x :: r =>
      if x =? sep then [] :: split_on sep r
      else match split_on sep r with
           | h :: tl => (x :: h) :: tl
           | [] => [[x]]
           end
  end.

Inductive comp := CRoot | CCur | CParent | CNormal (s : list Z).

(** Components::parse_single_component (non-verbatim): "" and "." yield nothing. *)
Definition classify (part : list Z) : option comp :=
  match part with
  | [] => None
  | [a] => if a =? DOT then None else Some (CNormal part)
  | [a; b] => if (a =? DOT) && (b =? DOT) then Some CParent else Some (CNormal part)
  | _ => Some (CNormal part)
  end.

Fixpoint filter_map {A B : Type} (f : A -> option B) (l : list A) : list B :=
  match l with
  | [] => []
  | x :: r => match f x with Some y => y :: filter_map f r | None => filter_map f r end
  end.

Definition is_dot (part : list Z) : bool :=
  match part with [a] => a =? DOT | _ => false end.

(** Path::components() on Unix. *)
Definition components (s : list Z) : list comp :=
  match s with
  | [] => []
  | x :: _ =>
      if x =? SLASH then CRoot :: filter_map classify (split_on SLASH s)
      else match split_on SLASH s with
           | first :: rest =>
               if is_dot first then CCur :: filter_map classify rest      (* include_cur_dir *)
               else filter_map classify (first :: rest)
           | [] => []
           end
  end.

(** Lexicographic order on byte strings ([OsStr]'s [Ord] = byte-wise). *)
Fixpoint bytes_cmp (a b : list Z) : comparison :=
  match a, b with
  | [], [] => Eq
  | [], _ :: _ => Lt
  | _ :: _, [] => Gt
  | x :: a', y :: b' => match x ?= y with Eq => bytes_cmp a' b' | c => c end
  end.

Definition comp_rank (c : comp) : Z :=
  match c with CRoot => 1 | CCur => 2 | CParent => 3 | CNormal _ => 4 end.

(** #[derive(Ord)] on [enum Component]. *)
Definition comp_cmp (a b : comp) : comparison :=
  match a, b with
  | CNormal x, CNormal y => bytes_cmp x y
  | _, _ => comp_rank a ?= comp_rank b
  end.

Fixpoint comps_cmp (a b : list comp) : comparison :=
  match a, b with
  | [], [] => Eq
  | [], _ :: _ => Lt
  | _ :: _, [] => Gt
  | x :: a', y :: b' => match comp_cmp x y with Eq => comps_cmp a' b' | c => c end
  end.

(** [impl Ord for Path]: Iterator::cmp of the component iterators. *)
Definition path_cmp (a b : list Z) : comparison := comps_cmp (components a) (components b).

(** ** Ordered association lists (BTreeMap) and sorting, generic in the key order *)
Section Ordered.
Variable K : Type.
Variable cmp : K -> K -> comparison.
Variable V : Type.

Definition keq (a b : K) : bool := match cmp a b with Eq => true | _ => false end.

(** BTreeMap::get *)
Fixpoint al_get (k : K) (m : list (K * V)) : option V :=
  match m with
  | [] => None
  | (k', v) :: r => if keq k k' then Some v else al_get k r
  end.

(** BTreeMap::contains_key *)
Definition al_mem (k : K) (m : list (K * V)) : bool :=
  match al_get k m with Some _ => true | None => false end.

(** BTreeMap::insert: keeps the map sorted; an equal key keeps its old key
    string and gets the new value. *)
Fixpoint al_insert (k : K) (v : V) (m : list (K * V)) : list (K * V) :=
  match m with
  | [] => [(k, v)]
  | (k', v') :: r =>
      match cmp k k' with
      | Lt => (k, v) :: m
      | Eq => (k', v) :: r
      | Gt => (k', v') :: al_insert k v r
      end
  end.

(** Stable sort by [cmp] ([slice::sort]; for the inputs the CLI produces -
    pairwise different keys - [sort_unstable] gives the same list). *)
Fixpoint sort_insert (k : K) (l : list K) : list K :=
  match l with
  | [] => [k]
  | k' :: r => match cmp k k' with Gt => k' :: sort_insert k r | _ => k :: l end
  end.
(* an element is placed BEFORE the first element that is not smaller: folding
   from the right keeps equal elements in their original order *)
Definition sort_keys (l : list K) : list K := fold_right sort_insert [] l.

(** Vec::dedup: drops every element equal (==) to the last retained one. *)
Fixpoint dedup_from (prev : K) (l : list K) : list K :=
  match l with
  | [] => []
  | y :: r => if keq prev y then dedup_from prev r else y :: dedup_from y r
  end.
Definition dedup_keys (l : list K) : list K :=
  match l with [] => [] | x :: r => x :: dedup_from x r end.
End Ordered.
Arguments keq {K} cmp a b.
Arguments al_get {K} cmp {V} k m.
Arguments al_mem {K} cmp {V} k m.
Arguments al_insert {K} cmp {V} k v m.
Arguments sort_insert {K} cmp k l.
Arguments sort_keys {K} cmp l.
Arguments dedup_from {K} cmp prev l.
Arguments dedup_keys {K} cmp l.
