(** Model of src/protocol.rs: [MessageType::from_u8], [FrameHeader]
    (new / validate / encode / decode / read_from), [Message::msg_type],
    [Codec::write_message] / [Codec::read_message] as functions on byte lists,
    and of the top of [run_delta] / [run_patch] in src/bin/copia/main.rs.

    Errors carry the kind that the implementation reports (the text prefix of
    [CopiaError::ProtocolError] resp. [CopiaError::Io]), so the ORDER of the
    checks is part of the compared behaviour. *)
From Coq Require Import ZArith List Bool.
From Copia Require Import Gen.Constants Model.Checksum Model.Delta Model.Bincode.
Import ListNotations.
Open Scope Z_scope.

Inductive perr :=
| EIo        (* CopiaError::Io: read_exact hit the end of the input *)
| EType      (* "Invalid message type" *)
| EMagic     (* "Invalid magic" *)
| EVersion   (* "Unsupported version" *)
| ELength    (* "Payload too large" *)
| EDecode    (* "Failed to decode message" *)
| EPayload.  (* write side: "Payload too large for u32" / "Payload exceeds maximum size" *)
Inductive res (A : Type) := ROk (a : A) | RErr (e : perr).
Arguments ROk {A} a.
Arguments RErr {A} e.

(** ** MessageType *)
Inductive mtype := TSigReq | TSigResp | TDeltaData | TAck | TError | TPing | TPong.
Definition mt_code (t : mtype) : Z :=
  match t with
  | TSigReq => MT_SIGNATUREREQUEST | TSigResp => MT_SIGNATURERESPONSE | TDeltaData => MT_DELTADATA
  | TAck => MT_ACK | TError => MT_ERROR | TPing => MT_PING | TPong => MT_PONG
  end.
Definition from_u8 (b : Z) : option mtype :=
  if b =? MT_SIGNATUREREQUEST then Some TSigReq
  else if b =? MT_SIGNATURERESPONSE then Some TSigResp
  else if b =? MT_DELTADATA then Some TDeltaData
  else if b =? MT_ACK then Some TAck
  else if b =? MT_ERROR then Some TError
  else if b =? MT_PING then Some TPing
  else if b =? MT_PONG then Some TPong
  else None.

(** ** FrameHeader *)
Record header := { h_m0 : Z; h_m1 : Z; h_m2 : Z; h_m3 : Z;
                   h_length : Z; h_type : mtype; h_version : Z; h_flags : Z }.

Definition magic_ok (a b c d : Z) : bool :=
  (a =? PROTO_MAGIC0) && (b =? PROTO_MAGIC1) && (c =? PROTO_MAGIC2) && (d =? PROTO_MAGIC3).

Definition header_new (t : mtype) (len : Z) : header :=
  {| h_m0 := PROTO_MAGIC0; h_m1 := PROTO_MAGIC1; h_m2 := PROTO_MAGIC2; h_m3 := PROTO_MAGIC3;
     h_length := len; h_type := t; h_version := PROTO_VERSION; h_flags := 0 |}.

(** validate: magic, then version, then length *)
Definition hvalidate (h : header) : res unit :=
  if negb (magic_ok (h_m0 h) (h_m1 h) (h_m2 h) (h_m3 h)) then RErr EMagic
  else if negb (h_version h =? PROTO_VERSION) then RErr EVersion
  else if h_length h >? MAX_PAYLOAD_SIZE then RErr ELength
  else ROk tt.

Definition header_encode (h : header) : list Z :=
  [h_m0 h; h_m1 h; h_m2 h; h_m3 h] ++ put_u32 (h_length h) ++
  [mt_code (h_type h); h_version h] ++ put_u16 (h_flags h).

(** encode carries [debug_assert_eq!(buf[0], b'C')]: with debug assertions on
    (the harness's checked profile) a header whose first magic byte is not 'C'
    panics ([None]); the shipped profile never does. *)
Definition header_encode_ck (checked : bool) (h : header) : option (list Z) :=
  if checked && negb (h_m0 h =? 67) then None else Some (header_encode h).

(** decode takes a [&[u8; 12]]: the type byte is converted FIRST (from_u8), the
    other fields are only looked at by [hvalidate] afterwards.  A list of another
    length cannot be passed in Rust; the model answers [EIo] for it. *)
Definition header_decode (buf : list Z) : res header :=
  match buf with
  | [b0; b1; b2; b3; b4; b5; b6; b7; b8; b9; b10; b11] =>
      match from_u8 b8 with
      | None => RErr EType
      | Some t =>
          let h := {| h_m0 := b0; h_m1 := b1; h_m2 := b2; h_m3 := b3;
                      h_length := b4 + 256 * (b5 + 256 * (b6 + 256 * b7));
                      h_type := t; h_version := b9; h_flags := b10 + 256 * b11 |} in
          match hvalidate h with RErr e => RErr e | ROk _ => ROk h end
      end
  | _ => RErr EIo
  end.

(** read_from: read_exact of HEADER_SIZE bytes (short input = Io error), magic
    pre-check, then decode.  Returns the header and the unread input. *)
Definition read_from (inp : list Z) : res (header * list Z) :=
  match get_raw (Z.to_nat HEADER_SIZE) inp with
  | None => RErr EIo
  | Some (buf, rest) =>
      match buf with
      | b0 :: b1 :: b2 :: b3 :: _ =>
          if magic_ok b0 b1 b2 b3 then
            match header_decode buf with RErr e => RErr e | ROk h => ROk (h, rest) end
          else RErr EMagic
      | _ => RErr EIo
      end
  end.

(** ** Message / Codec *)
Definition msg_type (m : message) : mtype :=
  match m with
  | MSigReq _ _ => TSigReq | MSigResp _ _ => TSigResp | MDeltaData _ _ => TDeltaData
  | MAck _ _ _ => TAck | MError _ _ => TError | MPing _ => TPing | MPong _ => TPong
  end.

(** write_message: the payload length must fit a u32 and must not exceed
    MAX_PAYLOAD_SIZE (two ProtocolErrors, one kind here: 2^32 > MAX). *)
Definition write_message (m : message) : res (list Z) :=
  let payload := encode_message m in
  let len := zlen payload in
  if (len >=? P32) || (len >? MAX_PAYLOAD_SIZE) then RErr EPayload
  else ROk (header_encode (header_new (msg_type m) len) ++ payload).

Section Utf8.
Variable utf8 : list Z -> bool.

(** read_message: read_from, validate (again), [read_buf.resize(length)],
    read_exact of the payload (short = Io error), Message::decode of exactly
    the payload.  The first component is the size the frame buffer was resized
    to (0 when the header was refused before the resize). *)
Definition read_message (inp : list Z) : Z * res (message * list Z) :=
  match read_from inp with
  | RErr e => (0, RErr e)
  | ROk (h, rest) =>
      match hvalidate h with
      | RErr e => (0, RErr e)
      | ROk _ =>
          (h_length h,
           match get_seq get_u8 (length rest) (h_length h) rest with
           | None => RErr EIo
           | Some (payload, rest') =>
               match decode_message utf8 payload with
               | None => RErr EDecode
               | Some (m, _) => ROk (m, rest')
               end
           end)
      end
  end.
End Utf8.

(** ** The CLI readers (src/bin/copia/main.rs, after fix 4496343)

    run_delta:  sig = bincode::deserialize(file)?;  validate_block_size(sig.block_size)?;
                AsyncCopiaSync::with_block_size(sig.block_size) ... engine
    run_patch:  same with [delta.block_size as usize].
    A [?] failure makes main print the error and exit with status 1.
    [with_block_size] asserts [engine_assert]; since the fix the value has been
    validated first, so this model has NO panic outcome - that it needs none is
    theorem C20_cli_hostile_file_reports_error (the bounds of the two checks are
    separate regenerated constants). *)
Inductive cli_outcome (A : Type) := CliError | Proceed (a : A).
Arguments CliError {A}.
Arguments Proceed {A} a.

(** usize::is_power_of_two: exactly one bit set *)
Fixpoint pos_is_pow2 (p : positive) : bool :=
  match p with xH => true | xO q => pos_is_pow2 q | xI _ => false end.
Definition is_pow2 (n : Z) : bool := match n with Zpos p => pos_is_pow2 p | _ => false end.

(** main.rs validate_block_size: power of two first, then the range *)
Definition validate_block_size (n : Z) : bool :=
  if negb (is_pow2 n) then false
  else if negb ((BS_MIN_CLI <=? n) && (n <=? BS_MAX_CLI)) then false
  else true.
(** the assertion inside AsyncCopiaSync::with_block_size *)
Definition engine_assert (n : Z) : bool :=
  is_pow2 n && ((BS_MIN_ASYNC <=? n) && (n <=? BS_MAX_ASYNC)).

Definition run_delta_top (sigfile : list Z) : cli_outcome sigZ :=
  match decode_signature sigfile with
  | None => CliError
  | Some (s, _) => if validate_block_size (s_block_size _ s) then Proceed s else CliError
  end.
Definition run_patch_top (deltafile : list Z) : cli_outcome deltaZ :=
  match decode_delta deltafile with
  | None => CliError
  | Some (d, _) => if validate_block_size (d_block_size _ d) then Proceed d else CliError
  end.
