(** Model of `copia bisync A B` (src/bin/copia/bidir.rs + reconcile.rs on regular
    files, after the repair recorded in KNOWN_FINDINGS.txt: base entries of paths
    absent from both scans are dropped before the plan is applied).

    Trees are maps path -> content; the recorded common state ("archive") is an
    optional map path -> digest ([None] = missing / damaged / foreign archive:
    safe no-base mode).  A run:
      1. scan: a := H <$> A, b := H <$> B
      2. plan := the non-Noop per-path decisions over the sorted union of the keys
      3. common := base restricted to paths present in a scan; then every action is
         applied IN PLAN ORDER against the CURRENT trees (a copy reads whatever is at
         the source path now; the recorded digest comes from the scan)
      4. the archive becomes [Some common]; exit status non-zero iff a
         both-changed conflict was applied.
    A copy whose source does not exist is an I/O error: the run stops and the
    archive is NOT written. *)
From stdpp Require Import gmap sorting.

Section Bisync.
Context `{Countable K}.
Context {D : Type} `{EqDecision D}.
Notation content := (list Z).
Variable Hh : content -> D.               (* BLAKE3 *)
Variable dge : D -> D -> bool.            (* fa.blake3 >= fb.blake3 (byte-wise) *)
Variable cname : K -> D -> K.             (* <p>.conflict-<host>-<hex12 d> *)
Variable kle : K -> K -> bool.            (* PathBuf order *)

Inductive action := PropAB | PropBA | Converge | DelA | DelB | ConfBoth | ConfDelMod.

(** reconcile_path on regular files; [None] = Noop *)
Definition rpath (a b z : option D) : option action :=
  match a, b with
  | None, None => None
  | Some av, Some bv =>
      if decide (av = bv) then
        (if decide (z = Some av) then None else Some Converge)
      else
        let a_changed := bool_decide (z <> Some av) in
        let b_changed := bool_decide (z <> Some bv) in
        match a_changed, b_changed with
        | true, false => Some PropAB
        | false, true => Some PropBA
        | _, _ => Some ConfBoth
        end
  | Some av, None =>
      match z with
      | None => Some PropAB
      | Some zv => if decide (av = zv) then Some DelA else Some ConfDelMod
      end
  | None, Some bv =>
      match z with
      | None => Some PropBA
      | Some zv => if decide (bv = zv) then Some DelB else Some ConfDelMod
      end
  end.

Record state := { tA : gmap K content; tB : gmap K content; arch : option (gmap K D) }.

Definition scan (t : gmap K content) : gmap K D := Hh <$> t.

Definition plan_keys (a b : gmap K D) : list K :=
  merge_sort (fun x y => kle x y) (elements (dom a ∪ dom b)).

Definition base_at (base : option (gmap K D)) (p : K) : option D :=
  match base with Some z => z !! p | None => None end.

Definition plan (a b : gmap K D) (base : option (gmap K D)) : list (K * action) :=
  omap (fun p => match rpath (a !! p) (b !! p) (base_at base p) with
                 | Some act => Some (p, act) | None => None end) (plan_keys a b).

(** working state of the apply loop *)
Record work := { wA : gmap K content; wB : gmap K content; wC : gmap K D; wConf : nat; wErr : bool }.

(** copy_atomic src -> dst; [None] source = I/O error *)
Definition copy (from : gmap K content) (p : K) (to : gmap K content) (q : K) : option (gmap K content) :=
  match from !! p with Some c => Some (<[q := c]> to) | None => None end.

Definition set_opt (c : gmap K D) (p : K) (d : option D) : gmap K D :=
  match d with Some v => <[p := v]> c | None => c end.

Definition fail (w : work) : work := {| wA := wA w; wB := wB w; wC := wC w; wConf := wConf w; wErr := true |}.

Definition apply (a b : gmap K D) (w : work) (pa : K * action) : work :=
  if wErr w then w else
  let '(p, act) := pa in
  match act with
  | Converge => {| wA := wA w; wB := wB w; wC := set_opt (wC w) p (a !! p); wConf := wConf w; wErr := false |}
  | PropAB =>
      match copy (wA w) p (wB w) p with
      | Some b' => {| wA := wA w; wB := b'; wC := set_opt (wC w) p (a !! p); wConf := wConf w; wErr := false |}
      | None => fail w
      end
  | PropBA =>
      match copy (wB w) p (wA w) p with
      | Some a' => {| wA := a'; wB := wB w; wC := set_opt (wC w) p (b !! p); wConf := wConf w; wErr := false |}
      | None => fail w
      end
  | DelA => {| wA := delete p (wA w); wB := wB w; wC := delete p (wC w); wConf := wConf w; wErr := false |}
  | DelB => {| wA := wA w; wB := delete p (wB w); wC := delete p (wC w); wConf := wConf w; wErr := false |}
  | ConfDelMod =>
      match a !! p, b !! p with
      | Some _, _ =>
          match copy (wA w) p (wB w) p with
          | Some b' => {| wA := wA w; wB := b'; wC := set_opt (wC w) p (a !! p); wConf := wConf w; wErr := false |}
          | None => fail w
          end
      | None, Some _ =>
          match copy (wB w) p (wA w) p with
          | Some a' => {| wA := a'; wB := wB w; wC := set_opt (wC w) p (b !! p); wConf := wConf w; wErr := false |}
          | None => fail w
          end
      | None, None => w
      end
  | ConfBoth =>
      match a !! p, b !! p with
      | Some fa, Some fb =>
          (* winner = greater digest, ties to A *)
          if dge fa fb then
            (* loser is B: B's p -> q on B, then on A; A's p -> B's p *)
            let q := cname p fb in
            match copy (wB w) p (wB w) q with
            | None => fail w
            | Some b1 =>
              match copy b1 p (wA w) q with
              | None => fail w
              | Some a1 =>
                match copy a1 p b1 p with
                | None => fail w
                | Some b2 => {| wA := a1; wB := b2; wC := <[q := fb]> (<[p := fa]> (wC w));
                                wConf := S (wConf w); wErr := false |}
                end
              end
            end
          else
            let q := cname p fa in
            match copy (wA w) p (wA w) q with
            | None => fail w
            | Some a1 =>
              match copy a1 p (wB w) q with
              | None => fail w
              | Some b1 =>
                match copy b1 p a1 p with
                | None => fail w
                | Some a2 => {| wA := a2; wB := b1; wC := <[q := fa]> (<[p := fb]> (wC w));
                                wConf := S (wConf w); wErr := false |}
                end
              end
            end
      | _, _ => w
      end
  end.

Inductive exit := ExitOk | ExitConflicts | ExitIoError.

Definition prune (base : gmap K D) (a b : gmap K D) : gmap K D :=
  filter (fun kv => is_Some (a !! fst kv) \/ is_Some (b !! fst kv)) base.

Definition bisync_run (s : state) : state * exit * list (K * action) :=
  let a := scan (tA s) in
  let b := scan (tB s) in
  let pl := plan a b (arch s) in
  let c0 := match arch s with Some z => prune z a b | None => ∅ end in
  let w := foldl (apply a b) {| wA := tA s; wB := tB s; wC := c0; wConf := 0; wErr := false |} pl in
  if wErr w then ({| tA := wA w; tB := wB w; arch := arch s |}, ExitIoError, pl)
  else ({| tA := wA w; tB := wB w; arch := Some (wC w) |},
        (if decide (wConf w = 0) then ExitOk else ExitConflicts), pl).

(** dry run: prints the plan, touches nothing *)
Definition bisync_dry (s : state) : state * list (K * action) :=
  (s, plan (scan (tA s)) (scan (tB s)) (arch s)).

(** ** Histories (the quantifier of C02 / C06 / C07) *)
Inductive side := SA | SB.
Inductive hop :=
| HWrite (sd : side) (p : K) (c : content)
| HDelete (sd : side) (p : K)
| HRun
| HFault.                                  (* archive lost / damaged / foreign *)

Definition hstep (s : state) (o : hop) : state :=
  match o with
  | HWrite SA p c => {| tA := <[p := c]> (tA s); tB := tB s; arch := arch s |}
  | HWrite SB p c => {| tA := tA s; tB := <[p := c]> (tB s); arch := arch s |}
  | HDelete SA p => {| tA := delete p (tA s); tB := tB s; arch := arch s |}
  | HDelete SB p => {| tA := tA s; tB := delete p (tB s); arch := arch s |}
  | HRun => fst (fst (bisync_run s))
  | HFault => {| tA := tA s; tB := tB s; arch := None |}
  end.

Definition hrun (s : state) (ops : list hop) : state := foldl hstep s ops.

End Bisync.
