(** Model of [Archive::load] (src/bin/copia/archive.rs): the recorded common state
    of a directory pair is trusted only if the file can be read, parses, carries
    the current format version and belongs to exactly this pair.  serde_json is
    not modelled: [parse] is a section variable returning the three fields the
    check looks at (format_version, root_pair_hash, entries); the enumeration of
    damaged files against the real function is the tie of C07. *)
From Coq Require Import ZArith List Bool.
From Copia Require Import Gen.Constants.
Import ListNotations.
Open Scope Z_scope.

Section Archive.
Variable E : Type.                                        (* FpMap *)
Variable parse : list Z -> option (Z * list Z * E).       (* serde_json::from_slice::<Archive> *)

Definition bytes_eqb (a b : list Z) : bool := if list_eq_dec Z.eq_dec a b then true else false.

Definition load (bytes : list Z) (expected_pair : list Z) : option E :=
  match parse bytes with
  | Some (v, ph, e) =>
      if (v =? ARCHIVE_FORMAT_VERSION) && bytes_eqb ph expected_pair then Some e else None
  | None => None
  end.

(** [std::fs::read(path).ok()?] : an unreadable / absent file is [None] *)
Definition load_file (file : option (list Z)) (expected_pair : list Z) : option E :=
  match file with Some bytes => load bytes expected_pair | None => None end.
End Archive.
