(** Model of src/bin/copia/reconcile.rs: [Fingerprint], [Action],
    [reconcile_path] (as written: nested match, the [a_changed]/[b_changed] pair)
    and [reconcile] (sorted de-duplicated union of the key lists, [trust_base]).

    The digest type is arbitrary with decidable equality (the code compares
    [u8; 32] arrays with [==] and nothing else).  [table] is the documented case
    table (docs/specifications/distributed-sync.md, "3-way reconcile"), written
    separately, row by row, as a decision on the equality pattern of (a, b, base). *)
From Coq Require Import List Bool.
From Copia Require Import Model.Path.
Import ListNotations.

Inductive file_type := File | Symlink.
Inductive conflict_kind := BothChanged | DeleteVsModify.
Inductive action :=
| Noop | PropagateAtoB | PropagateBtoA | ConvergeIdentical | DeleteA | DeleteB
| Conflict (k : conflict_kind).

Definition ftype_eqb (x y : file_type) : bool :=
  match x, y with File, File => true | Symlink, Symlink => true | _, _ => false end.

Definition is_noop (x : action) : bool := match x with Noop => true | _ => false end.

Section Reconcile.
Variable digest : Type.
Variable deq : forall x y : digest, {x = y} + {x <> y}.

Record fingerprint := { blake3 : digest; ftype : file_type }.

(** `a.blake3 == b.blake3 && a.ftype == b.ftype` *)
Definition same (x y : fingerprint) : bool :=
  (if deq (blake3 x) (blake3 y) then true else false) && ftype_eqb (ftype x) (ftype y).

Definition reconcile_path (a b base : option fingerprint) : action :=
  match a, b with
  | None, None => Noop
  | Some av, Some bv =>
      if same av bv then
        if (match base with Some z => same av z | None => false end)      (* base.is_some_and(..) *)
        then Noop else ConvergeIdentical
      else
        let a_changed := match base with Some z => negb (same av z) | None => true end in
        let b_changed := match base with Some z => negb (same bv z) | None => true end in
        match a_changed, b_changed with
        | true, false => PropagateAtoB
        | false, true => PropagateBtoA
        | _, _ => Conflict BothChanged
        end
  | Some av, None =>
      match base with
      | None => PropagateAtoB
      | Some z => if same av z then DeleteA else Conflict DeleteVsModify
      end
  | None, Some bv =>
      match base with
      | None => PropagateBtoA
      | Some z => if same bv z then DeleteB else Conflict DeleteVsModify
      end
  end.

(** ** The documented table, independent of the code's case analysis.
    [st_eq] is equality of two optional fingerprints (absent = absent). *)
Definition st_eq (x y : option fingerprint) : bool :=
  match x, y with
  | Some u, Some v => same u v
  | None, None => true
  | _, _ => false
  end.
Definition present (x : option fingerprint) : bool := match x with Some _ => true | None => false end.

Definition table (a b base : option fingerprint) : action :=
  match present a, present b with
  | false, false => Noop                                        (* nothing on either side *)
  | true, true =>
      if st_eq a base && st_eq b base then Noop                 (* both == base *)
      else if st_eq a base then PropagateBtoA                   (* exactly one != base: B changed *)
      else if st_eq b base then PropagateAtoB                   (* exactly one != base: A changed *)
      else if st_eq a b then ConvergeIdentical                  (* both != base, A == B *)
      else Conflict BothChanged                                 (* both != base, A != B *)
  | true, false =>
      if negb (present base) then PropagateAtoB                 (* one absent, base absent: CREATE *)
      else if st_eq a base then DeleteA                         (* survivor == base *)
      else Conflict DeleteVsModify                              (* survivor != base *)
  | false, true =>
      if negb (present base) then PropagateBtoA
      else if st_eq b base then DeleteB
      else Conflict DeleteVsModify
  end.

(** ** Whole trees *)
Variable K : Type.
Variable cmp : K -> K -> comparison.
Definition fpmap := list (K * fingerprint).

(** `a.keys().chain(b.keys())`, `sort_unstable()`, `dedup()` *)
Definition union_keys (a b : fpmap) : list K :=
  dedup_keys cmp (sort_keys cmp (map fst a ++ map fst b)).

Fixpoint reconcile_over (paths : list K) (a b base : fpmap) (trust_base : bool) : list (K * action) :=
  match paths with
  | [] => []
  | p :: rest =>
      let z := if trust_base then al_get cmp p base else None in
      let act := reconcile_path (al_get cmp p a) (al_get cmp p b) z in
      if is_noop act then reconcile_over rest a b base trust_base
      else (p, act) :: reconcile_over rest a b base trust_base
  end.

Definition reconcile (a b base : fpmap) (trust_base : bool) : list (K * action) :=
  reconcile_over (union_keys a b) a b base trust_base.
End Reconcile.

Arguments blake3 {digest} f.
Arguments ftype {digest} f.
