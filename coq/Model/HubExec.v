(** Executable instance of Model/Hub.v used by the correspondence run:
    paths and digests are byte lists, the hash is the identity (only equality
    of digests matters), conflict names are built from a table
    content |-> first 12 hex digits of its real BLAKE3 supplied by the harness. *)
From stdpp Require Import gmap.
From Copia Require Import Model.Hub.

Definition bytes := list Z.

Fixpoint short_of (tbl : list (bytes * bytes)) (d : bytes) : bytes :=
  match tbl with
  | [] => []
  | (c, h) :: r => if decide (c = d) then h else short_of r d
  end.

(** ".conflict-" *)
Definition conflict_infix : bytes := [46; 99; 111; 110; 102; 108; 105; 99; 116; 45]%Z.

Definition hub_cname (tbl : list (bytes * bytes)) (p : bytes) (d : bytes) : bytes :=
  p ++ conflict_infix ++ short_of tbl d.

Definition hreq := @req bytes bytes.
Definition hreply := @reply bytes.

Definition hub_exec (tbl : list (bytes * bytes)) (m0 : list (bytes * bytes))
    (progs : list (list hreq)) (sched : list ev)
  : list (list (hreq * hreply * nat * nat)) * list (bytes * bytes) * list (list (bytes * bytes)) :=
  let pm : gmap nat (list hreq) := list_to_map (imap (fun i l => (i, l)) progs) in
  let s0 := init_sys (list_to_map m0) pm in
  let s := run (fun x => x) (hub_cname tbl) s0 sched in
  let sents := imap (fun i _ => match procs s !! i with Some q => sent q | None => [] end) progs in
  (sents, map_to_list (live s), map map_to_list (run_trace (fun x => x) (hub_cname tbl) s0 sched)).

(** ** Executable instance of the read loop (Model/Wire.v) with the sequential
    handlers of Model/HubSeq.v; the CBOR decoder is a table produced by the
    harness with the REAL decoder (payload |-> decoded request, or undecodable). *)
From Copia Require Import Model.Wire Model.HubSeq.

Definition wreq := @sreq bytes.
Definition wreply := @sreply bytes.

Fixpoint dec_lookup (tbl : list (bytes * option wreq)) (payload : bytes) : option wreq :=
  match tbl with
  | [] => None
  | (p, r) :: rest => if decide (p = payload) then r else dec_lookup rest payload
  end.

Definition wire_exec (tbl : list (bytes * bytes)) (m0 : list (bytes * bytes))
    (dec : list (bytes * option wreq)) (inp : bytes) :=
  let o := serve_input (gmap bytes bytes) wreq wreply (dec_lookup dec) is_bye content_len
             (fun t r c => Some (seq_handle (fun x => x) (hub_cname tbl) t r c)) inp (list_to_map m0) in
  (o_exit _ _ o, o_replies _ _ o, map_to_list (o_tree _ _ o), o_allocs _ _ o).

(** ** Executable instance of hub-sync runs (Model/HubClient.v) *)
From Copia Require Import Model.HubClient.

Definition hidden_bytes (p : bytes) : bool := HubSeq.hidden p.

(** a run: listing taken on [tl] (= the tree itself unless stale), Puts executed on [t] *)
Definition sync_exec (tbl : list (bytes * bytes)) (tl t : list (bytes * bytes)) (local : list (bytes * bytes))
  : list (bytes * bytes) * nat * nat * nat :=
  let r := hub_sync_from (fun x => x) (hub_cname tbl) hidden_bytes (list_to_map tl) (list_to_map t) local in
  (map_to_list (sr_tree r), sr_sent r, sr_skipped r, sr_conflicts r).
