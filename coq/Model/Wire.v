(** Model of the hub's read loop (serve.rs::serve + wire.rs::read_magic/read_frame)
    as a function of the ENTIRE input byte string.  The CBOR decoder and the
    request handlers are section variables: the loop, the framing bounds, the
    draining of Put content and the exit status are what is modelled here.

      read_magic : 6 bytes; fewer = error exit; different = error exit
      read_frame : 4-byte big-endian length; fewer than 4 bytes left = clean end
                   (read_exact's UnexpectedEof is mapped to Ok(None));
                   length > MAX_FRAME = error exit BEFORE the buffer is allocated;
                   short payload = error exit; undecodable payload = error exit
      Put        : the handler consumes min(len, remaining) content bytes on
                   every path (r.take(len)), also when the path is refused
      Bye / end of input : exit 0 *)
From Coq Require Import ZArith List Bool.
From Copia Require Import Gen.Constants.
Import ListNotations.
Open Scope Z_scope.

Definition MAX_FRAME : Z := WIRE_MAX_FRAME.
Definition MAGIC : list Z :=
  [WIRE_MAGIC0; WIRE_MAGIC1; WIRE_MAGIC2; WIRE_MAGIC3; WIRE_MAGIC4; WIRE_MAGIC5].

Definition be32 (b : list Z) : Z :=
  match b with
  | [b0; b1; b2; b3] => ((b0 * 256 + b1) * 256 + b2) * 256 + b3
  | _ => 0
  end.

Section Serve.
Variable T : Type.                         (* the served tree *)
Variable request : Type.
Variable R : Type.                         (* replies *)
Variable decode : list Z -> option request.
Variable is_bye : request -> bool.
(** content length a request announces (Put: [len]; everything else 0) *)
Variable content_len : request -> Z.
(** the handler: request, the content bytes that were available (at most
    [content_len]), current tree -> new tree and reply bytes; [None] = an I/O
    error that makes the server exit without a reply *)
Variable handle : T -> request -> list Z -> option (T * R).

Inductive exit := Exit0 | ExitError | OutOfFuel.

Record outcome := { o_exit : exit; o_tree : T; o_replies : list R;
                    o_allocs : list Z;        (* frame buffers reserved, in order *)
                    o_rest : list Z }.        (* input not consumed when the loop ended *)

Fixpoint loop (fuel : nat) (inp : list Z) (t : T) (out : list R) (allocs : list Z) : outcome :=
  match fuel with
  | O => {| o_exit := OutOfFuel; o_tree := t; o_replies := out; o_allocs := allocs; o_rest := inp |}
  | S f =>
    if (Z.of_nat (length inp) <? 4) then
      {| o_exit := Exit0; o_tree := t; o_replies := out; o_allocs := allocs; o_rest := inp |}
    else
      let len := be32 (firstn 4 inp) in
      let rest := skipn 4 inp in
      if MAX_FRAME <? len then
        {| o_exit := ExitError; o_tree := t; o_replies := out; o_allocs := allocs; o_rest := rest |}
      else
        let allocs' := allocs ++ [len] in
        if Z.of_nat (length rest) <? len then
          {| o_exit := ExitError; o_tree := t; o_replies := out; o_allocs := allocs'; o_rest := rest |}
        else
          let payload := firstn (Z.to_nat len) rest in
          let rest' := skipn (Z.to_nat len) rest in
          match decode payload with
          | None => {| o_exit := ExitError; o_tree := t; o_replies := out; o_allocs := allocs'; o_rest := rest' |}
          | Some rq =>
              if is_bye rq then
                {| o_exit := Exit0; o_tree := t; o_replies := out; o_allocs := allocs'; o_rest := rest' |}
              else
                let n := Z.to_nat (Z.min (Z.max 0 (content_len rq)) (Z.of_nat (length rest'))) in
                let content := firstn n rest' in
                let rest'' := skipn n rest' in
                match handle t rq content with
                | None => {| o_exit := ExitError; o_tree := t; o_replies := out; o_allocs := allocs'; o_rest := rest'' |}
                | Some (t', reply) => loop f rest'' t' (out ++ [reply]) allocs'
                end
          end
  end.

Definition serve_input (inp : list Z) (t : T) : outcome :=
  if Z.of_nat (length inp) <? 6 then
    {| o_exit := ExitError; o_tree := t; o_replies := []; o_allocs := []; o_rest := inp |}
  else if negb (forallb (fun '(a, b) => a =? b) (combine (firstn 6 inp) MAGIC)) then
    {| o_exit := ExitError; o_tree := t; o_replies := []; o_allocs := []; o_rest := skipn 6 inp |}
  else loop (S (length inp)) (skipn 6 inp) t [] [].

(** one well-framed request on the wire *)
Definition be32_bytes (n : Z) : list Z :=
  [(n / 16777216) mod 256; (n / 65536) mod 256; (n / 256) mod 256; n mod 256].
Definition frame (payload : list Z) : list Z := be32_bytes (Z.of_nat (length payload)) ++ payload.

End Serve.
