(** The hub's request handlers as ONE sequential function on the served tree
    (serve.rs after the repairs), over client-supplied path STRINGS: refusal by
    safe_join, then the CAS-map specification of Model/Hub.v on the canonical
    relative path.  Domain: accepted paths have at least one normal component and
    no trailing slash, and no path in play is a directory prefix of another
    (outside it the real handlers hit file/directory clashes; C11 covers
    confinement for every string). *)
From stdpp Require Import gmap.
From Copia Require Import Model.Hub Model.SafeJoin.

Notation bytes := (list Z).

(** canonical relative path: the normal parts joined by '/' *)
Definition normal_parts (rel : bytes) : list bytes :=
  filter (fun p => negb (is_empty p) && negb (is_dot p)) (split_slash rel).
Fixpoint join_slash (ps : list bytes) : bytes :=
  match ps with [] => [] | [p] => p | p :: r => p ++ [slash] ++ join_slash r end.
Definition canon (rel : bytes) : bytes := join_slash (normal_parts rel).

Section Seq.
Context {D : Type} `{EqDecision D}.
Variable Hh : bytes -> D.
Variable cname : bytes -> D -> bytes.

Inductive sreq :=
| SHello (v : Z) | SList | SGet (path : bytes)
| SPut (path : bytes) (exp : option D) (len : Z) (decl : D)
| SDel (path : bytes) (exp : option D) | SBye.

Inductive sreply :=
| RHello | RFingerprints (l : list (bytes * D)) | RContent (c : bytes) | RNotFound | RBadPath | RMismatch
| RPut (committed : bool) (cur : option D) | RDel (deleted : bool) (cur : option D).

Definition tree := gmap bytes bytes.
(** the content a path names (what ONE open of it sees) *)
Definition file_at (t : tree) (p : bytes) : option bytes := t !! p.

Definition control_dir : bytes := [46; 99; 111; 112; 105; 97]%Z.     (* ".copia" *)
Definition hidden (p : bytes) : bool :=
  match normal_parts p with first :: _ => bool_decide (first = control_dir) | [] => false end.

(** [root] only matters for refusal; any root gives the same answer *)
Definition refused (rel : bytes) : bool :=
  match safe_join [slash] rel with None => true | Some _ => false end.

Definition seq_handle (t : tree) (r : sreq) (content : bytes) : tree * sreply :=
  match r with
  | SHello _ => (t, RHello)
  | SBye => (t, RHello)
  | SList => (t, RFingerprints ((fun '(p, c) => (p, Hh c)) <$> filter (fun '(p, _) => negb (hidden p)) (map_to_list t)))
  | SGet p =>
      if refused p then (t, RBadPath)
      else match t !! canon p with Some c => (t, RContent c) | None => (t, RNotFound) end
  | SPut p e len decl =>
      if refused p then (t, RBadPath)
      else if negb (verified Hh decl len content) then (t, RMismatch)
      else match spec Hh cname t (Put (canon p) e decl len [content]) with
           | (t', PutRes c cur) => (t', RPut c cur)
           | (t', _) => (t', RMismatch)
           end
  | SDel p e =>
      if refused p then (t, RBadPath)
      else match spec Hh cname t (Del (canon p) e) with
           | (t', DelRes c cur) => (t', RDel c cur)
           | (t', _) => (t', RMismatch)
           end
  end.

Definition content_len (r : sreq) : Z := match r with SPut _ _ len _ => len | _ => 0%Z end.
Definition is_bye (r : sreq) : bool := match r with SBye => true | _ => false end.

End Seq.
