(** Model of the hub server (src/bin/copia/serve.rs, after the repairs recorded in
    KNOWN_FINDINGS.txt: per-process staging name, checked rename, single-descriptor
    Get, length check) as a small-step system: any number of server processes on
    one served tree, each running a client's request program, interleaved by an
    arbitrary schedule and killable at any step.  One [step] = one file-system
    call of serve.rs that touches shared state (the "essential" gated calls of
    interpose/libvpsched.c):
      Put:    open(stage, O_CREAT|O_TRUNC) ; write(stage, chunk)* ;
              [hash/len mismatch: unlink(stage), reply Error]
              flock ; read current hash ; rename(stage -> p | p.conflict-<h>) ; unlock+reply
      Delete: flock ; read current hash ; unlink(p) (iff equal) ; unlock+reply
      Get:    open(p) (binds the content; len, hash and bytes all come from it) + reply
    The specification is [spec]: an atomic compare-and-swap map. *)
From stdpp Require Import gmap.

Section HUB.
Context `{Countable K}.                 (* relative paths (flat names, see DESIGN 5.16) *)
Context {D : Type} `{EqDecision D}.     (* digests *)
Variable Hh : list Z -> D.              (* BLAKE3 (never unfolded) *)
Variable cname : K -> D -> K.           (* p.conflict-<first 12 hex of the hash> *)
Notation pid := nat.
Notation content := (list Z).

Inductive req :=
| Put (p : K) (exp : option D) (decl : D) (len : Z) (chunks : list content)
| Del (p : K) (exp : option D)
| Get (p : K).

Inductive reply :=
| PutRes (committed : bool) (cur : option D)
| DelRes (deleted : bool) (cur : option D)
| GetRes (c : option content)           (* Content{len,hash}+bytes of ONE content, or Error("not found") *)
| ErrRes.                               (* Error("content hash mismatch" / "content length mismatch") *)

(** ** Sequential specification: the CAS map *)
Definition cur_of (m : gmap K content) (p : K) : option D := Hh <$> (m !! p).

(** the request as the specification sees it: the content is what was delivered *)
Definition body (chunks : list content) : content := concat chunks.

Definition spec (m : gmap K content) (r : req) : gmap K content * reply :=
  match r with
  | Put p exp decl len chunks =>
      let c := body chunks in
      if decide (cur_of m p = exp) then (<[p := c]> m, PutRes true (Some decl))
      else (<[cname p decl := c]> m, PutRes false (cur_of m p))
  | Del p exp =>
      if decide (cur_of m p = exp) then (delete p m, DelRes true None)
      else (m, DelRes false (cur_of m p))
  | Get p => (m, GetRes (m !! p))
  end.

(** a Put is acceptable when the delivered bytes match the declared hash and length *)
Definition verified (decl : D) (len : Z) (c : content) : bool :=
  bool_decide (Hh c = decl) && bool_decide (Z.of_nat (length c) = len).

(** ** Implementation: per-process program counters *)
Inductive pc :=
| Idle
| Staging (r : req) (todo_chunks : list content) (acc : content) (t0 : nat)
| Locked (r : req) (c : content) (t0 : nat)
| ReadCur (r : req) (c : content) (cur : option D) (t0 : nat)
| Committed (r : req) (rp : reply) (t0 : nat)
| Dead.                                  (* killed: takes no further step *)

(** [sent]: (request, reply, invocation time, response time) in program order *)
Record proc := { ppc : pc; todo : list req; sent : list (req * reply * nat * nat) }.

(** [log]: (pid, request, reply, linearization time) in commit order *)
Record sys := { live : gmap K content; lock : option pid; procs : gmap pid proc;
                log : list (pid * req * reply * nat); clock : nat }.

Definition path_of (r : req) : K :=
  match r with Put p _ _ _ _ => p | Del p _ => p | Get p => p end.

Definition upd (s : sys) (i : pid) (q : proc) : sys :=
  {| live := live s; lock := lock s; procs := <[i := q]> (procs s); log := log s; clock := clock s |}.

(** the commit decision taken with the value read under the lock *)
Definition commit (m : gmap K content) (r : req) (c : content) (cur : option D) : gmap K content * reply :=
  match r with
  | Put p exp decl _ _ =>
      if decide (cur = exp) then (<[p := c]> m, PutRes true (Some decl))
      else (<[cname p decl := c]> m, PutRes false cur)
  | Del p exp =>
      if decide (cur = exp) then (delete p m, DelRes true None) else (m, DelRes false cur)
  | Get p => (m, GetRes (m !! p))
  end.

Definition step (s : sys) (i : pid) : option sys :=
  match procs s !! i with
  | None => None
  | Some q =>
    let t := clock s in
    match ppc q with
    | Idle =>
        match todo q with
        | [] => None
        | Put p exp decl len chunks as r :: rest =>           (* open(stage, O_CREAT|O_TRUNC) *)
            Some (upd s i {| ppc := Staging r chunks [] t; todo := rest; sent := sent q |})
        | Del p exp as r :: rest =>                           (* flock *)
            match lock s with
            | Some _ => None
            | None => Some {| live := live s; lock := Some i;
                              procs := <[i := {| ppc := Locked r [] t; todo := rest; sent := sent q |}]> (procs s);
                              log := log s; clock := clock s |}
            end
        | Get p as r :: rest =>                               (* open(p): binds the content; reply *)
            let rp := GetRes (live s !! p) in
            Some {| live := live s; lock := lock s;
                    procs := <[i := {| ppc := Idle; todo := rest; sent := sent q ++ [(r, rp, t, t)] |}]> (procs s);
                    log := log s ++ [(i, r, rp, t)]; clock := clock s |}
        end
    | Staging r (c :: cs) acc t0 =>                           (* write(stage, c) *)
        Some (upd s i {| ppc := Staging r cs (acc ++ c) t0; todo := todo q; sent := sent q |})
    | Staging r [] acc t0 =>
        match r with
        | Put p exp decl len _ =>
            if verified decl len acc then
              match lock s with                                (* flock *)
              | Some _ => None
              | None => Some {| live := live s; lock := Some i;
                                procs := <[i := {| ppc := Locked r acc t0; todo := todo q; sent := sent q |}]> (procs s);
                                log := log s; clock := clock s |}
              end
            else                                               (* unlink(stage); reply Error *)
              Some (upd s i {| ppc := Idle; todo := todo q; sent := sent q ++ [(r, ErrRes, t0, t)] |})
        | _ => None
        end
    | Locked r c t0 =>                                         (* current_hash(dst) under the lock *)
        Some (upd s i {| ppc := ReadCur r c (cur_of (live s) (path_of r)) t0; todo := todo q; sent := sent q |})
    | ReadCur r c cur t0 =>                                    (* rename / unlink: the linearization point *)
        let '(m', rp) := commit (live s) r c cur in
        Some {| live := m'; lock := lock s;
                procs := <[i := {| ppc := Committed r rp t0; todo := todo q; sent := sent q |}]> (procs s);
                log := log s ++ [(i, r, rp, t)]; clock := clock s |}
    | Committed r rp t0 =>                                     (* unlock; reply *)
        Some {| live := live s; lock := None;
                procs := <[i := {| ppc := Idle; todo := todo q; sent := sent q ++ [(r, rp, t0, t)] |}]> (procs s);
                log := log s; clock := clock s |}
    | Dead => None
    end
  end.

(** killing a process: it takes no further step; the kernel releases its flock;
    the replies it already sent stay sent *)
Definition kill (s : sys) (i : pid) : sys :=
  match procs s !! i with
  | None => s
  | Some q =>
    {| live := live s;
       lock := match lock s with Some j => if decide (j = i) then None else Some j | None => None end;
       procs := <[i := {| ppc := Dead; todo := []; sent := sent q |}]> (procs s);
       log := log s; clock := clock s |}
  end.

Inductive ev := Step (i : pid) | Kill (i : pid).

Definition tick (s : sys) : sys :=
  {| live := live s; lock := lock s; procs := procs s; log := log s; clock := S (clock s) |}.

Definition do_ev (s : sys) (e : ev) : sys :=
  match e with
  | Step i => match step s i with Some s' => tick s' | None => tick s end
  | Kill i => tick (kill s i)
  end.

Fixpoint run (s : sys) (sched : list ev) : sys :=
  match sched with [] => s | e :: rest => run (do_ev s e) rest end.

(** the run with a snapshot of the live tree after every event (C10: observed at every instant) *)
Fixpoint run_trace (s : sys) (sched : list ev) : list (gmap K content) :=
  match sched with [] => [] | e :: rest => live (do_ev s e) :: run_trace (do_ev s e) rest end.

Definition init_sys (m0 : gmap K content) (progs : gmap pid (list req)) : sys :=
  {| live := m0; lock := None;
     procs := (fun l => {| ppc := Idle; todo := l; sent := [] |}) <$> progs;
     log := []; clock := 0 |}.

End HUB.
