(** Combinators that the translator tools/gen_logic.py maps Rust loops and indexing to.

    [while_loop fuel cond body s]: `while cond { body }` over the tuple [s] of the locals the body assigns;
    the body either continues with a new state ([inl]) or leaves the function with a value ([inr], an early
    `return`).  [None] = out of fuel (every user proves that the fuel it passes suffices).
    [for_loop l body s]: `for x in l { body }`, same convention.
    [nthZ] / [lenZ]: `v[i]` and `v.len()` with [Z] indices (an out-of-range index panics in Rust; every use is
    guarded by a bounds test in the translated code, and the tie proofs only ever evaluate it in range). *)
From Coq Require Import ZArith List Bool.
Import ListNotations.
Open Scope Z_scope.

Fixpoint while_loop {St Rt : Type} (fuel : nat) (cond : St -> bool) (body : St -> St + Rt) (s : St) : option (St + Rt) :=
  match fuel with
  | O => None
  | S f => if cond s then
             match body s with
             | inl s' => while_loop f cond body s'
             | inr r => Some (inr r)
             end
           else Some (inl s)
  end.

Fixpoint for_loop {A St Rt : Type} (l : list A) (body : A -> St -> St + Rt) (s : St) : St + Rt :=
  match l with
  | [] => inl s
  | x :: r => match body x s with
              | inl s' => for_loop r body s'
              | inr v => inr v
              end
  end.

Definition lenZ {A : Type} (l : list A) : Z := Z.of_nat (length l).
Definition nthZ (l : list Z) (i : Z) : Z := nth (Z.to_nat i) l 0.

Definition opt_eqb {A : Type} (eqb : A -> A -> bool) (x y : option A) : bool :=
  match x, y with
  | Some a, Some b => eqb a b
  | None, None => true
  | _, _ => false
  end.

Fixpoint list_eqb {A : Type} (eqb : A -> A -> bool) (x y : list A) : bool :=
  match x, y with
  | [], [] => true
  | a :: x', b :: y' => eqb a b && list_eqb eqb x' y'
  | _, _ => false
  end.

(** `s.trim_end_matches(c)` and `s.contains(c)` for a single char pattern *)
Fixpoint trim_end_matches (s : list Z) (c : Z) : list Z :=
  match s with
  | [] => []
  | x :: r => match trim_end_matches r c with
              | [] => if x =? c then [] else [x]
              | r' => x :: r'
              end
  end.
Definition containsZ (s : list Z) (c : Z) : bool := existsb (fun x => x =? c) s.

(** `r.read_exact(&mut buf)` on a buffer of n bytes: the next n bytes of the input and the rest, or [None] when fewer
    than n bytes are left (read_exact's UnexpectedEof) *)
Definition take_exact (n : Z) (l : list Z) : option (list Z * list Z) :=
  if lenZ l <? n then None else Some (firstn (Z.to_nat n) l, skipn (Z.to_nat n) l).

(** `s.find(c)` for a single char: index of the first occurrence *)
Fixpoint findZ (s : list Z) (c : Z) : option Z :=
  match s with
  | [] => None
  | x :: r => if x =? c then Some 0 else match findZ r c with Some i => Some (i + 1) | None => None end
  end.
