(** How a command-line argument is read as a location.

    main.rs `FileLocation::parse` (sync arguments): `host:path` is remote when the text before the FIRST colon is longer
    than one character (a single letter could be a Windows drive) and contains neither `/` nor `\`; everything else is
    a local path.  hub.rs `split_target` (hub-sync target): `host:root` when the text before the first colon is
    non-empty and has no `/`; otherwise a local hub directory. *)
From Coq Require Import ZArith List Bool.
From Copia Require Import Model.LoopLib.
Import ListNotations.
Open Scope Z_scope.

Definition COLON : Z := 58.
Definition SLASH : Z := 47.
Definition BACKSLASH : Z := 92.

Inductive location := LLocal (path : list Z) | LRemote (host path : list Z).

Definition parse_location (s : list Z) : location :=
  match findZ s COLON with
  | Some i =>
      let before := firstn (Z.to_nat i) s in
      if (1 <? lenZ before) && negb (containsZ before SLASH) && negb (containsZ before BACKSLASH)
      then LRemote before (skipn (Z.to_nat (i + 1)) s)
      else LLocal s
  | None => LLocal s
  end.

Definition split_target (t : list Z) : option (list Z * list Z) :=
  match findZ t COLON with
  | Some i =>
      let host := firstn (Z.to_nat i) t in
      if (lenZ host =? 0) || containsZ host SLASH then None else Some (host, skipn (Z.to_nat (i + 1)) t)
  | None => None
  end.
