(** One-way delivery unfolded into the atomic steps that matter for a crash:
    per file of the plan  open(T, O_CREAT|O_TRUNC) ; write(T, chunk)* ; rename(T, D)
    [; set mtime], for any number of deliveries interleaved by an arbitrary
    schedule; a crash is a prefix of the schedule (the process takes no further
    step).  For a push the chunks go into a pipe and the REMOTE command
    (Model/ShellQuote.v remote_push) stages what arrives and renames only if the
    byte count is complete - also when it finishes after its sender died. *)
From Coq Require Import ZArith List Bool.
Import ListNotations.
Open Scope Z_scope.

Section Steps.
Variable K : Type.
Variable keqb : K -> K -> bool.

Record delivery := { d_path : K; d_chunks : list (list Z); d_mtime : Z }.
Definition d_bytes (d : delivery) : list Z := concat (d_chunks d).

Inductive dpc :=
| NotStarted
| Staging (todo : list (list Z)) (acc : list Z)   (* staging file holds [acc] *)
| Renamed                                          (* bytes in place, mtime not yet set *)
| Finished.

(** destination: non-staging entries; staging files are part of the pcs *)
Definition dst_t := K -> option (list Z * Z).
Definition upd (f : dst_t) (k : K) (v : option (list Z * Z)) : dst_t :=
  fun x => if keqb x k then v else f x.

Record sys := { s_dst : dst_t; s_pcs : list dpc; s_now : Z }.   (* [s_now]: mtime a fresh file gets *)

Fixpoint set_nth {A} (n : nat) (x : A) (l : list A) : list A :=
  match n, l with
  | O, _ :: r => x :: r
  | S m, y :: r => y :: set_nth m x r
  | _, [] => []
  end.

(** [push]: the rename is performed by the remote command iff the staged byte
    count equals the announced size (always true when the sender completed). *)
Definition step (ds : list delivery) (s : sys) (i : nat) : sys :=
  match nth_error ds i, nth_error (s_pcs s) i with
  | Some d, Some pc =>
      match pc with
      | NotStarted => {| s_dst := s_dst s; s_pcs := set_nth i (Staging (d_chunks d) []) (s_pcs s); s_now := s_now s |}
      | Staging (c :: cs) acc => {| s_dst := s_dst s; s_pcs := set_nth i (Staging cs (acc ++ c)) (s_pcs s); s_now := s_now s |}
      | Staging [] acc =>
          {| s_dst := upd (s_dst s) (d_path d) (Some (acc, s_now s)); s_pcs := set_nth i Renamed (s_pcs s); s_now := s_now s |}
      | Renamed =>
          {| s_dst := upd (s_dst s) (d_path d) (Some (d_bytes d, d_mtime d)); s_pcs := set_nth i Finished (s_pcs s); s_now := s_now s |}
      | Finished => s
      end
  | _, _ => s
  end.

Definition run (ds : list delivery) (s : sys) (sched : list nat) : sys := fold_left (step ds) sched s.

Definition init (dst : dst_t) (ds : list delivery) (now : Z) : sys :=
  {| s_dst := dst; s_pcs := map (fun _ => NotStarted) ds; s_now := now |}.

(** what a killed push leaves behind once the remote commands have run to
    completion on the bytes that arrived: a staging file whose byte count is
    complete is renamed, any other stays a staging file *)
Definition remote_finish (ds : list delivery) (s : sys) : sys :=
  fold_left (fun s' i =>
    match nth_error ds i, nth_error (s_pcs s') i with
    | Some d, Some (Staging _ acc) =>
        if Z.of_nat (length acc) =? Z.of_nat (length (d_bytes d))
        then {| s_dst := upd (s_dst s') (d_path d) (Some (acc, s_now s')); s_pcs := set_nth i Renamed (s_pcs s'); s_now := s_now s' |}
        else s'
    | _, _ => s'
    end) (seq 0 (length ds)) s.

End Steps.
