(** The file-system calls of archive.rs `Archive::save`, as data.  tools/gen_logic.py translates `save` from the
    current source into the list of calls it makes in program order (Gen/ArchiveSaveGen.v); Proofs/TieArchiveSave.v
    reads them as the archive steps of Model/BisyncSteps.v. *)
From Coq Require Import List Bool.
Import ListNotations.

Inductive asuffix := ASufTmp | ASufBak.
Inductive apath := APath | ATmp | ABak | AParent | AOther.
Definition a_with_suffix (p : apath) (s : asuffix) : apath :=
  match p, s with APath, ASufTmp => ATmp | APath, ASufBak => ABak | _, _ => AOther end.
Definition a_parent (p : apath) : option apath := match p with APath => Some AParent | _ => None end.

Inductive asys :=
| AMkdirAll (p : apath)
| ACreate (p : apath)            (* File::create: open(p, O_CREAT|O_TRUNC) *)
| AWrite (p : apath)             (* write_all(json) on the handle opened on p *)
| AFsync (p : apath)             (* sync_all on the handle opened on p *)
| ARename (src dst : apath).
