(** `copia bisync` (Model/Bisync.v) unfolded into the file-system-mutating steps the
    binary performs, in order (bidir.rs copy_atomic / remove_file and
    archive.rs Archive::save, after the repairs):

      copy_atomic src->dst : open(T, O_CREAT|O_TRUNC) ; copy bytes into T ; fsync T ; rename T -> D
      delete               : unlink D
      Archive::save        : open(arch.tmp) ; write ; fsync ; [rename arch -> arch.bak] ;
                             rename arch.tmp -> arch ; fsync(dir)

    A crash is a prefix of this list.  The step list is generated alongside the
    apply loop (a copy reads the CURRENT content of its source path). *)
From stdpp Require Import gmap.
From Copia Require Import Model.Bisync.

Section Steps.
Context `{Countable K}.
Context {D : Type} `{EqDecision D}.
Notation content := (list Z).
Variable Hh : content -> D.
Variable dge : D -> D -> bool.
Variable cname : K -> D -> K.
Variable kle : K -> K -> bool.

Inductive fstep :=
| FStage (sd : side) (q : K)                     (* open(staging of q on side sd, O_CREAT|O_TRUNC) *)
| FData (sd : side) (q : K) (c : content)        (* the staging file of q now holds the complete copy c *)
| FSync (sd : side) (q : K)                      (* fsync(staging of q) *)
| FRename (sd : side) (q : K)                    (* rename(staging of q -> q) *)
| FUnlink (sd : side) (q : K)
| FArchStage | FArchWrite (z : gmap K D) | FArchSync | FArchBak | FArchRename | FArchDirSync.

(** copy_atomic of content [c] onto path q of side sd *)
Definition copy_steps (sd : side) (q : K) (c : content) : list fstep :=
  [FStage sd q; FData sd q c; FSync sd q; FRename sd q].

(** the steps of one action, given the working state BEFORE it (mirrors [apply]) *)
Definition action_steps (a b : gmap K D) (w : @work K _ _ D) (pa : K * action) : list fstep :=
  if wErr w then [] else
  let '(p, act) := pa in
  match act with
  | Converge => []
  | PropAB => match wA w !! p with Some c => copy_steps SB p c | None => [] end
  | PropBA => match wB w !! p with Some c => copy_steps SA p c | None => [] end
  | DelA => [FUnlink SA p]
  | DelB => [FUnlink SB p]
  | ConfDelMod =>
      match a !! p, b !! p with
      | Some _, _ => match wA w !! p with Some c => copy_steps SB p c | None => [] end
      | None, Some _ => match wB w !! p with Some c => copy_steps SA p c | None => [] end
      | None, None => []
      end
  | ConfBoth =>
      match a !! p, b !! p with
      | Some fa, Some fb =>
          if dge fa fb then
            let q := cname p fb in
            match wB w !! p, wA w !! p with
            | Some lc, Some wc => copy_steps SB q lc ++ copy_steps SA q lc ++ copy_steps SB p wc
            | _, _ => []
            end
          else
            let q := cname p fa in
            match wA w !! p, wB w !! p with
            | Some lc, Some wc => copy_steps SA q lc ++ copy_steps SB q lc ++ copy_steps SA p wc
            | _, _ => []
            end
      | _, _ => []
      end
  end.

Fixpoint plan_steps (a b : gmap K D) (w : @work K _ _ D) (pl : list (K * action)) : list fstep :=
  match pl with
  | [] => []
  | pa :: rest => action_steps a b w pa ++ plan_steps a b (apply dge cname a b w pa) rest
  end.

Definition arch_steps (had_archive : bool) (z : gmap K D) : list fstep :=
  [FArchStage; FArchWrite z; FArchSync] ++ (if had_archive then [FArchBak] else []) ++ [FArchRename; FArchDirSync].

(** [archive_file_exists]: whether an archive FILE is at the archive path (a
    damaged or foreign one is still renamed to .bak) *)
Definition bisync_steps (s : @state K _ _ D) (archive_file_exists : bool) : list fstep :=
  let a := scan Hh (tA s) in
  let b := scan Hh (tB s) in
  let pl := plan kle a b (arch s) in
  let c0 := match arch s with Some z => prune z a b | None => ∅ end in
  let w0 := {| wA := tA s; wB := tB s; wC := c0; wConf := 0; wErr := false |} in
  let w := foldl (apply dge cname a b) w0 pl in
  plan_steps a b w0 pl ++ (if wErr w then [] else arch_steps archive_file_exists (wC w)).

(** ** the file system the steps act on *)
Record fs := { fA : gmap K content; fB : gmap K content;      (* live names *)
               gA : gmap K content; gB : gmap K content;      (* staging files, keyed by destination *)
               farch : option (gmap K D);                     (* the archive file (None = absent) *)
               ftmp : option (gmap K D); fbak : option (gmap K D);
               synced : list (side * K) }.                    (* staging files fsynced so far *)

Definition exec (f : fs) (st : fstep) : fs :=
  match st with
  | FStage SA q => {| fA := fA f; fB := fB f; gA := <[q := []]> (gA f); gB := gB f; farch := farch f; ftmp := ftmp f; fbak := fbak f; synced := synced f |}
  | FStage SB q => {| fA := fA f; fB := fB f; gA := gA f; gB := <[q := []]> (gB f); farch := farch f; ftmp := ftmp f; fbak := fbak f; synced := synced f |}
  | FData SA q c => {| fA := fA f; fB := fB f; gA := <[q := c]> (gA f); gB := gB f; farch := farch f; ftmp := ftmp f; fbak := fbak f; synced := synced f |}
  | FData SB q c => {| fA := fA f; fB := fB f; gA := gA f; gB := <[q := c]> (gB f); farch := farch f; ftmp := ftmp f; fbak := fbak f; synced := synced f |}
  | FSync sd q => {| fA := fA f; fB := fB f; gA := gA f; gB := gB f; farch := farch f; ftmp := ftmp f; fbak := fbak f; synced := (sd, q) :: synced f |}
  | FRename SA q =>
      match gA f !! q with
      | Some c => {| fA := <[q := c]> (fA f); fB := fB f; gA := delete q (gA f); gB := gB f; farch := farch f; ftmp := ftmp f; fbak := fbak f; synced := synced f |}
      | None => f
      end
  | FRename SB q =>
      match gB f !! q with
      | Some c => {| fA := fA f; fB := <[q := c]> (fB f); gA := gA f; gB := delete q (gB f); farch := farch f; ftmp := ftmp f; fbak := fbak f; synced := synced f |}
      | None => f
      end
  | FUnlink SA q => {| fA := delete q (fA f); fB := fB f; gA := gA f; gB := gB f; farch := farch f; ftmp := ftmp f; fbak := fbak f; synced := synced f |}
  | FUnlink SB q => {| fA := fA f; fB := delete q (fB f); gA := gA f; gB := gB f; farch := farch f; ftmp := ftmp f; fbak := fbak f; synced := synced f |}
  | FArchStage => {| fA := fA f; fB := fB f; gA := gA f; gB := gB f; farch := farch f; ftmp := Some ∅; fbak := fbak f; synced := synced f |}
  | FArchWrite z => {| fA := fA f; fB := fB f; gA := gA f; gB := gB f; farch := farch f; ftmp := Some z; fbak := fbak f; synced := synced f |}
  | FArchSync => f
  | FArchBak => {| fA := fA f; fB := fB f; gA := gA f; gB := gB f; farch := None; ftmp := ftmp f; fbak := farch f; synced := synced f |}
  | FArchRename => {| fA := fA f; fB := fB f; gA := gA f; gB := gB f; farch := ftmp f; ftmp := None; fbak := fbak f; synced := synced f |}
  | FArchDirSync => f
  end.

Definition exec_all (f : fs) (l : list fstep) : fs := foldl exec f l.

Definition fs_of (s : @state K _ _ D) : fs :=
  {| fA := tA s; fB := tB s; gA := ∅; gB := ∅; farch := arch s; ftmp := None; fbak := None; synced := [] |}.

(** the state after a crash before the (k+1)-th step *)
Definition crash (s : @state K _ _ D) (archive_file_exists : bool) (k : nat) : fs :=
  exec_all (fs_of s) (take k (bisync_steps s archive_file_exists)).

End Steps.
