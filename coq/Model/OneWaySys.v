(** The file-system calls of one one-way delivery (incremental.rs deliver_local / deliver_pull), as data, and how the
    crash model of Model/OneWaySteps.v reads them.

    tools/gen_logic.py translates both functions from the current source into the list of calls they make in program
    order (Gen/OneWaySysGen.v).  A path is a live name or that name with the reserved staging suffix (`tmp_path`).
    [kinds_of_osys n] reads such a list as the call KINDS of the step model, where the one call that moves the data
    (`tokio::fs::copy` into the staging file, or the streaming `transfer_file_from_remote`) stands for "create/truncate
    the staging file, then n data writes"; it answers [None] when the data does not go into the staging name of the
    destination, the rename does not publish exactly that staging file, or the mtime is set on another path. *)
From Coq Require Import ZArith List Bool.
Import ListNotations.

Section Sys.
Context {K : Type}.
Inductive osuffix := OSufStaging.
Inductive opath := OLive (p : K) | OStaging (p : K).
Definition ow_with_suffix (p : opath) (s : osuffix) : opath := match p with OLive k => OStaging k | OStaging k => OStaging k end.

Inductive osys :=
| OCopy (src dst : opath)                     (* tokio::fs::copy(src, dst) *)
| OStream (remote : list Z) (dst : opath)     (* transfer_file_from_remote(host, remote, dst): create dst, stream into it *)
| ORename (src dst : opath)
| OSetMtime (dst : opath) (t : Z).

(** call kinds of the step model of one delivery *)
Inductive okind := KOpenStaging | KWrite | KRename | KSetMtime (t : Z).

Variable keqb : K -> K -> bool.

Definition kinds_of_osys (dst : K) (nwrites : nat) (l : list osys) : option (list okind) :=
  match l with
  | [OCopy _ (OStaging q); ORename (OStaging q1) (OLive q2)]
  | [OStream _ (OStaging q); ORename (OStaging q1) (OLive q2)] =>
      if keqb q dst && keqb q1 dst && keqb q2 dst then Some (KOpenStaging :: repeat KWrite nwrites ++ [KRename]) else None
  | [OCopy _ (OStaging q); ORename (OStaging q1) (OLive q2); OSetMtime (OLive q3) t]
  | [OStream _ (OStaging q); ORename (OStaging q1) (OLive q2); OSetMtime (OLive q3) t] =>
      if keqb q dst && keqb q1 dst && keqb q2 dst && keqb q3 dst
      then Some (KOpenStaging :: repeat KWrite nwrites ++ [KRename; KSetMtime t]) else None
  | _ => None
  end.
End Sys.
