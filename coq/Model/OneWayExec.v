(** Executable entry points of the one-way models for the correspondence run. *)
From Coq Require Import ZArith List Bool.
From Copia Require Import Model.Path Model.Glob Model.Plan Model.OneWay Model.ShellQuote.
Import ListNotations.
Open Scope Z_scope.

Definition mk_tree (l : list (list Z * (list Z * Z))) : tree :=
  fold_left (fun t kv => t_set (fst kv) {| f_bytes := fst (snd kv); f_mtime := snd (snd kv) |} t) l [].

Definition mem_path (p : list Z) (l : list (list Z)) : bool := existsb (fun q => keq path_cmp p q) l.

(** [order] empty = plan order *)
Definition ow_exec (src dst : list (list Z * (list Z * Z))) (excludes : list (list Z)) (del dry : bool)
    (order failed : list (list Z)) : result :=
  let s := mk_tree src in
  let d := mk_tree dst in
  let o := {| o_delete := del; o_excludes := excludes; o_dry_run := dry |} in
  let ord := match order with [] => transfer (plan_of s d o) | _ => order end in
  run_oneway s d o ord (fun p => mem_path p failed).

Definition ow_tree_list (t : tree) : list (list Z * (list Z * Z)) :=
  map (fun kv => (fst kv, (f_bytes (snd kv), f_mtime (snd kv)))) t.
