(** Executable entry points of the one-way models for the correspondence run. *)
From Coq Require Import ZArith List Bool.
From Copia Require Import Model.Path Model.Glob Model.Plan Model.OneWay Model.ShellQuote.
Import ListNotations.
Open Scope Z_scope.

Definition mk_tree (l : list (list Z * (list Z * Z))) : tree :=
  fold_left (fun t kv => t_set (fst kv) {| f_bytes := fst (snd kv); f_mtime := snd (snd kv) |} t) l [].

Definition mem_path (p : list Z) (l : list (list Z)) : bool := existsb (fun q => keq path_cmp p q) l.

(** [order] empty = plan order *)
Definition ow_exec (src dst : list (list Z * (list Z * Z))) (excludes : list (list Z)) (del dry : bool)
    (order failed : list (list Z)) : result :=
  let s := mk_tree src in
  let d := mk_tree dst in
  let o := {| o_delete := del; o_excludes := excludes; o_dry_run := dry |} in
  let ord := match order with [] => transfer (plan_of s d o) | _ => order end in
  run_oneway s d o ord (fun p => mem_path p failed).

Definition ow_tree_list (t : tree) : list (list Z * (list Z * Z)) :=
  map (fun kv => (fst kv, (f_bytes (snd kv), f_mtime (snd kv)))) t.

(** ** crash states of Model/OneWaySteps.v for the C09 correspondence run *)
From Copia Require Import Model.OneWaySteps.

Definition bytes_eqb (a b : list Z) : bool := if list_eq_dec Z.eq_dec a b then true else false.

Definition crash_exec (dst : list (list Z * list Z)) (ds : list (list Z * (list (list Z) * Z)))
    (sched : list nat) (push : bool)
  : list (list Z * option (list Z)) * list (option (list Z)) :=
  let dels := map (fun d => {| d_path := fst d; d_chunks := fst (snd d); d_mtime := snd (snd d) |}) ds in
  let d0 : dst_t (list Z) := fun p =>
    match find (fun kv => bytes_eqb (fst kv) p) dst with Some kv => Some (snd kv, 0) | None => None end in
  let s := run (list Z) bytes_eqb dels (init (list Z) d0 dels 1) sched in
  let s := if push then remote_finish (list Z) bytes_eqb dels s else s in
  let paths := map fst dst ++ map fst ds in
  (map (fun p => (p, option_map fst (s_dst (list Z) s p))) paths,
   map (fun pc => match pc with Staging _ acc => Some acc | _ => None end) (s_pcs (list Z) s)).
