(** Model of src/signature.rs (Signature::generate, SignatureTable lookups),
    src/delta.rs (push_copy / push_literal / push_literal_byte / validate),
    the scan loop of CopiaSync::delta / AsyncCopiaSync::delta (src/sync.rs,
    src/async_sync.rs - the two loops are textually identical) and patch.

    BLAKE3 is a section variable [H]; nothing is assumed about it here.
    Bytes are [Z]; list positions are [nat]; sizes/offsets that the code keeps
    in u32/u64 are [Z].  The scan is written with the accumulators an efficient
    execution needs ([ahead] = the list [bs] positions further on, [n] = bytes
    remaining); Proofs/DeltaProofs.v shows they are what their names say. *)
From Coq Require Import ZArith List Bool.
From Copia Require Import Gen.Constants Model.Checksum.
Import ListNotations.
Open Scope Z_scope.

Section Delta.
Variable digest : Type.
Variable H : list Z -> digest.
Variable deq : forall a b : digest, {a = b} + {a <> b}.
Variable bs : nat.                       (* block size, > 0 *)
Definition bsz : Z := Z.of_nat bs.

(** ** Signature *)
Fixpoint chunks (fuel : nat) (l : list Z) : list (list Z) :=
  match fuel with
  | O => []
  | S f => match l with [] => [] | _ => firstn bs l :: chunks f (skipn bs l) end
  end.
Definition blocks (basis : list Z) : list (list Z) := chunks (length basis) basis.

Record bsig := { b_idx : Z; b_weak : Z; b_strong : digest }.

(** BlockSignature::compute(i as u32, chunk) *)
Fixpoint sig_of (i : Z) (bl : list (list Z)) : list bsig :=
  match bl with
  | [] => []
  | c :: r => {| b_idx := w32 i; b_weak := rc_digest (rc_new c); b_strong := H c |} :: sig_of (i + 1) r
  end.

Record signature := { s_block_size : Z; s_file_size : Z; s_blocks : list bsig }.

Definition gen_signature (basis : list Z) : signature :=
  {| s_block_size := bsz; s_file_size := Z.of_nat (length basis); s_blocks := sig_of 0 (blocks basis) |}.

(** SignatureTable: weak -> candidate indices in insertion order; [find_match]
    takes the first candidate whose strong hash equals that of the data. *)
Definition has_weak (sg : list bsig) (w : Z) : bool := existsb (fun b => b_weak b =? w) sg.
Definition find_match (sg : list bsig) (w : Z) (data : list Z) : option bsig :=
  let strong := H data in
  find (fun b => (b_weak b =? w) && if deq (b_strong b) strong then true else false) sg.

(** ** Delta operations (kept reversed while building: head = last pushed) *)
Inductive dop := Copy (off len : Z) | Lit (d : list Z).

Definition push_copy (r : list dop) (off len : Z) : list dop :=
  match r with
  | Copy o l :: r' =>
      if (o + l =? off) && (l + len <? P32) then Copy o (l + len) :: r' else Copy off len :: r
  | _ => Copy off len :: r
  end.
Definition push_lit (r : list dop) (d : list Z) : list dop :=
  match d with
  | [] => r
  | _ => match r with Lit p :: r' => Lit (p ++ d) :: r' | _ => Lit d :: r end
  end.
Definition push_lit_byte (r : list dop) (x : Z) : list dop :=
  match r with Lit p :: r' => Lit (p ++ [x]) :: r' | _ => Lit [x] :: r end.

Record delta := { d_block_size : Z; d_source_size : Z; d_basis_size : Z;
                  d_ops : list dop; d_checksum : digest }.

(** ** The scan *)
Definition lookup (sg : list bsig) (st : frc) (rest : list Z) : option bsig :=
  let weak := frc_digest st in
  if has_weak sg weak then find_match sg weak (firstn bs rest) else None.

Fixpoint scan (fuel : nat) (sg : list bsig) (rest ahead : list Z) (n : Z) (st : frc) (r : list dop)
  : list dop :=
  match fuel with
  | O => r
  | S f =>
    if bsz <=? n then
      match lookup sg st rest with
      | Some b =>
          let n' := n - bsz in
          let st' := if bsz <=? n' then frc_new (firstn bs ahead) else st in
          scan f sg ahead (skipn bs ahead) n' st' (push_copy r (b_idx b * bsz) (w32 bsz))
      | None =>
          match rest with
          | [] => r
          | x :: rest' =>
              let st' := match ahead with y :: _ => frc_roll st x y | [] => st end in
              scan f sg rest' (tl ahead) (n - 1) st' (push_lit_byte r x)
          end
      end
    else push_lit r rest
  end.

Definition compute_delta (sg : signature) (src : list Z) : delta :=
  let n := Z.of_nat (length src) in
  let ops :=
    match src with
    | [] => []
    | _ => match s_blocks sg with
           | [] => [Lit src]
           | _ => rev (scan (S (length src)) (s_blocks sg) src (skipn bs src) n
                            (frc_new (firstn bs src)) [])
           end
    end in
  {| d_block_size := w32 (s_block_size sg); d_source_size := n; d_basis_size := s_file_size sg;
     d_ops := ops; d_checksum := H src |}.


(** ** Execution-friendly variant of the scan: literal payloads are kept reversed
    while building (appending one byte to a list is linear).  DeltaProofs.v
    proves [compute_delta_fast = compute_delta]; only the fast one is extracted. *)
Inductive dopR := CopyR (off len : Z) | LitR (rev_payload : list Z).

Definition push_copyR (r : list dopR) (off len : Z) : list dopR :=
  match r with
  | CopyR o l :: r' =>
      if (o + l =? off) && (l + len <? P32) then CopyR o (l + len) :: r' else CopyR off len :: r
  | _ => CopyR off len :: r
  end.
Definition push_litR (r : list dopR) (d : list Z) : list dopR :=
  match d with
  | [] => r
  | _ => match r with LitR p :: r' => LitR (rev_append d p) :: r' | _ => LitR (rev_append d []) :: r end
  end.
Definition push_lit_byteR (r : list dopR) (x : Z) : list dopR :=
  match r with LitR p :: r' => LitR (x :: p) :: r' | _ => LitR [x] :: r end.

Definition unR (o : dopR) : dop :=
  match o with CopyR off len => Copy off len | LitR p => Lit (rev' p) end.

Fixpoint scanR (bz : Z) (fuel : nat) (sg : list bsig) (rest ahead : list Z) (n : Z) (st : frc) (r : list dopR)
  : list dopR :=
  match fuel with
  | O => r
  | S f =>
    if bz <=? n then
      match lookup sg st rest with
      | Some b =>
          let n' := n - bz in
          let st' := if bz <=? n' then frc_new (firstn bs ahead) else st in
          scanR bz f sg ahead (skipn bs ahead) n' st' (push_copyR r (b_idx b * bz) (w32 bz))
      | None =>
          match rest with
          | [] => r
          | x :: rest' =>
              let st' := match ahead with y :: _ => frc_roll st x y | [] => st end in
              scanR bz f sg rest' (tl ahead) (n - 1) st' (push_lit_byteR r x)
          end
      end
    else push_litR r rest
  end.

Definition compute_delta_fast (sg : signature) (src : list Z) : delta :=
  let n := Z.of_nat (length src) in
  let ops :=
    match src with
    | [] => []
    | _ => match s_blocks sg with
           | [] => [Lit src]
           | _ => rev' (map unR (scanR bsz (S (length src)) (s_blocks sg) src (skipn bs src) n
                                      (frc_new (firstn bs src)) []))
           end
    end in
  {| d_block_size := w32 (s_block_size sg); d_source_size := n; d_basis_size := s_file_size sg;
     d_ops := ops; d_checksum := H src |}.

(** ** Patch *)
Inductive presult := POk (out : list Z) | PErrBounds | PErrIo | PErrChecksum | PPanic.

Definition sat_add64 (a b : Z) : Z := Z.min (a + b) (P64 - 1).

Fixpoint validate (basis_size : Z) (ops : list dop) : bool :=
  match ops with
  | [] => true
  | Copy o l :: r => (sat_add64 o l <=? basis_size) && validate basis_size r
  | Lit _ :: r => validate basis_size r
  end.

(** seek + read_exact on the ACTUAL basis: an error unless [len] bytes are
    available at [off].  The read primitive is partial: it is never applied
    outside [0, |basis|). *)
Definition read (basis : list Z) (off len : Z) : option (list Z) :=
  if (0 <=? off) && (0 <=? len) && (off + len <=? Z.of_nat (length basis))
  then Some (firstn (Z.to_nat len) (skipn (Z.to_nat off) basis)) else None.

Fixpoint apply_ops (basis : list Z) (ops : list dop) : option (list Z) :=
  match ops with
  | [] => Some []
  | Copy o l :: r =>
      match read basis o l with
      | None => None
      | Some a => match apply_ops basis r with Some b => Some (a ++ b) | None => None end
      end
  | Lit d :: r => match apply_ops basis r with Some b => Some (d ++ b) | None => None end
  end.

Fixpoint out_len (ops : list dop) : Z :=
  match ops with
  | [] => 0
  | Copy _ l :: r => l + out_len r
  | Lit d :: r => Z.of_nat (length d) + out_len r
  end.

(** [checked] = the profile with debug assertions and overflow checks (only
    CopiaSync::patch has the two debug_assert_eq!s); [verify] = verify_checksum. *)
Definition patch (checked verify : bool) (basis : list Z) (d : delta) : presult :=
  if checked && negb ((out_len (d_ops d) <? P64) && (out_len (d_ops d) =? d_source_size d)) then PPanic
  else if negb (validate (d_basis_size d) (d_ops d)) then PErrBounds
  else match apply_ops basis (d_ops d) with
       | None => PErrIo
       | Some out =>
           if verify then (if deq (H out) (d_checksum d) then POk out else PErrChecksum)
           else POk out
       end.

(** literal byte count of a delta *)
Fixpoint lits (r : list dop) : Z :=
  match r with
  | [] => 0
  | Copy _ _ :: r' => lits r'
  | Lit d :: r' => Z.of_nat (length d) + lits r'
  end.

(** ** Textbook greedy rsync (the specification of C16), written independently *)
Variable beq : list Z -> list Z -> bool.

Definition full_blocks (basis : list Z) : list (list Z) :=
  filter (fun c => Nat.eqb (length c) bs) (blocks basis).

Fixpoint greedy_lit (fuel : nat) (full : list (list Z)) (rest : list Z) : Z :=
  match fuel with
  | O => 0
  | S f =>
    if Nat.leb bs (length rest) then
      if existsb (beq (firstn bs rest)) full then greedy_lit f full (skipn bs rest)
      else match rest with [] => 0 | _ :: rest' => 1 + greedy_lit f full rest' end
    else Z.of_nat (length rest)
  end.

End Delta.
