(** Model of [FileMeta], [needs_transfer] and [build_plan] (src/bin/copia/plan.rs).

    A [MetaMap] (= BTreeMap<PathBuf, FileMeta>) is a list of (path string, meta)
    strictly sorted by [path_cmp] (Model/Path.v); iteration is in list order,
    [get]/[contains_key] compare components.  [size] is a u64 and [mtime] an i64
    in the code; only (in)equality of them is ever used, so they are plain [Z]. *)
From Coq Require Import ZArith List Bool.
From Copia Require Import Model.Path Model.Glob.
Import ListNotations.
Open Scope Z_scope.

Record file_meta := { fm_size : Z; fm_mtime : Z }.
Definition metamap := list (list Z * file_meta).

Definition mm_get (p : list Z) (m : metamap) : option file_meta := al_get path_cmp p m.
Definition mm_mem (p : list Z) (m : metamap) : bool := al_mem path_cmp p m.
Definition mm_insert (p : list Z) (v : file_meta) (m : metamap) : metamap := al_insert path_cmp p v m.

(** `dst.map_or(true, |d| src.size != d.size || src.mtime != d.mtime)` *)
Definition needs_transfer (src : file_meta) (dst : option file_meta) : bool :=
  match dst with
  | None => true
  | Some d => negb (fm_size src =? fm_size d) || negb (fm_mtime src =? fm_mtime d)
  end.

Record sync_plan := { transfer : list (list Z); skipped : Z; sp_delete : list (list Z) }.

(** First loop of [build_plan]: `for (path, smeta) in src { .. }`; the pushes
    happen in iteration order. *)
Fixpoint plan_source (src dst : metamap) (excludes : list (list Z)) : list (list Z) * Z :=
  match src with
  | [] => ([], 0)
  | (path, smeta) :: rest =>
      let '(tr, sk) := plan_source rest dst excludes in
      if is_excluded path excludes then (tr, sk)                               (* continue *)
      else if needs_transfer smeta (mm_get path dst) then (path :: tr, sk)     (* plan.transfer.push *)
      else (tr, sk + 1)                                                        (* plan.skipped += 1 *)
  end.

(** Second loop: `for path in dst.keys() { if !src.contains_key(path) && !is_excluded(path, excludes) { push } }` *)
Fixpoint plan_delete (src dst : metamap) (excludes : list (list Z)) : list (list Z) :=
  match dst with
  | [] => []
  | (path, _) :: rest =>
      if negb (mm_mem path src) && negb (is_excluded path excludes)
      then path :: plan_delete src rest excludes
      else plan_delete src rest excludes
  end.

Definition build_plan (src dst : metamap) (excludes : list (list Z)) (with_delete : bool) : sync_plan :=
  let '(tr, sk) := plan_source src dst excludes in
  let del := if with_delete then plan_delete src dst excludes else [] in
  {| transfer := sort_keys path_cmp tr;                 (* plan.transfer.sort() *)
     skipped := sk;
     sp_delete := sort_keys path_cmp del |}.               (* plan.delete.sort() *)
