(** Model of bincode 1.3 in the configuration used by [bincode::serialize] and
    [bincode::deserialize(&[u8])] (DefaultOptions + fixint + allow_trailing_bytes,
    no size limit) together with the serde derives of

      - src/signature.rs  [Signature], [BlockSignature]
      - src/hash.rs       [StrongHash([u8; 32])]
      - src/delta.rs      [Delta], [DeltaOp]
      - src/protocol.rs   [Message]

    Wire rules: integers are fixed-width little-endian; [usize] travels as u64;
    an enum variant is its declaration index as u32; [Vec<T>] and [String] carry a
    u64 element count; [bool] and the [Option] tag are one byte that must be 0 or
    1; [[u8; 32]] (and the newtype around it) is 32 raw bytes; structs are their
    fields in declaration order; bytes after the value are ignored.

    A decoder is a total function [list Z -> option (value * remaining input)].
    [Vec<T>] is decoded element by element (serde's VecVisitor; the speculative
    reservation is [cautious_reserve]) and fails when the input ends; the count
    is a hostile u64 and is NEVER converted to [nat]: the recursion is on [fuel],
    which the entry points set to the length of the whole input (every element
    consumes at least one byte, so that fuel always suffices - BincodeProofs.v).
    A [String] payload is bounds-checked against the remaining input and then
    validated as UTF-8; the validator is the section variable [utf8] (supplied per
    case by the harness as [std::str::from_utf8(..).is_ok()]).

    The value types of signatures and deltas are those of Model/Delta.v with
    [digest := list Z] (the 32 bytes of the strong hash). *)
From Coq Require Import ZArith List Bool.
From Copia Require Import Gen.Constants Model.Checksum Model.Delta.
Import ListNotations.
Open Scope Z_scope.

Definition dec (A : Type) : Type := list Z -> option (A * list Z).

Notation "'do' ( x , r ) <- e ; f" := (match e with Some (x, r) => f | None => None end)
  (at level 200, x name, r name, e at level 100, f at level 200, right associativity).

(** ** Primitives *)
Definition get_u8 : dec Z := fun inp => match inp with [] => None | x :: r => Some (x, r) end.

Fixpoint put_le (n : nat) (v : Z) : list Z :=
  match n with O => [] | S k => v mod 256 :: put_le k (v / 256) end.
Fixpoint get_le (n : nat) (inp : list Z) : option (Z * list Z) :=
  match n with
  | O => Some (0, inp)
  | S k => match inp with
           | [] => None
           | x :: r => do (v, r') <- get_le k r; Some (x + 256 * v, r')
           end
  end.
Definition put_u16 := put_le 2.
Definition put_u32 := put_le 4.
Definition put_u64 := put_le 8.
Definition get_u16 : dec Z := get_le 2.
Definition get_u32 : dec Z := get_le 4.
Definition get_u64 : dec Z := get_le 8.

(** [[u8; n]]: n raw bytes, no length prefix *)
Fixpoint get_raw (n : nat) (inp : list Z) : option (list Z * list Z) :=
  match n with
  | O => Some ([], inp)
  | S k => match inp with
           | [] => None
           | x :: r => do (xs, r') <- get_raw k r; Some (x :: xs, r')
           end
  end.

(** list length as a u64-ready [Z], linear *)
Fixpoint zlen_acc {T} (l : list T) (acc : Z) : Z :=
  match l with [] => acc | _ :: r => zlen_acc r (acc + 1) end.
Definition zlen {T} (l : list T) : Z := zlen_acc l 0.

(** [count] elements, one after the other *)
Fixpoint get_seq {T} (g : dec T) (fuel : nat) (count : Z) (inp : list Z) : option (list T * list Z) :=
  if count <=? 0 then Some ([], inp) else
  match fuel with
  | O => None
  | S f => do (x, r) <- g inp; do (xs, r') <- get_seq g f (count - 1) r; Some (x :: xs, r')
  end.
Fixpoint put_seq {T} (p : T -> list Z) (l : list T) : list Z :=
  match l with [] => [] | x :: r => p x ++ put_seq p r end.

Definition put_vec {T} (p : T -> list Z) (l : list T) : list Z := put_u64 (zlen l) ++ put_seq p l.
Definition get_vec {T} (g : dec T) (fuel : nat) : dec (list T) :=
  fun inp => do (c, r) <- get_u64 inp; get_seq g fuel c r.

(** [Vec<u8>] (derive, no serde_bytes: a sequence of u8) and the byte payload of a
    [String] ([read_vec]: [get_byte_buffer(len)] fails when [len] exceeds the
    remaining slice).  Both are "count, then that many bytes or an error";
    BincodeProofs.get_bytes_spec states the bounds check explicitly. *)
Definition put_bytes (l : list Z) : list Z := put_u64 (zlen l) ++ l.
Definition get_bytes (fuel : nat) : dec (list Z) := get_vec get_u8 fuel.

(** serde::de::size_hint::cautious::<T>(Some(count)): the only allocation made
    before elements are actually decoded *)
Definition MAX_PREALLOC_BYTES : Z := 1048576.
Definition cautious_reserve (count elem_size : Z) : Z :=
  if elem_size <=? 0 then 0 else Z.min count (MAX_PREALLOC_BYTES / elem_size).

Definition put_bool (b : bool) : list Z := [if b then 1 else 0].
Definition get_bool : dec bool := fun inp =>
  match inp with
  | [] => None
  | x :: r => if x =? 1 then Some (true, r) else if x =? 0 then Some (false, r) else None
  end.

(** ** BlockSignature / Signature *)
Notation bsigZ := (bsig (list Z)).
Notation sigZ := (signature (list Z)).
Notation deltaZ := (delta (list Z)).
Definition HASH_LEN : nat := 32.

Definition put_bsig (b : bsigZ) : list Z :=
  put_u32 (b_idx _ b) ++ put_u32 (b_weak _ b) ++ b_strong _ b.
Definition get_bsig : dec bsigZ := fun inp =>
  do (i, r1) <- get_u32 inp;
  do (w, r2) <- get_u32 r1;
  do (s, r3) <- get_raw HASH_LEN r2;
  Some ({| b_idx := i; b_weak := w; b_strong := s |}, r3).

Definition put_sig (s : sigZ) : list Z :=
  put_u64 (s_block_size _ s) ++ put_u64 (s_file_size _ s) ++ put_vec put_bsig (s_blocks _ s).
Definition get_sig (fuel : nat) : dec sigZ := fun inp =>
  do (b, r1) <- get_u64 inp;
  do (f, r2) <- get_u64 r1;
  do (l, r3) <- get_vec get_bsig fuel r2;
  Some ({| s_block_size := b; s_file_size := f; s_blocks := l |}, r3).

(** ** DeltaOp / Delta *)
Definition put_dop (o : dop) : list Z :=
  match o with
  | Copy off len => put_u32 0 ++ put_u64 off ++ put_u32 len
  | Lit d => put_u32 1 ++ put_bytes d
  end.
Definition get_dop (fuel : nat) : dec dop := fun inp =>
  do (tag, r) <- get_u32 inp;
  if tag =? 0 then
    do (off, r1) <- get_u64 r; do (len, r2) <- get_u32 r1; Some (Copy off len, r2)
  else if tag =? 1 then
    do (d, r1) <- get_bytes fuel r; Some (Lit d, r1)
  else None.

Definition put_delta (d : deltaZ) : list Z :=
  put_u32 (d_block_size _ d) ++ put_u64 (d_source_size _ d) ++ put_u64 (d_basis_size _ d) ++
  put_vec put_dop (d_ops _ d) ++ d_checksum _ d.
Definition get_delta (fuel : nat) : dec deltaZ := fun inp =>
  do (b, r1) <- get_u32 inp;
  do (s, r2) <- get_u64 r1;
  do (z, r3) <- get_u64 r2;
  do (ops, r4) <- get_vec (get_dop fuel) fuel r3;
  do (c, r5) <- get_raw HASH_LEN r4;
  Some ({| d_block_size := b; d_source_size := s; d_basis_size := z; d_ops := ops; d_checksum := c |}, r5).

(** ** Message (variant index = declaration order) *)
Inductive message :=
| MSigReq (file_id block_size : Z)
| MSigResp (file_id : Z) (sg : sigZ)
| MDeltaData (file_id : Z) (d : deltaZ)
| MAck (file_id : Z) (success : bool) (msg : option (list Z))
| MError (code : Z) (msg : list Z)
| MPing (seq : Z)
| MPong (seq : Z).

Definition put_opt_string (o : option (list Z)) : list Z :=
  match o with None => [0] | Some s => 1 :: put_bytes s end.

Definition put_message (m : message) : list Z :=
  match m with
  | MSigReq f b => put_u32 0 ++ put_u64 f ++ put_u32 b
  | MSigResp f s => put_u32 1 ++ put_u64 f ++ put_sig s
  | MDeltaData f d => put_u32 2 ++ put_u64 f ++ put_delta d
  | MAck f ok msg => put_u32 3 ++ put_u64 f ++ put_bool ok ++ put_opt_string msg
  | MError c msg => put_u32 4 ++ put_u32 c ++ put_bytes msg
  | MPing s => put_u32 5 ++ put_u64 s
  | MPong s => put_u32 6 ++ put_u64 s
  end.

Section Utf8.
Variable utf8 : list Z -> bool.

Definition get_string (fuel : nat) : dec (list Z) := fun inp =>
  do (s, r) <- get_bytes fuel inp; if utf8 s then Some (s, r) else None.
Definition get_opt_string (fuel : nat) : dec (option (list Z)) := fun inp =>
  match inp with
  | [] => None
  | t :: r =>
      if t =? 0 then Some (None, r)
      else if t =? 1 then do (s, r1) <- get_string fuel r; Some (Some s, r1)
      else None
  end.

Definition get_message (fuel : nat) : dec message := fun inp =>
  do (tag, r) <- get_u32 inp;
  if tag =? 0 then do (f, r1) <- get_u64 r; do (b, r2) <- get_u32 r1; Some (MSigReq f b, r2)
  else if tag =? 1 then do (f, r1) <- get_u64 r; do (s, r2) <- get_sig fuel r1; Some (MSigResp f s, r2)
  else if tag =? 2 then do (f, r1) <- get_u64 r; do (d, r2) <- get_delta fuel r1; Some (MDeltaData f d, r2)
  else if tag =? 3 then
    do (f, r1) <- get_u64 r; do (ok, r2) <- get_bool r1; do (m, r3) <- get_opt_string fuel r2;
    Some (MAck f ok m, r3)
  else if tag =? 4 then do (c, r1) <- get_u32 r; do (m, r2) <- get_string fuel r1; Some (MError c m, r2)
  else if tag =? 5 then do (s, r1) <- get_u64 r; Some (MPing s, r1)
  else if tag =? 6 then do (s, r1) <- get_u64 r; Some (MPong s, r1)
  else None.

(** Message::decode / bincode::deserialize::<Message> *)
Definition decode_message (inp : list Z) : option (message * list Z) := get_message (length inp) inp.
End Utf8.

(** bincode::serialize / bincode::deserialize for the files the CLI writes *)
Definition encode_signature : sigZ -> list Z := put_sig.
Definition encode_delta : deltaZ -> list Z := put_delta.
Definition encode_message : message -> list Z := put_message.
Definition decode_signature (inp : list Z) : option (sigZ * list Z) := get_sig (length inp) inp.
Definition decode_delta (inp : list Z) : option (deltaZ * list Z) := get_delta (length inp) inp.

(** ** In-range values (the domain of the round-trip theorems)

    Integer fields fit their Rust type, a strong hash has 32 entries, and a
    [Vec]/[String] has fewer than 2^64 elements (in Rust: at most isize::MAX).
    Nothing else is required - in particular no bound on list lengths. *)
Definition u32 (x : Z) : Prop := 0 <= x < 2^32.
Definition u64 (x : Z) : Prop := 0 <= x < 2^64.
Definition len64 {T} (l : list T) : Prop := Z.of_nat (length l) < 2^64.

Definition wf_bsig (b : bsigZ) : Prop :=
  u32 (b_idx _ b) /\ u32 (b_weak _ b) /\ length (b_strong _ b) = HASH_LEN.
Definition wf_sig (s : sigZ) : Prop :=
  u64 (s_block_size _ s) /\ u64 (s_file_size _ s) /\ len64 (s_blocks _ s) /\ Forall wf_bsig (s_blocks _ s).
Definition wf_dop (o : dop) : Prop :=
  match o with Copy off len => u64 off /\ u32 len | Lit d => len64 d end.
Definition wf_delta (d : deltaZ) : Prop :=
  u32 (d_block_size _ d) /\ u64 (d_source_size _ d) /\ u64 (d_basis_size _ d) /\
  len64 (d_ops _ d) /\ Forall wf_dop (d_ops _ d) /\ length (d_checksum _ d) = HASH_LEN.
Definition wf_string (utf8 : list Z -> bool) (s : list Z) : Prop := len64 s /\ utf8 s = true.
Definition wf_message (utf8 : list Z -> bool) (m : message) : Prop :=
  match m with
  | MSigReq f b => u64 f /\ u32 b
  | MSigResp f s => u64 f /\ wf_sig s
  | MDeltaData f d => u64 f /\ wf_delta d
  | MAck f _ msg => u64 f /\ match msg with None => True | Some s => wf_string utf8 s end
  | MError c s => u32 c /\ wf_string utf8 s
  | MPing s => u64 s
  | MPong s => u64 s
  end.
