(** Executable instance of Model/Bisync.v: paths = byte strings ordered like
    PathBuf (component-wise), digests = the REAL 32-byte BLAKE3 values supplied by
    the harness as a finite table content |-> digest (the order of digests decides
    the conflict winner), conflict names built from host name + first 12 hex digits. *)
From stdpp Require Import gmap.
From Copia Require Import Model.Bisync Model.SafeJoin.

Notation bytes := (list Z).

Fixpoint lex_le (a b : bytes) : bool :=
  match a, b with
  | [], _ => true
  | _ :: _, [] => false
  | x :: a', y :: b' => if (x <? y)%Z then true else if (y <? x)%Z then false else lex_le a' b'
  end.
Fixpoint comps_le (a b : list bytes) : bool :=
  match a, b with
  | [], _ => true
  | _ :: _, [] => false
  | x :: a', y :: b' => if decide (x = y) then comps_le a' b' else lex_le x y
  end.
Definition path_le (p q : bytes) : bool :=
  comps_le (filter (fun c => negb (is_empty c)) (split_slash p)) (filter (fun c => negb (is_empty c)) (split_slash q)).

(** a >= b on byte strings *)
Definition dge_bytes (a b : bytes) : bool := lex_le b a.

Fixpoint lookup_digest (tbl : list (bytes * bytes)) (c : bytes) : bytes :=
  match tbl with
  | [] => []
  | (c', d) :: r => if decide (c' = c) then d else lookup_digest r c
  end.

Definition hexdigit (n : Z) : Z := if (n <? 10)%Z then (48 + n)%Z else (87 + n)%Z.
Definition hex12 (d : bytes) : bytes :=
  flat_map (fun b => [hexdigit (b / 16); hexdigit (b mod 16)]%Z) (firstn 6 d).

(** ".conflict-" *)
Definition conflict_infix : bytes := [46; 99; 111; 110; 102; 108; 105; 99; 116; 45]%Z.
Definition bi_cname (host : bytes) (p : bytes) (d : bytes) : bytes :=
  p ++ conflict_infix ++ host ++ [45]%Z ++ hex12 d.

Definition bstate := @state bytes _ _ bytes.
Definition bhop := @hop bytes.

(** run a history, reporting after every operation: trees, archive, and for a run its exit and plan *)
Definition bi_step (tbl : list (bytes * bytes)) (host : bytes) (s : bstate) (o : bhop)
  : bstate * option (exit * list (bytes * action)) :=
  match o with
  | HRun => let '(s', e, pl) := bisync_run (lookup_digest tbl) dge_bytes (bi_cname host) path_le s in (s', Some (e, pl))
  | _ => (hstep (lookup_digest tbl) dge_bytes (bi_cname host) path_le s o, None)
  end.

Fixpoint bi_hist (tbl : list (bytes * bytes)) (host : bytes) (s : bstate) (ops : list bhop)
  : list (list (bytes * bytes) * list (bytes * bytes) * option (list (bytes * bytes)) * option (exit * list (bytes * action))) :=
  match ops with
  | [] => []
  | o :: rest =>
      let '(s', r) := bi_step tbl host s o in
      (map_to_list (tA s'), map_to_list (tB s'), (map_to_list <$> arch s'), r) :: bi_hist tbl host s' rest
  end.

Definition bi_init (a b : list (bytes * bytes)) : bstate :=
  {| tA := list_to_map a; tB := list_to_map b; arch := None |}.

Definition bi_dry (tbl : list (bytes * bytes)) (host : bytes) (s : bstate) : list (bytes * action) :=
  snd (bisync_dry (lookup_digest tbl) path_le s).

(** ** step lists and crash states (Model/BisyncSteps.v) for the C08 correspondence run *)
From Copia Require Import Model.BisyncSteps.

Definition bfstep := @fstep bytes _ _ bytes.

Definition bi_steps (tbl : list (bytes * bytes)) (host : bytes) (s : bstate) (archive_file_exists : bool) : list bfstep :=
  bisync_steps (lookup_digest tbl) dge_bytes (bi_cname host) path_le s archive_file_exists.

Definition bi_crash (tbl : list (bytes * bytes)) (host : bytes) (s : bstate) (archive_file_exists : bool) (k : nat)
  : list (bytes * bytes) * list (bytes * bytes) * list (bytes * bytes) * list (bytes * bytes) * option (list (bytes * bytes)) :=
  let f := crash (lookup_digest tbl) dge_bytes (bi_cname host) path_le s archive_file_exists k in
  (map_to_list (fA f), map_to_list (fB f), map_to_list (gA f), map_to_list (gB f), map_to_list <$> farch f).

Definition bi_state (a b : list (bytes * bytes)) (z : option (list (bytes * bytes))) : bstate :=
  {| tA := list_to_map a; tB := list_to_map b; arch := list_to_map <$> z |}.
