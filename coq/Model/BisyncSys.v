(** The file-system calls of bidir.rs `copy_atomic`, as data.

    tools/gen_logic.py translates `copy_atomic(src, dst)` from the current source into the list of calls it makes, in
    program order (Gen/BisyncSysGen.v).  A path is either a live name or that name with the reserved staging suffix
    appended ([with_suffix], the translation of `tmp.push(".copia-tmp")`).  [fsteps_of_sys] reads such a list as steps
    of Model/BisyncSteps.v; it answers [None] for any call whose arguments do not have the expected shape (a copy that
    does not go INTO a staging name, an fsync of anything but that staging file, a rename that does not publish it). *)
From stdpp Require Import gmap.
From Copia Require Import Model.Bisync Model.BisyncSteps.

Section Sys.
Context {K : Type}.
Notation content := (list Z).

Inductive suffix := SufStaging.
Inductive pexpr := PLive (pl : side * K) | PStaging (pl : side * K).
Definition with_suffix (p : pexpr) (s : suffix) : pexpr :=
  match p with PLive pl => PStaging pl | PStaging pl => PStaging pl end.

Inductive sys :=
| SMkdirAll (p : pexpr)
| SCopy (src dst : pexpr)        (* std::fs::copy: open(dst, O_CREAT|O_TRUNC) + the bytes of src *)
| SFsync (p : pexpr)             (* File::open(p)?.sync_all() *)
| SRename (src dst : pexpr).
End Sys.

Section Read.
Context `{Countable K} {D : Type}.
Notation content := (list Z).

(** [c]: the content of the copy's source at the time of the call; [side_eqb]: same side *)
Definition side_eqb (x y : side) : bool := match x, y with SA, SA | SB, SB => true | _, _ => false end.

Fixpoint fsteps_of_sys (c : content) (l : list (@sys K)) : option (list (@fstep K _ _ D)) :=
  match l with
  | [] => Some []
  | SMkdirAll _ :: r => fsteps_of_sys c r                                   (* creates directories only *)
  | SCopy (PLive _) (PStaging (sd, q)) :: r =>
      match fsteps_of_sys c r with Some t => Some (FStage sd q :: FData sd q c :: t) | None => None end
  | SFsync (PStaging (sd, q)) :: r =>
      match fsteps_of_sys c r with Some t => Some (FSync sd q :: t) | None => None end
  | SRename (PStaging (sd, q)) (PLive (sd', q')) :: r =>
      if side_eqb sd sd' && bool_decide (q = q')
      then match fsteps_of_sys c r with Some t => Some (FRename sd q :: t) | None => None end
      else None
  | _ :: _ => None
  end.
End Read.
