(** Model of src/checksum.rs: RollingChecksum (u32 state) and FastRollingChecksum
    (u64 state, lazy modulo).  Two semantics are given for every operation:
      - [*_ck]  the CHECKED profile: every machine operation that leaves its
                 integer width yields [None] (overflow-checks trap);
      - plain    the SHIPPED profile: wrap-around ([w32]/[w64]).
    The modulus and the normalisation interval are read from the source on every
    run (Gen/Constants.v).  Bytes are [Z] in [0,256). *)
From Coq Require Import ZArith List Bool.
From Copia Require Import Gen.Constants.
Import ListNotations.
Open Scope Z_scope.

Definition M : Z := RC_MOD.          (* RollingChecksum::MOD *)
Definition FM : Z := FRC_MOD.        (* FastRollingChecksum::MOD *)
Definition INTERVAL : Z := FRC_INTERVAL.

(** Powers of two as literals (evaluated once by the extracted code). *)
Definition P32 : Z := 4294967296.
Definition P64 : Z := 18446744073709551616.

(** Wrap-around to 32 / 64 bits.  The in-range test is only a fast path for
    execution: [w32 x = x mod 2^32] and [w64 x = x mod 2^64] (ChecksumProofs). *)
Definition w32 (x : Z) : Z := if (0 <=? x) && (x <? P32) then x else x mod P32.
Definition w64 (x : Z) : Z := if (0 <=? x) && (x <? P64) then x else x mod P64.

Definition pow2 (k : Z) : Z := if k =? 32 then P32 else if k =? 64 then P64 else 2^k.
Definition ck (k : Z) (x : Z) : option Z :=
  if (0 <=? x) && (x <? pow2 k) then Some x else None.

Notation "x <- e ;; f" := (match e with Some x => f | None => None end)
  (at level 61, e at next level, right associativity).

Definition bytes (w : list Z) : Prop := Forall (fun x => 0 <= x < 256) w.

(** * The definition (specification): exact sums *)
Fixpoint sumA (w : list Z) : Z :=
  match w with [] => 0 | x :: r => x + sumA r end.
Fixpoint sumB (w : list Z) : Z :=
  match w with [] => 0 | x :: r => Z.of_nat (length w) * x + sumB r end.
Definition spec_digest (w : list Z) : Z :=
  Z.lor (Z.shiftl ((sumB w) mod M) 16) ((sumA w) mod M).

(** Linear-time evaluation of the exact sums (used by the extracted oracle). *)
Fixpoint sums_acc (len : Z) (w : list Z) (a b : Z) : Z * Z :=
  match w with
  | [] => (a, b)
  | x :: r => sums_acc (len - 1) r (a + x) (b + len * x)
  end.
Definition sums (w : list Z) : Z * Z := sums_acc (Z.of_nat (length w)) w 0 0.
Definition spec_digest_exec (w : list Z) : Z :=
  let '(a, b) := sums w in Z.lor (Z.shiftl (b mod M) 16) (a mod M).

(** * The 64-bit accumulation loop shared by both [new] functions *)
Fixpoint new_loop (len : Z) (data : list Z) (a b : Z) : Z * Z :=
  match data with
  | [] => (a, b)
  | x :: r => new_loop (len - 1) r (w64 (a + x)) (w64 (b + w64 (len * x)))
  end.

Fixpoint new_loop_ck (len : Z) (data : list Z) (a b : Z) : option (Z * Z) :=
  match data with
  | [] => Some (a, b)
  | x :: r =>
      a' <- ck 64 (a + x) ;;
      m <- ck 64 (len * x) ;;
      b' <- ck 64 (b + m) ;;
      new_loop_ck (len - 1) r a' b'
  end.

(** * RollingChecksum *)
Record rc := { ra : Z; rb : Z; rcount : Z }.

Definition rc_empty : rc := {| ra := 0; rb := 0; rcount := 0 |}.

Definition rc_new (data : list Z) : rc :=
  let n := Z.of_nat (length data) in
  let '(a, b) := new_loop n data 0 0 in
  {| ra := w32 (a mod M); rb := w32 (b mod M); rcount := n |}.

Definition rc_new_ck (data : list Z) : option rc :=
  let n := Z.of_nat (length data) in
  ab <- new_loop_ck n data 0 0 ;;
  Some {| ra := w32 (fst ab mod M); rb := w32 (snd ab mod M); rcount := n |}.

(** roll: a = (a + MOD - old + new) % MOD;
          sub = ((count as u64 * old as u64) % MOD) as u32;
          b = (b + MOD - sub + a) % MOD                      -- all in u32 *)
Definition rc_roll (s : rc) (old new : Z) : rc :=
  let a := (w32 (w32 (w32 (ra s + M) - old) + new)) mod M in
  let sub := w32 ((w64 (rcount s * old)) mod M) in
  let b := (w32 (w32 (w32 (rb s + M) - sub) + a)) mod M in
  {| ra := a; rb := b; rcount := rcount s |}.

Definition rc_roll_ck (s : rc) (old new : Z) : option rc :=
  t1 <- ck 32 (ra s + M) ;;
  t2 <- ck 32 (t1 - old) ;;
  t3 <- ck 32 (t2 + new) ;;
  let a := t3 mod M in
  m <- ck 64 (rcount s * old) ;;
  let sub := w32 (m mod M) in
  u1 <- ck 32 (rb s + M) ;;
  u2 <- ck 32 (u1 - sub) ;;
  u3 <- ck 32 (u2 + a) ;;
  Some {| ra := a; rb := u3 mod M; rcount := rcount s |}.

Definition rc_push (s : rc) (x : Z) : rc :=
  let a := (w32 (ra s + x)) mod M in
  let b := (w32 (rb s + a)) mod M in
  {| ra := a; rb := b; rcount := rcount s + 1 |}.

(** [push] uses [wrapping_add]: it cannot trap in the checked profile either. *)
Definition rc_push_ck (s : rc) (x : Z) : option rc :=
  let a := (w32 (ra s + x)) mod M in
  let b := (w32 (rb s + a)) mod M in
  Some {| ra := a; rb := b; rcount := rcount s + 1 |}.

Definition rc_digest (s : rc) : Z := Z.lor (w32 (Z.shiftl (rb s) 16)) (ra s).

(** * FastRollingChecksum *)
Record frc := { fa : Z; fb : Z; fcount : Z; frolls : Z }.

Definition frc_empty : frc := {| fa := 0; fb := 0; fcount := 0; frolls := 0 |}.

Definition frc_new (data : list Z) : frc :=
  let n := Z.of_nat (length data) in
  let '(a, b) := new_loop n data 0 0 in
  {| fa := a mod FM; fb := b mod FM; fcount := n; frolls := 0 |}.

Definition frc_new_ck (data : list Z) : option frc :=
  let n := Z.of_nat (length data) in
  ab <- new_loop_ck n data 0 0 ;;
  Some {| fa := fst ab mod FM; fb := snd ab mod FM; fcount := n; frolls := 0 |}.

Definition frc_norm (a b c r : Z) : frc :=
  if r >=? INTERVAL
  then {| fa := a mod FM; fb := b mod FM; fcount := c; frolls := 0 |}
  else {| fa := a; fb := b; fcount := c; frolls := r |}.

(** roll: a = a + MOD + new - old;
          b = b + MOD * count + a - count * old;  rolls += 1; normalise *)
Definition frc_roll (s : frc) (old new : Z) : frc :=
  let a := w64 (w64 (w64 (fa s + FM) + new) - old) in
  let b := w64 (w64 (w64 (fb s + w64 (FM * fcount s)) + a) - w64 (fcount s * old)) in
  frc_norm a b (fcount s) (w32 (frolls s + 1)).

Definition frc_roll_ck (s : frc) (old new : Z) : option frc :=
  t1 <- ck 64 (fa s + FM) ;;
  t2 <- ck 64 (t1 + new) ;;
  a <- ck 64 (t2 - old) ;;
  m1 <- ck 64 (FM * fcount s) ;;
  u1 <- ck 64 (fb s + m1) ;;
  u2 <- ck 64 (u1 + a) ;;
  m2 <- ck 64 (fcount s * old) ;;
  b <- ck 64 (u2 - m2) ;;
  r <- ck 32 (frolls s + 1) ;;
  Some (frc_norm a b (fcount s) r).

Definition frc_push (s : frc) (x : Z) : frc :=
  let a := w64 (fa s + x) in
  let b := w64 (fb s + a) in
  frc_norm a b (fcount s + 1) (w32 (frolls s + 1)).

Definition frc_push_ck (s : frc) (x : Z) : option frc :=
  a <- ck 64 (fa s + x) ;;
  b <- ck 64 (fb s + a) ;;
  r <- ck 32 (frolls s + 1) ;;
  Some (frc_norm a b (fcount s + 1) r).

Definition frc_digest (s : frc) : Z :=
  Z.lor (w32 (Z.shiftl (w32 (fb s mod FM)) 16)) (w32 (fa s mod FM)).

(** * Operation histories (the quantifier of C17) *)
Inductive op := Push (x : Z) | Roll (x : Z).

Definition win_step (w : list Z) (o : op) : list Z :=
  match o with Push x => w ++ [x] | Roll x => tl w ++ [x] end.

(** [Roll] takes the outgoing byte from the head of the window, as every call
    site does; a [Roll] on an empty window is excluded by [valid_ops]. *)
Definition rc_step (s : rc) (w : list Z) (o : op) : rc :=
  match o with Push x => rc_push s x | Roll x => rc_roll s (hd 0 w) x end.
Definition frc_step (s : frc) (w : list Z) (o : op) : frc :=
  match o with Push x => frc_push s x | Roll x => frc_roll s (hd 0 w) x end.
Definition rc_step_ck (s : rc) (w : list Z) (o : op) : option rc :=
  match o with Push x => rc_push_ck s x | Roll x => rc_roll_ck s (hd 0 w) x end.
Definition frc_step_ck (s : frc) (w : list Z) (o : op) : option frc :=
  match o with Push x => frc_push_ck s x | Roll x => frc_roll_ck s (hd 0 w) x end.

Fixpoint run_ops (r : rc) (f : frc) (w : list Z) (ops : list op) : rc * frc * list Z :=
  match ops with
  | [] => (r, f, w)
  | o :: rest => run_ops (rc_step r w o) (frc_step f w o) (win_step w o) rest
  end.

(** A history is valid for a window bound [maxw] when every byte is a byte, a
    slide is only applied to a non-empty window and an append never grows the
    window beyond [maxw]. *)
Fixpoint valid_ops (maxw : Z) (w : list Z) (ops : list op) : Prop :=
  match ops with
  | [] => True
  | Push x :: rest => 0 <= x < 256 /\ Z.of_nat (length w) < maxw /\ valid_ops maxw (w ++ [x]) rest
  | Roll x :: rest => 0 <= x < 256 /\ w <> [] /\ valid_ops maxw (tl w ++ [x]) rest
  end.
