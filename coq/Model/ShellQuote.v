(** What copia sends through the remote shell, and what the remote side makes of
    it (modelled external programs: bash ANSI-C quoting, `xargs -0`).

      escape s      : `\` -> `\\`, `'` -> `\'`           (transfer.rs / dir_sync.rs / meta.rs)
      the word      : $'<escape s>'
      bash unquote  : inside $'...': `\\` -> `\`, `\'` -> `'`, backslash-doublequote, backslash-questionmark, and the
                      letter escapes (\n \t \a \b \e \f \r \v); a backslash
                      before any other character is kept literally; an
                      unescaped `'` ends the word.
      NUL lists     : paths joined with a terminating NUL each, split by `xargs -0`. *)
From Coq Require Import ZArith List Bool.
From Copia Require Import Gen.Constants.
Import ListNotations.
Open Scope Z_scope.

Definition BSL : Z := 92.   (* \ *)
Definition SQ : Z := 39.    (* ' *)

Fixpoint escape (s : list Z) : list Z :=
  match s with
  | [] => []
  | c :: r => if c =? BSL then BSL :: BSL :: escape r
              else if c =? SQ then BSL :: SQ :: escape r
              else c :: escape r
  end.

(** bash's decoding of the body of a $'...' word up to the closing quote;
    returns the decoded string and the rest after the closing quote. *)
Definition letter_escape (c : Z) : option Z :=
  if c =? 110 then Some 10        (* \n *)
  else if c =? 116 then Some 9    (* \t *)
  else if c =? 97 then Some 7     (* \a *)
  else if c =? 98 then Some 8     (* \b *)
  else if c =? 101 then Some 27   (* \e *)
  else if c =? 102 then Some 12   (* \f *)
  else if c =? 114 then Some 13   (* \r *)
  else if c =? 118 then Some 11   (* \v *)
  else if c =? 34 then Some 34    (* backslash doublequote *)
  else if c =? 63 then Some 63    (* \? *)
  else None.

Fixpoint ansi_c_body (s : list Z) : option (list Z * list Z) :=
  match s with
  | [] => None                                   (* unterminated word *)
  | c :: r =>
      if c =? SQ then Some ([], r)
      else if c =? BSL then
        match r with
        | [] => None
        | d :: r' =>
            if (d =? BSL) || (d =? SQ) then
              match ansi_c_body r' with Some (x, rest) => Some (d :: x, rest) | None => None end
            else match letter_escape d with
                 | Some e => match ansi_c_body r' with Some (x, rest) => Some (e :: x, rest) | None => None end
                 | None => match ansi_c_body r' with Some (x, rest) => Some (BSL :: d :: x, rest) | None => None end
                 end
        end
      else match ansi_c_body r with Some (x, rest) => Some (c :: x, rest) | None => None end
  end.

(** the word  $'<escape s>'  followed by [rest] *)
Definition quoted_word (s : list Z) : list Z := [36; SQ] ++ escape s ++ [SQ].
Definition unquote_word (w : list Z) : option (list Z * list Z) :=
  match w with
  | 36 :: q :: body => if q =? SQ then ansi_c_body body else None
  | _ => None
  end.

(** NUL-terminated lists and `xargs -0` *)
Definition nul_list (paths : list (list Z)) : list Z := flat_map (fun p => p ++ [0]) paths.
Fixpoint split_nul_aux (cur : list Z) (s : list Z) : list (list Z) :=
  match s with
  | [] => match cur with [] => [] | _ => [rev cur] end
  | c :: r => if c =? 0 then rev cur :: split_nul_aux [] r else split_nul_aux (c :: cur) r
  end.
Definition xargs0 (s : list Z) : list (list Z) := split_nul_aux [] s.

(** the push command for one file (transfer.rs::transfer_file_to_remote):
      cat > T && [ $(wc -c < T) -eq SIZE ] && mv -f T D && touch -d @MTIME D
    as a function of the bytes that ARRIVED on its input before the input ended:
    the staged bytes are published iff their count equals SIZE. *)
Definition remote_push (size : Z) (arrived : list Z) : bool :=
  (* PUSH_FILE_VERIFIES_COUNT is regenerated from transfer.rs: 1 iff the `[ $(wc -c < T) -eq SIZE ]` link is in the command *)
  if PUSH_FILE_VERIFIES_COUNT =? 1 then Z.of_nat (length arrived) =? size else true.

(** the push delete command (incremental.rs::apply_remote_deletes, after the repair 297f20b):
      t=$(mktemp) && cat > "$t" && [ "$(wc -c < "$t")" -eq SIZE ] && xargs -0 rm -f -- < "$t"; rm -f "$t"
    as a function of the bytes that ARRIVED on its input before the input ended (the sender writes the list in
    one or several write calls and may die between two of them): the paths handed to `rm`. *)
Definition remote_delete (size : Z) (arrived : list Z) : list (list Z) :=
  (* PUSH_DELETE_VERIFIES_COUNT is regenerated from incremental.rs: 1 iff the list is staged and its length compared *)
  if PUSH_DELETE_VERIFIES_COUNT =? 1 then (if Z.of_nat (length arrived) =? size then xargs0 arrived else [])
  else xargs0 arrived.
(** before the repair: `xargs -0 rm -f --` ran directly on whatever arrived *)
Definition remote_delete_unchecked (arrived : list Z) : list (list Z) := xargs0 arrived.
