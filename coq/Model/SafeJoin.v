(** Model of serve.rs::safe_join and of the names derived from the joined path
    (staging name, conflict name), over ARBITRARY byte strings, together with a
    model of kernel path resolution on a symlink-free tree.

    Rust's [Path::components] on Unix: a leading '/' yields RootDir; empty
    components are dropped; "." is dropped except as the very first component of
    a relative path (CurDir); ".." is ParentDir; everything else is Normal. *)
From Coq Require Import ZArith List Bool.
Import ListNotations.
Open Scope Z_scope.

Definition slash : Z := 47.
Definition dot : Z := 46.

(** split on '/' (always at least one part) *)
Fixpoint split_slash (l : list Z) : list (list Z) :=
  match l with
  | [] => [[]]
  | c :: r =>
      if c =? slash then [] :: split_slash r
      else match split_slash r with
           | [] => [[c]]                 (* unreachable *)
           | p :: ps => (c :: p) :: ps
           end
  end.

Definition is_dot (p : list Z) : bool := match p with [c] => c =? dot | _ => false end.
Definition is_dotdot (p : list Z) : bool :=
  match p with [c; d] => (c =? dot) && (d =? dot) | _ => false end.
Definition is_empty (p : list Z) : bool := match p with [] => true | _ => false end.

Definition is_absolute (p : list Z) : bool :=
  match p with c :: _ => c =? slash | [] => false end.

Inductive comp := CRoot | CCur | CParent | CNormal (s : list Z).

(** components of the parts after the first one / of an absolute path: "." dropped *)
Fixpoint comps_tail (parts : list (list Z)) : list comp :=
  match parts with
  | [] => []
  | p :: r =>
      if is_empty p then comps_tail r
      else if is_dot p then comps_tail r
      else if is_dotdot p then CParent :: comps_tail r
      else CNormal p :: comps_tail r
  end.

Definition components (p : list Z) : list comp :=
  if is_absolute p then CRoot :: comps_tail (split_slash p)
  else match split_slash p with
       | first :: r => (if is_dot first then [CCur] else []) ++
                       (if is_dot first then comps_tail r else comps_tail (first :: r))
       | [] => []
       end.

Definition bad_comp (c : comp) : bool :=
  match c with CParent | CRoot => true | _ => false end.

(** PathBuf::join for a relative [rel]: a separator is added unless root ends with one *)
Definition ends_with_slash (p : list Z) : bool :=
  match rev p with c :: _ => c =? slash | [] => false end.
Definition join (root rel : list Z) : list Z :=
  if ends_with_slash root then root ++ rel else root ++ [slash] ++ rel.

Definition safe_join (root rel : list Z) : option (list Z) :=
  if is_absolute rel then None
  else if existsb bad_comp (components rel) then None
  else Some (join root rel).

(** names derived textually from the joined path; [pid_digits] are ASCII digits *)
Definition copia_tmp : list Z := [46; 99; 111; 112; 105; 97; 45; 116; 109; 112].          (* ".copia-tmp" *)
Definition conflict_infix : list Z := [46; 99; 111; 110; 102; 108; 105; 99; 116; 45].     (* ".conflict-" *)
Definition stage_name (d pid_digits : list Z) : list Z := d ++ [dot] ++ pid_digits ++ copia_tmp.
Definition conflict_name (d hex12 : list Z) : list Z := d ++ conflict_infix ++ hex12.

(** ** Kernel resolution of an absolute path string on a symlink-free tree:
    the stack of directory names reached ("/.." stays at "/"). *)
Fixpoint walk (stack : list (list Z)) (parts : list (list Z)) : list (list Z) :=
  match parts with
  | [] => stack
  | p :: r =>
      if is_empty p then walk stack r
      else if is_dot p then walk stack r
      else if is_dotdot p then walk (removelast stack) r
      else walk (stack ++ [p]) r
  end.
Definition resolve (path : list Z) : list (list Z) := walk [] (split_slash path).

(** [inside rt x]: the resolved location [x] is [rt] itself or below it *)
Definition inside (rt x : list (list Z)) : Prop := exists below, x = rt ++ below.
