(** Model of [parse_remote_meta_output] (src/bin/copia/meta.rs) and of the remote
    command whose output it reads, `find . -type f -printf '%s\t%T@\t%p\0'`.

    The input is the byte string of the command's stdout.  [String::from_utf8_lossy]
    is the identity on valid UTF-8, which is assumed (the property's domain); all
    separators are ASCII, so splitting the bytes equals splitting the characters.
    The integer parsers mirror [core::num::from_ascii_radix] (radix 10): empty
    string, a lone sign, a non-digit or a value outside the type's range is an
    error; `+` is accepted by both, `-` only by the signed type. *)
From Coq Require Import ZArith List Bool.
From Copia Require Import Gen.Constants Model.Path Model.Plan.
Import ListNotations.
Open Scope Z_scope.

Definition NUL : Z := LISTING_REC_SEP.
Definition TAB : Z := LISTING_FIELD_SEP.
Definition FRAC : Z := LISTING_FRAC_SEP.
Definition PLUS : Z := 43.
Definition MINUS : Z := 45.
Definition U64_MAX : Z := 18446744073709551615.
Definition I64_MIN : Z := -9223372036854775808.
Definition I64_MAX : Z := 9223372036854775807.

Definition is_digit (d : Z) : bool := (48 <=? d) && (d <=? 57).

(** The digit loop: `result = result * 10 (+|-) digit`, any overflow is an error. *)
Fixpoint parse_acc (neg : bool) (lo hi acc : Z) (ds : list Z) : option Z :=
  match ds with
  | [] => Some acc
  | d :: r =>
      if is_digit d then
        let a := if neg then acc * 10 - (d - 48) else acc * 10 + (d - 48) in
        if (a <? lo) || (hi <? a) then None else parse_acc neg lo hi a r
      else None
  end.

(** `str::parse::<u64>()` *)
Definition parse_u64 (s : list Z) : option Z :=
  match s with
  | [] => None                                                     (* Empty *)
  | [c] => if (c =? PLUS) || (c =? MINUS) then None                (* InvalidDigit *)
           else parse_acc false 0 U64_MAX 0 s
  | c :: rest => if c =? PLUS then parse_acc false 0 U64_MAX 0 rest
                 else parse_acc false 0 U64_MAX 0 s                (* a leading `-` is an invalid digit *)
  end.

(** `str::parse::<i64>()` *)
Definition parse_i64 (s : list Z) : option Z :=
  match s with
  | [] => None
  | [c] => if (c =? PLUS) || (c =? MINUS) then None
           else parse_acc false I64_MIN I64_MAX 0 s
  | c :: rest => if c =? PLUS then parse_acc false I64_MIN I64_MAX 0 rest
                 else if c =? MINUS then parse_acc true I64_MIN I64_MAX 0 rest
                 else parse_acc false I64_MIN I64_MAX 0 s
  end.

(** [s.split(sep).next()] : the text before the first separator. *)
Fixpoint before_sep (sep : Z) (s : list Z) : list Z :=
  match s with
  | [] => []
  | x :: r => if x =? sep then [] else x :: before_sep sep r
  end.

(** One step of [splitn]: (text before the first separator, text after it). *)
Fixpoint split_first (sep : Z) (s : list Z) : option (list Z * list Z) :=
  match s with
  | [] => None
  | x :: r =>
      if x =? sep then Some ([], r)
      else match split_first sep r with
           | Some (a, b) => Some (x :: a, b)
           | None => None
           end
  end.

(** `path.strip_prefix("./").unwrap_or(path)`: ONE leading "./". *)
Definition strip_dot_slash (path : list Z) : list Z :=
  match path with
  | a :: b :: r => if (a =? DOT) && (b =? SLASH) then r else path
  | _ => path
  end.

(** The body of the loop for one non-empty entry; [None] = `continue`. *)
Definition parse_record (e : list Z) : option (list Z * file_meta) :=
  match split_first TAB e with                                      (* s.splitn(3, '\t') *)
  | None => None
  | Some (size_s, rest) =>
      match split_first TAB rest with
      | None => None
      | Some (mtime_s, path) =>
          match parse_u64 size_s with
          | None => None
          | Some size =>
              let mtime := match parse_i64 (before_sep FRAC mtime_s) with Some t => t | None => 0 end in
              let rel := strip_dot_slash path in
              match rel with
              | [] => None
              | _ => Some (rel, {| fm_size := size; fm_mtime := mtime |})
              end
          end
      end
  end.

Definition parse_step (m : metamap) (e : list Z) : metamap :=
  match e with
  | [] => m                                                          (* entry.is_empty() => continue *)
  | _ => match parse_record e with
         | Some (k, v) => mm_insert k v m                            (* out.insert(PathBuf::from(rel), ..) *)
         | None => m
         end
  end.

Definition parse_listing (stdout : list Z) : metamap :=
  fold_left parse_step (split_on NUL stdout) [].

(** ** The modelled remote command *)
(** Decimal digits of [n >= 0], most significant first. *)
Fixpoint dec_aux (fuel : nat) (n : Z) (acc : list Z) : list Z :=
  match fuel with
  | O => acc
  | S f => let acc' := (48 + n mod 10) :: acc in
           if n / 10 =? 0 then acc' else dec_aux f (n / 10) acc'
  end.
Definition dec (n : Z) : list Z := dec_aux (S (Z.to_nat (Z.log2 n))) n [].

(** One regular file as `find` sees it: path relative to the starting point `.`,
    size, mtime = whole seconds + the digits `%T@` prints after the point
    ([None]: a `find` that prints whole seconds only). *)
Record lrecord := { lr_path : list Z; lr_size : Z; lr_secs : Z; lr_frac : option (list Z) }.

Definition render_record (r : lrecord) : list Z :=
  dec (lr_size r) ++ TAB ::
  dec (lr_secs r) ++ (match lr_frac r with Some f => FRAC :: f | None => [] end) ++ TAB ::
  DOT :: SLASH :: lr_path r ++ [NUL].

Definition render_listing (rs : list lrecord) : list Z := concat (map render_record rs).

(** ** Vocabulary of the round-trip statement *)
(** What `find` can print and the parser reads back unchanged: a non-empty path
    without NUL (tabs, newlines, dots, a leading "./" are all fine), a size that
    fits u64, whole seconds that fit i64 and are not negative, and any fraction
    text without NUL and TAB (in particular any digits). *)
Definition record_ok (r : lrecord) : Prop :=
  lr_path r <> [] /\ ~ In NUL (lr_path r) /\
  0 <= lr_size r <= U64_MAX /\ 0 <= lr_secs r <= I64_MAX /\
  match lr_frac r with Some f => ~ In NUL f /\ ~ In TAB f | None => True end.

(** The (path, size, whole-second mtime) triple of a record. *)
Definition triple_of (r : lrecord) : list Z * file_meta :=
  (lr_path r, {| fm_size := lr_size r; fm_mtime := lr_secs r |}).

(** The map built by inserting the triples in listing order (a later record
    with a path-equal key overwrites the value of the earlier one). *)
Definition map_of (rs : list lrecord) : metamap :=
  fold_left (fun m r => mm_insert (fst (triple_of r)) (snd (triple_of r)) m) rs [].

(** No two records name the same file (as [PathBuf]s). *)
Fixpoint distinct_paths (rs : list lrecord) : Prop :=
  match rs with
  | [] => True
  | r :: rest => Forall (fun r' => path_cmp (lr_path r) (lr_path r') <> Eq) rest /\ distinct_paths rest
  end.
