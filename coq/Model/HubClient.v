(** Model of hub.rs::hub_sync on top of the hub specification (Model/Hub.v):
    Hello, List ONCE, then for every local file in path order: skip when the
    listed digest equals the local one, else a CAS Put whose [expected] is the
    listed digest; the exit status is non-zero iff some Put came back
    uncommitted.  The listing hides the hub's control directory. *)
From stdpp Require Import gmap.
From Copia Require Import Model.Hub.

Section Client.
Context `{Countable K} {D : Type} `{EqDecision D}.
Variable Hh : list Z -> D.
Variable cname : K -> D -> K.
Variable hidden : K -> bool.             (* paths under ".copia/" *)
Notation content := (list Z).

Definition listing (t : gmap K content) : gmap K D :=
  Hh <$> filter (fun kv => hidden (fst kv) = false) t.

(** the Puts hub_sync issues for a local tree (an association list in path
    order) given the listing it obtained *)
Definition sync_prog (local : list (K * content)) (L : gmap K D) : list (@req K D) :=
  omap (fun '(p, c) => if decide (L !! p = Some (Hh c)) then None
                       else Some (Put p (L !! p) (Hh c) (Z.of_nat (length c)) [c])) local.

(** one-at-a-time execution through the specification *)
Fixpoint seq_run (t : gmap K content) (rs : list (@req K D)) : gmap K content * list (@reply D) :=
  match rs with
  | [] => (t, [])
  | r :: rest => let '(t', rp) := spec Hh cname t r in
                 let '(t'', rps) := seq_run t' rest in (t'', rp :: rps)
  end.

Definition is_committed (rp : @reply D) : bool :=
  match rp with PutRes true _ => true | _ => false end.

Record sync_result := { sr_tree : gmap K content; sr_sent : nat; sr_skipped : nat; sr_conflicts : nat }.

(** a run whose listing was taken on tree [tl] (possibly stale) and whose Puts
    execute from tree [t] *)
Definition hub_sync_from (tl t : gmap K content) (local : list (K * content)) : sync_result :=
  let prog := sync_prog local (listing tl) in
  let '(t', rps) := seq_run t prog in
  let sent := length (filter (fun rp => is_committed rp = true) rps) in
  {| sr_tree := t'; sr_sent := sent; sr_skipped := length local - length prog;
     sr_conflicts := length rps - sent |}.

Definition hub_sync (t : gmap K content) (local : list (K * content)) : sync_result :=
  hub_sync_from t t local.

Definition exit_ok (r : sync_result) : bool := bool_decide (sr_conflicts r = 0).

End Client.
