(** Model of [glob_match] and [is_excluded] (src/bin/copia/plan.rs).

    [glob_match] is the iterative matcher with ONE backtrack point, as written:
    the indices [pi], [ti], [star], [mark] are represented by the suffixes they
    point at ([p] = pattern from [pi], [t] = text from [ti], [star] = pattern from
    [s + 1], [mark] = text from [mark]); one loop iteration = one unit of fuel.
    Branch order as in the source after the F3 repair: `*` test, literal-or-`?`
    test, backtrack, fail.  [glob_match_prefix] is the order before the repair
    (literal-or-`?` first) and is kept only to state what was wrong with it.

    [gm] is the definition of wildcard matching the property speaks about. *)
From Coq Require Import ZArith List Bool.
From Copia Require Import Gen.Constants Model.Path.
Import ListNotations.
Open Scope Z_scope.

(* regenerated from the source text of glob_match / is_excluded on every run *)
Definition STAR : Z := GLOB_STAR.
Definition QMARK : Z := GLOB_QMARK.
Definition PSEP : Z := PATH_SEP.
Definition is_star (x : Z) : bool := x =? STAR.
Definition is_q (x : Z) : bool := x =? QMARK.

(** ** The definition: `*` any run of characters, `?` exactly one, others literal *)
Fixpoint gm (p t : list Z) : bool :=
  match p with
  | [] => match t with [] => true | _ => false end
  | x :: p' =>
      if is_star x then
        (fix aux (t : list Z) : bool :=
           gm p' t || match t with [] => false | _ :: t' => aux t' end) t
      else match t with
           | [] => false
           | c :: t' => (is_q x || (x =? c)) && gm p' t'
           end
  end.

(** ** The code *)
(** `while pi < p.len() && p[pi] == '*' { pi += 1 }  pi == p.len()` *)
Fixpoint only_stars (p : list Z) : bool :=
  match p with [] => true | x :: p' => is_star x && only_stars p' end.

(** `pi < p.len() && p[pi] == '*'` *)
Definition star_here (p : list Z) : bool :=
  match p with x :: _ => is_star x | [] => false end.
(** `pi < p.len() && (p[pi] == '?' || p[pi] == t[ti])` *)
Definition lit_here (p : list Z) (c : Z) : bool :=
  match p with x :: _ => is_q x || (x =? c) | [] => false end.

(** [None] = out of fuel (never, see GlobProofs.glob_fuel_suffices). *)
Fixpoint glob_loop (fuel : nat) (p t : list Z) (star : option (list Z)) (mark : list Z) : option bool :=
  match fuel with
  | O => None
  | S f =>
      match t with
      | [] => Some (only_stars p)                               (* ti == t.len(): leave the loop *)
      | c :: t' =>
          if star_here p then glob_loop f (tl p) t (Some (tl p)) t          (* star = Some(pi); mark = ti; pi += 1 *)
          else if lit_here p c then glob_loop f (tl p) t' star mark          (* pi += 1; ti += 1 *)
          else match star with
               | Some s => glob_loop f s (tl mark) (Some s) (tl mark)      (* pi = s + 1; mark += 1; ti = mark *)
               | None => Some false
               end
      end
  end.

Definition glob_fuel (p t : list Z) : nat := (length p + 1) * (length t + 1) + 1.

Definition glob_match (p t : list Z) : bool :=
  match glob_loop (glob_fuel p t) p t None t with Some b => b | None => false end.

(** The loop as it was before the repair: literal-or-`?` tested first. *)
Fixpoint glob_loop_prefix (fuel : nat) (p t : list Z) (star : option (list Z)) (mark : list Z) : option bool :=
  match fuel with
  | O => None
  | S f =>
      match t with
      | [] => Some (only_stars p)
      | c :: t' =>
          if lit_here p c then glob_loop_prefix f (tl p) t' star mark
          else if star_here p then glob_loop_prefix f (tl p) t (Some (tl p)) t
          else match star with
               | Some s => glob_loop_prefix f s (tl mark) (Some s) (tl mark)
               | None => Some false
               end
      end
  end.
Definition glob_match_prefix (p t : list Z) : bool :=
  match glob_loop_prefix (glob_fuel p t) p t None t with Some b => b | None => false end.

(** ** is_excluded *)
(** [pat.trim_end_matches('/')] *)
Fixpoint trim_end_slash (s : list Z) : list Z :=
  match s with
  | [] => []
  | x :: r => match trim_end_slash r with
              | [] => if x =? PSEP then [] else [x]
              | r' => x :: r'
              end
  end.

Definition has_slash (s : list Z) : bool := existsb (fun x => x =? PSEP) s.

(** `for comp in rel.components() { if let Component::Normal(c) = comp { if glob_match(pat, c) ..` *)
Fixpoint any_normal (m : list Z -> list Z -> bool) (pat : list Z) (cs : list comp) : bool :=
  match cs with
  | [] => false
  | CNormal c :: r => if m pat c then true else any_normal m pat r
  | _ :: r => any_normal m pat r
  end.

(** [is_excluded], parameterised by the matcher so that the same text serves the
    code ([glob_match]) and the definition ([gm]). *)
Fixpoint is_excluded_with (m : list Z -> list Z -> bool) (rel : list Z) (excludes : list (list Z)) : bool :=
  match excludes with
  | [] => false
  | pat0 :: rest =>
      let pat := trim_end_slash pat0 in
      match pat with
      | [] => is_excluded_with m rel rest                                  (* continue *)
      | _ =>
          if has_slash pat then
            if m pat rel then true else is_excluded_with m rel rest         (* rel.to_string_lossy() *)
          else
            if any_normal m pat (components rel) then true else is_excluded_with m rel rest
      end
  end.

Definition is_excluded (rel : list Z) (excludes : list (list Z)) : bool :=
  is_excluded_with glob_match rel excludes.
