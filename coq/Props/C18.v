(** C18 - the three-way reconcile decision is exactly the documented table. *)
From Coq Require Import List Bool.
From Copia Require Import Model.Path Model.Reconcile.
Import ListNotations.

Theorem placeholder_true : True.
Proof. exact I. Qed.
Print Assumptions placeholder_true.
