(** C18 - the three-way reconcile decision is exactly the documented table.

    Model/Reconcile.v: [reconcile_path] and [reconcile] as written in
    src/bin/copia/reconcile.rs; [table] = the case table of
    docs/specifications/distributed-sync.md ("3-way reconcile"), written row by row
    on the equality pattern of (a, b, base).  All theorems hold for an ARBITRARY
    digest type with decidable equality, and - for trees - an arbitrary key type
    with a lawful comparison ([PathBuf]'s is one: PathProofs.path_cmp_lawful). *)
From Coq Require Import List Bool Sorted.
From Copia Require Import Model.Path Model.Reconcile Proofs.PathProofs Proofs.ReconcileProofs.
Import ListNotations.

(** The code's nested case analysis IS the documented table. *)
Theorem reconcile_path_is_table :
  forall (digest : Type) (deq : forall x y : digest, {x = y} + {x <> y}) (a b base : option (fingerprint digest)),
  reconcile_path digest deq a b base = table digest deq a b base.
Proof. intros digest deq a b base. exact (reconcile_path_table digest deq a b base). Qed.
Print Assumptions reconcile_path_is_table.

(** Mirror symmetry: exchanging the two sides exchanges A and B in the action. *)
Theorem reconcile_mirror :
  forall (digest : Type) (deq : forall x y : digest, {x = y} + {x <> y}) (a b base : option (fingerprint digest)),
  reconcile_path digest deq b a base = swap (reconcile_path digest deq a b base).
Proof. intros digest deq a b base. exact (reconcile_path_swap digest deq a b base). Qed.
Print Assumptions reconcile_mirror.

(** The decision depends only on which of the three (digest, entry type) pairs
    are equal: it is invariant under any injective renaming of fingerprints (also
    into another digest type). *)
Theorem reconcile_data_independent :
  forall (d1 d2 : Type) (deq1 : forall x y : d1, {x = y} + {x <> y}) (deq2 : forall x y : d2, {x = y} + {x <> y})
         (f : fingerprint d1 -> fingerprint d2),
  (forall x y, f x = f y -> x = y) ->
  forall a b base : option (fingerprint d1),
  reconcile_path d2 deq2 (option_map f a) (option_map f b) (option_map f base) = reconcile_path d1 deq1 a b base.
Proof. intros d1 d2 deq1 deq2 f Hinj a b base. exact (reconcile_path_renamed d1 d2 deq1 deq2 f Hinj a b base). Qed.
Print Assumptions reconcile_data_independent.

(** Without a base there is never a delete. *)
Theorem no_delete_without_base :
  forall (digest : Type) (deq : forall x y : digest, {x = y} + {x <> y}) (a b : option (fingerprint digest)),
  reconcile_path digest deq a b None <> DeleteA /\ reconcile_path digest deq a b None <> DeleteB.
Proof. intros digest deq a b. exact (no_delete_without_base_neq digest deq a b). Qed.
Print Assumptions no_delete_without_base.

(** A delete is decided only when the other side is absent and the survivor
    equals the (present) base. *)
Theorem delete_needs_equal_survivor :
  forall (digest : Type) (deq : forall x y : digest, {x = y} + {x <> y}) (a b base : option (fingerprint digest)),
  (reconcile_path digest deq a b base = DeleteA -> b = None /\ a <> None /\ a = base) /\
  (reconcile_path digest deq a b base = DeleteB -> a = None /\ b <> None /\ b = base).
Proof. intros digest deq a b base. exact (conj (deleteA_inv digest deq a b base) (deleteB_inv digest deq a b base)). Qed.
Print Assumptions delete_needs_equal_survivor.

(** Whole trees: the result is the list of non-Noop per-path decisions
    ([decide]: reconcile_path of the three lookups, the base lookup forced to None
    when the base is untrusted) over [union_keys a b], which is strictly sorted
    (each path once, in order), contains only keys of a or b, and contains every
    key of a and of b (up to the key equivalence of the comparison). *)
Theorem reconcile_tree_spec :
  forall (digest : Type) (deq : forall x y : digest, {x = y} + {x <> y})
         (K : Type) (cmp : K -> K -> comparison), lawful cmp ->
  forall (a b base : fpmap digest K) (trust : bool),
  reconcile digest deq K cmp a b base trust =
    filter_map (decide digest deq K cmp a b base trust) (union_keys digest K cmp a b) /\
  StronglySorted (klt cmp) (union_keys digest K cmp a b) /\
  NoDup (union_keys digest K cmp a b) /\
  (forall p, In p (union_keys digest K cmp a b) -> In p (map fst a) \/ In p (map fst b)) /\
  (forall p, In p (map fst a) \/ In p (map fst b) -> exists q, In q (union_keys digest K cmp a b) /\ cmp p q = Eq).
Proof. intros digest deq K cmp L a b base trust.
  exact (conj (reconcile_eq digest deq K cmp a b base trust)
        (conj (union_keys_sorted digest K cmp L a b)
        (conj (union_keys_nodup digest K cmp L a b)
        (conj (union_keys_sound digest K cmp a b) (union_keys_complete digest K cmp L a b))))). Qed.
Print Assumptions reconcile_tree_spec.

(** [decide] is what the statement above says it is. *)
Theorem decide_unfold :
  forall (digest : Type) (deq : forall x y : digest, {x = y} + {x <> y}) (K : Type) (cmp : K -> K -> comparison)
         (a b base : fpmap digest K) (trust : bool) (p : K),
  decide digest deq K cmp a b base trust p =
    let act := reconcile_path digest deq (al_get cmp p a) (al_get cmp p b) (if trust then al_get cmp p base else None) in
    if is_noop act then None else Some (p, act).
Proof. intros. exact eq_refl. Qed.
Print Assumptions decide_unfold.

(** With an untrusted base a whole-tree run never contains a delete. *)
Theorem untrusted_base_never_deletes :
  forall (digest : Type) (deq : forall x y : digest, {x = y} + {x <> y}) (K : Type) (cmp : K -> K -> comparison)
         (a b base : fpmap digest K) (p : K) (x : action),
  In (p, x) (reconcile digest deq K cmp a b base false) -> x <> DeleteA /\ x <> DeleteB.
Proof. intros digest deq K cmp a b base p x. exact (untrusted_never_deletes_neq digest deq K cmp a b base p x). Qed.
Print Assumptions untrusted_base_never_deletes.

(** The order on PathBufs is a lawful comparison, so the tree theorem applies to it. *)
Theorem pathbuf_order_lawful : lawful path_cmp.
Proof. exact path_cmp_lawful. Qed.
Print Assumptions pathbuf_order_lawful.

(** Non-vacuity: every action occurs; a tree with a delete that disappears when
    the base is not trusted. *)
Example C18_nonvacuous :
  let deq := PeanoNat.Nat.eq_dec in
  let f n := Some {| blake3 := n; ftype := File |} in
  let l n := Some {| blake3 := n; ftype := Symlink |} in
  let rp := reconcile_path nat deq in
  rp (f 1) (f 1) (f 1) = Noop /\ rp (f 2) (f 1) (f 1) = PropagateAtoB /\ rp (f 1) (l 1) (f 1) = PropagateBtoA /\
  rp (f 2) (f 2) (f 1) = ConvergeIdentical /\ rp (f 2) (f 3) (f 1) = Conflict BothChanged /\
  rp (f 1) None (f 1) = DeleteA /\ rp None (f 1) (f 1) = DeleteB /\ rp (f 2) None (f 1) = Conflict DeleteVsModify /\
  rp (f 1) None None = PropagateAtoB /\
  (let fp n := {| blake3 := n; ftype := File |} in
   let a := [(1, fp 1); (2, fp 2)] in let b := [(1, fp 1)] in let base := [(1, fp 1); (2, fp 2)] in
   reconcile nat deq nat Nat.compare a b base true = [(2, DeleteA)] /\
   reconcile nat deq nat Nat.compare a b base false = [(1, ConvergeIdentical); (2, PropagateAtoB)]).
Proof. repeat split; vm_compute; reflexivity. Qed.

(** The model the theorems above are about is the translation of src/bin/copia/reconcile.rs (Fingerprint::same, reconcile_path) as it is now: the function
    generated from the source by tools/gen_logic.py (Gen/ReconcileGen.v) equals, on every input, Model/Reconcile.v reconcile_path
    (statement: Proofs/TieReconcile.v, [reconcile_model_is_translation]). *)
Require Copia.Proofs.TieReconcile.
Theorem C18_model_is_translation_of_source : TieReconcile.reconcile_model_is_translation.
Proof. exact TieReconcile.reconcile_model_is_translation_holds. Qed.
Print Assumptions C18_model_is_translation_of_source.
