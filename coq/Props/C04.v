(** C04 - recursive one-way sync delivers exactly its plan.  Property theorems only.

    Models: Model/OneWay.v ([run_oneway]: the plan of Model/Plan.v on the (size,
    whole-second mtime) metadata of both trees, deliveries in ANY completion
    order with a failure oracle, then the deletes), Model/ShellQuote.v (what goes
    through the remote shell on a push).  Trees are BTreeMap-like association
    lists path -> (bytes, whole-second mtime); [t_get] looks a path up by
    PathBuf equality, and [pin p l] / [delivered fail p l] say that (a spelling
    of) [p] is in a plan list / is there and its delivery did not fail.

    The result record of a run has no source component: [run_oneway] returns the
    new destination only, the source tree is an input that nothing modifies.
    Staging names (`<dst>.copia-tmp`) are not entries of the modelled trees; what
    happens to them under a crash is C09's subject. *)
From Coq Require Import ZArith List Bool Sorted Permutation.
From Copia Require Import Model.Path Model.Glob Model.Plan Model.OneWay Model.OneWayExec Model.ShellQuote
  Proofs.PathProofs Proofs.PlanProofs Proofs.OneWayProofs Proofs.ShellQuoteProofs.
Import ListNotations.
Open Scope Z_scope.

(** ** Trees *)

(** Trees built by insertion (what the directory walk / the listing parser
    produce) are strictly sorted maps - the premise [tsorted] below. *)
Theorem mk_tree_is_sorted : forall l : list (list Z * (list Z * Z)), tsorted (mk_tree l).
Proof. exact mk_tree_sorted. Qed.
Print Assumptions mk_tree_is_sorted.

(** The two primitive updates, seen through lookups. *)
Theorem tree_updates_spec : forall (p q : list Z) (f : file) (t : tree),
  t_get p (t_set q f t) = (if keq path_cmp p q then Some f else t_get p t) /\
  t_get p (t_remove q t) = (if keq path_cmp p q then None else t_get p t) /\
  (tsorted t -> tsorted (t_set q f t) /\ tsorted (t_remove q t)).
Proof. intros p q f t. exact (conj (t_get_set p q f t) (conj (t_get_remove p q t)
  (fun H => conj (t_set_sorted q f t H) (t_remove_sorted q t H)))). Qed.
Print Assumptions tree_updates_spec.

(** The planner sees exactly (size, whole-second mtime) of every file. *)
Theorem meta_of_spec : forall (t : tree) (p : list Z),
  (tsorted t -> mm_sorted (meta_of t)) /\ mm_get p (meta_of t) = option_map meta (t_get p t).
Proof. intros t p. exact (conj (meta_of_sorted t) (mm_get_meta_of p t)). Qed.
Print Assumptions meta_of_spec.

(** ** The plan, in terms of the two trees (C19's set characterisations) *)

(** transfer = the non-excluded source files that are absent from the destination
    or differ from it in size or whole-second mtime ([differs]). *)
Theorem plan_transfer_in_tree_terms : forall (src dst : tree) (o : opts) (p : list Z),
  In p (transfer (plan_of src dst o)) <->
  exists f, In (p, f) src /\ is_excluded p (o_excludes o) = false /\
    (t_get p dst = None \/
     exists g, t_get p dst = Some g /\
       (Z.of_nat (length (f_bytes f)) <> Z.of_nat (length (f_bytes g)) \/ f_mtime f <> f_mtime g)).
Proof. intros src dst o p. exact (transfer_iff src dst o p). Qed.
Print Assumptions plan_transfer_in_tree_terms.

(** delete = with the flag, the destination files absent from the source and not
    excluded; nothing without it. *)
Theorem plan_delete_in_tree_terms : forall (src dst : tree) (o : opts) (p : list Z),
  In p (sp_delete (plan_of src dst o)) <->
  o_delete o = true /\ exists g, In (p, g) dst /\ t_get p src = None /\ is_excluded p (o_excludes o) = false.
Proof. intros src dst o p. exact (delete_iff src dst o p). Qed.
Print Assumptions plan_delete_in_tree_terms.

(** ** The run *)

(** For EVERY completion order (a permutation of the transfer list - every
    `--jobs n >= 1` yields one) and every failure oracle, at EVERY path [p] the
    destination after a non-dry run holds: nothing if [p] is in plan.delete; else
    the source's entry (bytes and whole-second mtime) if [p] is in plan.transfer
    and its delivery did not fail; else exactly what it held before. *)
Theorem oneway_exact : forall (src dst : tree) (o : opts) (order : list (list Z)) (fail : list Z -> bool),
  o_dry_run o = false -> Permutation order (transfer (plan_of src dst o)) ->
  forall p,
  (pin p (sp_delete (plan_of src dst o)) -> t_get p (r_dst (run_oneway src dst o order fail)) = None) /\
  (delivered fail p (transfer (plan_of src dst o)) -> t_get p (r_dst (run_oneway src dst o order fail)) = t_get p src) /\
  (~ pin p (sp_delete (plan_of src dst o)) -> ~ delivered fail p (transfer (plan_of src dst o)) ->
   t_get p (r_dst (run_oneway src dst o order fail)) = t_get p dst).
Proof. intros src dst o order fail. exact (oneway_exact_lemma src dst o order fail). Qed.
Print Assumptions oneway_exact.

(** In the property's own terms.  After a run without failure (exit 0, see
    [oneway_failure_contained]) every non-excluded source file that was absent
    from the destination or differed in size or whole-second mtime is at the
    destination with the source's bytes and mtime ... *)
Theorem changed_files_arrive : forall (src dst : tree) (o : opts) (order : list (list Z)) (fail : list Z -> bool)
    (p : list Z) (f : file),
  tsorted src -> o_dry_run o = false -> Permutation order (transfer (plan_of src dst o)) ->
  no_failure fail order ->
  In (p, f) src -> is_excluded p (o_excludes o) = false ->
  (t_get p dst = None \/
   exists g, t_get p dst = Some g /\
     (Z.of_nat (length (f_bytes f)) <> Z.of_nat (length (f_bytes g)) \/ f_mtime f <> f_mtime g)) ->
  t_get p (r_dst (run_oneway src dst o order fail)) = Some f.
Proof. intros src dst o order fail p f. exact (changed_files_arrive_lemma src dst o order fail p f). Qed.
Print Assumptions changed_files_arrive.

(** ... files the quick check matched keep their bytes AND mtime (whatever else
    fails, and whether or not they are excluded) ... *)
Theorem matched_files_untouched : forall (src dst : tree) (o : opts) (order : list (list Z)) (fail : list Z -> bool)
    (p : list Z) (f g : file),
  tsorted src -> o_dry_run o = false -> Permutation order (transfer (plan_of src dst o)) ->
  In (p, f) src -> t_get p dst = Some g ->
  Z.of_nat (length (f_bytes f)) = Z.of_nat (length (f_bytes g)) -> f_mtime f = f_mtime g ->
  t_get p (r_dst (run_oneway src dst o order fail)) = Some g.
Proof. intros src dst o order fail p f g. exact (matched_files_untouched_lemma src dst o order fail p f g). Qed.
Print Assumptions matched_files_untouched.

(** ... no other destination path is created, modified or removed: a path whose
    entry changed was in plan.delete and is gone, or was delivered and holds the
    source's entry ... *)
Theorem only_plan_changes : forall (src dst : tree) (o : opts) (order : list (list Z)) (fail : list Z -> bool) (p : list Z),
  o_dry_run o = false -> Permutation order (transfer (plan_of src dst o)) ->
  t_get p (r_dst (run_oneway src dst o order fail)) <> t_get p dst ->
  (pin p (sp_delete (plan_of src dst o)) /\ t_get p (r_dst (run_oneway src dst o order fail)) = None) \/
  (delivered fail p (transfer (plan_of src dst o)) /\ t_get p (r_dst (run_oneway src dst o order fail)) = t_get p src).
Proof. intros src dst o order fail p. exact (only_plan_changes_lemma src dst o order fail p). Qed.
Print Assumptions only_plan_changes.

(** ... in particular, without `--delete` a path that is not a source file keeps
    its entry (present or absent) ... *)
Theorem non_source_untouched : forall (src dst : tree) (o : opts) (order : list (list Z)) (fail : list Z -> bool) (p : list Z),
  o_dry_run o = false -> Permutation order (transfer (plan_of src dst o)) ->
  o_delete o = false -> t_get p src = None ->
  t_get p (r_dst (run_oneway src dst o order fail)) = t_get p dst.
Proof. intros src dst o order fail p. exact (non_source_untouched_lemma src dst o order fail p). Qed.
Print Assumptions non_source_untouched.

(** ... and with `--delete` exactly the destination files absent from the source
    and not excluded are removed ([plan_delete_in_tree_terms] is the `exactly`). *)
Theorem delete_removes : forall (src dst : tree) (o : opts) (order : list (list Z)) (fail : list Z -> bool)
    (p : list Z) (g : file),
  o_dry_run o = false -> Permutation order (transfer (plan_of src dst o)) -> o_delete o = true ->
  In (p, g) dst -> t_get p src = None -> is_excluded p (o_excludes o) = false ->
  t_get p (r_dst (run_oneway src dst o order fail)) = None.
Proof. intros src dst o order fail p g. exact (delete_removes_lemma src dst o order fail p g). Qed.
Print Assumptions delete_removes.

(** The result does not depend on the order in which the parallel transfers
    complete: two permutations of the transfer list give destinations that agree
    at every path, and the same exit status, plan, kind and counters. *)
Theorem oneway_order_independent : forall (src dst : tree) (o : opts) (order1 order2 : list (list Z)) (fail : list Z -> bool),
  Permutation order1 (transfer (plan_of src dst o)) -> Permutation order2 (transfer (plan_of src dst o)) ->
  let R1 := run_oneway src dst o order1 fail in
  let R2 := run_oneway src dst o order2 fail in
  (forall p, t_get p (r_dst R1) = t_get p (r_dst R2)) /\
  r_exit_ok R1 = r_exit_ok R2 /\ r_plan R1 = r_plan R2 /\ r_kind R1 = r_kind R2 /\
  r_sent R1 = r_sent R2 /\ r_failed R1 = r_failed R2.
Proof. intros src dst o order1 order2 fail. exact (oneway_order_independent_lemma src dst o order1 order2 fail). Qed.
Print Assumptions oneway_order_independent.

(** The exit status is non-zero iff some delivery failed; and whatever fails,
    nothing outside transfer + delete is touched. *)
Theorem oneway_failure_contained : forall (src dst : tree) (o : opts) (order : list (list Z)) (fail : list Z -> bool),
  o_dry_run o = false -> Permutation order (transfer (plan_of src dst o)) ->
  (r_exit_ok (run_oneway src dst o order fail) = false <-> exists q, In q order /\ fail q = true) /\
  (forall p, ~ pin p (transfer (plan_of src dst o)) -> ~ pin p (sp_delete (plan_of src dst o)) ->
     t_get p (r_dst (run_oneway src dst o order fail)) = t_get p dst).
Proof. intros src dst o order fail. exact (oneway_failure_contained_lemma src dst o order fail). Qed.
Print Assumptions oneway_failure_contained.

(** ** Push: what goes through the remote shell *)

(** Every name survives the remote shell: bash's decoding of the word
    $'<escape s>' gives back [s] - for EVERY string (spaces, quotes, backslashes,
    `$`, glob characters, newlines, leading dashes, any byte) and whatever follows
    the word on the command line. *)
Theorem unquote_escape : forall s rest : list Z, unquote_word (quoted_word s ++ rest) = Some (s, rest).
Proof. intros s rest. exact (unquote_escape_lemma s rest). Qed.
Print Assumptions unquote_escape.

(** The NUL-terminated delete / mkdir lists are split by `xargs -0` into exactly
    the paths that were listed, for every list of NUL-free paths (newlines
    included).  Non-emptiness is not needed in the model: an empty item also
    comes back as an empty item (no path is empty, and none contains a NUL). *)
Theorem xargs0_nul_list : forall ps : list (list Z), Forall (fun p => ~ In 0 p) ps -> xargs0 (nul_list ps) = ps.
Proof. intros ps. exact (xargs0_nul_list_lemma ps). Qed.
Print Assumptions xargs0_nul_list.

(** The push command publishes the staged bytes only if ALL announced bytes arrived. *)
Theorem remote_push_complete_only : forall (size : Z) (arrived : list Z),
  remote_push size arrived = true <-> Z.of_nat (length arrived) = size.
Proof. intros size arrived. exact (remote_push_iff size arrived). Qed.
Print Assumptions remote_push_complete_only.

(** Non-vacuity: a source file absent at the destination (a), one with another
    size (b), one the quick check matches although the bytes differ (c), an
    excluded source file (e.tmp), a destination-only file (d) and an excluded
    destination-only file (z.tmp), with --delete and --exclude=*.tmp; both
    completion orders; a failed delivery; a hostile name through the shell. *)
Example C04_nonvacuous :
  let src := mk_tree [([97], ([104;105], 5)); ([98], ([120], 7)); ([99], ([115;97], 3)); ([101;46;116;109;112], ([116], 1))] in
  let dst := mk_tree [([98], ([120;120], 7)); ([99], ([83;65], 3)); ([100], ([111], 9)); ([122;46;116;109;112], ([107], 2))] in
  let o := {| o_delete := true; o_excludes := [[42;46;116;109;112]]; o_dry_run := false |} in
  plan_of src dst o = {| transfer := [[97]; [98]]; skipped := 1; sp_delete := [[100]] |} /\
  (let r := run_oneway src dst o [[98]; [97]] (fun _ => false) in
   (ow_tree_list (r_dst r), r_exit_ok r, r_kind r, r_sent r) =
   ([([97], ([104;105], 5)); ([98], ([120], 7)); ([99], ([83;65], 3)); ([122;46;116;109;112], ([107], 2))], true, Ran, 2)) /\
  (let r := run_oneway src dst o [[97]; [98]] (fun _ => false) in
   ow_tree_list (r_dst r) =
   [([97], ([104;105], 5)); ([98], ([120], 7)); ([99], ([83;65], 3)); ([122;46;116;109;112], ([107], 2))]) /\
  (let r := run_oneway src dst o [[97]; [98]] (fun p => keq path_cmp p [97]) in
   (ow_tree_list (r_dst r), r_exit_ok r, r_failed r) =
   ([([98], ([120], 7)); ([99], ([83;65], 3)); ([122;46;116;109;112], ([107], 2))], false, 1)) /\
  quoted_word [105;116;39;115;32;92;10;36;42] = [36;39;105;116;92;39;115;32;92;92;10;36;42;39] /\
  unquote_word (quoted_word [105;116;39;115;32;92;10;36;42] ++ [32;120]) = Some ([105;116;39;115;32;92;10;36;42], [32;120]) /\
  xargs0 (nul_list [[97;10;98]; [45;120]]) = [[97;10;98]; [45;120]] /\
  remote_push 3 [1;2] = false /\ remote_push 3 [1;2;3] = true.
Proof. vm_compute. repeat split. Qed.

(** The model the theorems above are about is the translation of src/bin/copia/plan.rs (needs_transfer, glob_match) as it is now: the function
    generated from the source by tools/gen_logic.py (Gen/PlanGen.v) equals, on every input, Model/Plan.v needs_transfer and Model/Glob.v glob_match (the source's index-based loops are proved equal to the suffix-based loop)
    (statement: Proofs/TiePlan.v, [plan_model_is_translation]). *)
Require Copia.Proofs.TiePlan.
Theorem C04_model_is_translation_of_source : TiePlan.plan_model_is_translation.
Proof. exact TiePlan.plan_model_is_translation_holds. Qed.
Print Assumptions C04_model_is_translation_of_source.

(** The step sequence of one delivery in the crash model (open the staging file, one write per chunk, rename, set the
    mtime: the program-counter transitions of OneWaySteps.step) is the list of file-system calls of incremental.rs
    deliver_local / deliver_pull as the source has them now: the data goes into the destination's staging name, the
    rename publishes that very file onto the destination, the mtime is set on the destination afterwards
    (Gen/OneWaySysGen.v, Proofs/TieOneWaySys.v). *)
Require Copia.Proofs.TieOneWaySys.
Theorem C04_delivery_steps_are_translation_of_source : TieOneWaySys.oneway_delivery_is_translation.
Proof. exact TieOneWaySys.oneway_delivery_is_translation_holds. Qed.
Print Assumptions C04_delivery_steps_are_translation_of_source.

(** How the command line names the other side: `host:path` splits at the FIRST colon, and is remote only when the
    host part qualifies (sync arguments: longer than one character, no slash or backslash - main.rs FileLocation::parse;
    hub targets: non-empty, no slash - hub.rs split_target); the models are the translation of the current source
    (Model/Targets.v, Gen/TargetsGen.v, Proofs/TargetsProofs.v). *)
Require Copia.Model.Targets Copia.Proofs.TargetsProofs.
Theorem C04_split_target_spec : forall t h r : list BinNums.Z,
  Targets.split_target t = Some (h, r) <->
  t = h ++ Targets.COLON :: r /\ h <> nil /\ ~ In Targets.COLON h /\ ~ In Targets.SLASH h.
Proof. exact TargetsProofs.split_target_spec. Qed.
Print Assumptions C04_split_target_spec.
Theorem C04_parse_location_remote_spec : forall s h p : list BinNums.Z,
  Targets.parse_location s = Targets.LRemote h p <->
  s = h ++ Targets.COLON :: p /\ (1 < BinInt.Z.of_nat (length h))%Z /\ ~ In Targets.COLON h /\ ~ In Targets.SLASH h /\ ~ In Targets.BACKSLASH h.
Proof. exact TargetsProofs.parse_location_remote_spec. Qed.
Print Assumptions C04_parse_location_remote_spec.
Theorem C04_targets_are_translation_of_source : TargetsProofs.targets_model_is_translation.
Proof. exact TargetsProofs.targets_model_is_translation_holds. Qed.
Print Assumptions C04_targets_are_translation_of_source.

(** The local recursive run as a PROGRAM is the translation of incremental.rs `run_local` as the source has it now (the
    "no files" exit, the plan from build_plan on the two scans, the dry-run exit before anything is touched, the "up to
    date" exit, one spawned deliver_local per path of plan.transfer with the source's scanned mtime, the join, and only
    then the removal of plan.delete, the report), and [run_oneway] of the theorems above is its meaning: the same exit
    kind and plan, deliveries = plan.transfer, deletes = plan.delete after the join (Gen/OneWayRunGen.v,
    Proofs/TieOneWayRun.v). *)
Require Copia.Proofs.TieOneWayRun.
Theorem C04_local_run_is_translation_of_source : TieOneWayRun.oneway_run_is_translation.
Proof. exact TieOneWayRun.oneway_run_is_translation_holds. Qed.
Print Assumptions C04_local_run_is_translation_of_source.

(** The push / pull recursive run as a PROGRAM is the translation of incremental.rs `run_remote` as the source has it now:
    which scan is the source (push: the local one, pull: the remote one), the plan from build_plan, the dry-run exit
    before anything is touched, the directories on the receiving side, one spawned transfer per path of plan.transfer
    with the source's scanned mtime (transfer_file_to_remote / deliver_pull), the join, and only then
    apply_remote_deletes on plan.delete (Gen/RemoteRunGen.v, Proofs/TieRemoteRun.v). *)
Require Copia.Proofs.TieRemoteRun.
Theorem C04_remote_run_is_translation_of_source : TieRemoteRun.remote_run_is_translation.
Proof. exact TieRemoteRun.remote_run_is_translation_holds. Qed.
Print Assumptions C04_remote_run_is_translation_of_source.

(** What a dry run prints (one `send` line per path of plan.transfer, then one `delete` line per path of plan.delete;
    a real run prints neither) and the exit status of a run (ok exactly when no transfer failed) are the translation of
    incremental.rs `print_plan` / `report` as the source has them now (Gen/OneWayPrintGen.v, Proofs/TieOneWayPrint.v). *)
Require Copia.Proofs.TieOneWayPrint.
Theorem C04_print_and_exit_are_translation_of_source : TieOneWayPrint.oneway_print_is_translation.
Proof. exact TieOneWayPrint.oneway_print_is_translation_holds. Qed.
Print Assumptions C04_print_and_exit_are_translation_of_source.

(** The parser of the remote listing ([parse_listing]) is the translation of meta.rs `parse_remote_meta_output` as the
    source has it now: records between NUL bytes, cut at the first two TABs (the path keeps its own TABs), size as u64 or
    the record is skipped, mtime = the text before the first `.` as i64 or 0, one leading `./` removed, empty paths
    skipped, later records replace earlier ones (Gen/ListingParseGen.v, Proofs/TieListing.v). *)
Require Copia.Proofs.TieListing.
Theorem C04_listing_parser_is_translation_of_source : TieListing.listing_parser_is_translation.
Proof. exact TieListing.listing_parser_is_translation_holds. Qed.
Print Assumptions C04_listing_parser_is_translation_of_source.

(** The command a push runs on the remote side is the translation of transfer.rs `transfer_file_to_remote` as the source
    has it now: `cat > T && [ "$(wc -c < T)" -eq SIZE ] && mv -f T D [&& touch -d @MTIME D]` where every path is the
    word `$'..'` of Model/ShellQuote.v ([quoted_word]: the two `replace` calls are [escape]) and T is D with the staging
    suffix (Gen/PushCommandGen.v, Proofs/TiePushCommand.v); likewise the pull streamer's `cat $'..'`, the remote scan's
    `cd $'..' && find . -type f -printf ..` and the NUL-terminated directory list a push hands to `xargs -0 mkdir -p`. *)
Require Copia.Proofs.TiePushCommand.
Theorem C04_push_command_is_translation_of_source : TiePushCommand.push_command_is_translation.
Proof. exact TiePushCommand.push_command_is_translation_holds. Qed.
Print Assumptions C04_push_command_is_translation_of_source.

(** The local scan ([meta_of]) is the translation of meta.rs `mtime_secs` / `discover_local_with_meta` as the source has
    them now: every listed file that can be stat-ed enters the map with its size and its modification time in WHOLE
    seconds since the epoch (sub-second part dropped; before the epoch or unknown: 0); a file that cannot be stat-ed is
    skipped (Gen/LocalScanGen.v, Proofs/TieLocalScan.v). *)
Require Copia.Proofs.TieLocalScan.
Theorem C04_local_scan_is_translation_of_source : TieLocalScan.local_scan_is_translation.
Proof. exact TieLocalScan.local_scan_is_translation_holds. Qed.
Print Assumptions C04_local_scan_is_translation_of_source.
