(** C17 - rolling checksums equal their definition after any operations.
    Property theorems only; each is closed by [exact] of a lemma from
    Proofs/ChecksumProofs.v and followed by [Print Assumptions]. *)
From Coq Require Import ZArith List Lia.
From Copia Require Import Gen.Constants Model.Checksum Gen.ChecksumGen Proofs.ChecksumTie Proofs.ChecksumProofs.
Import ListNotations.
Open Scope Z_scope.

(** For every initial window of at most 65536 bytes (possibly empty) and every
    history of appends and one-byte slides that keeps the window within 65536
    bytes and never slides an empty window: both types' digests equal the
    definition on the current window, equal the digest of a fresh construction
    from the current window, agree with each other; RollingChecksum's components
    are below 65521 and both reported lengths are the window length. *)
Theorem C17_history_digest : forall (w0 : list Z) (ops : list op),
  bytes w0 -> Z.of_nat (length w0) <= 65536 -> valid_ops 65536 w0 ops ->
  let '(r, f, w) := run_ops (rc_new w0) (frc_new w0) w0 ops in
  rc_digest r = spec_digest w /\ frc_digest f = spec_digest w /\
  rc_digest r = rc_digest (rc_new w) /\ frc_digest f = frc_digest (frc_new w) /\
  rc_digest r = frc_digest f /\
  0 <= ra r < 65521 /\ 0 <= rb r < 65521 /\
  rcount r = Z.of_nat (length w) /\ fcount f = Z.of_nat (length w).
Proof. exact history_digest. Qed.
Print Assumptions C17_history_digest.

(** The definition is literally ((B mod 65521) << 16) | (A mod 65521) for the
    exact sums A = sum x_i, B = sum (n-i) x_i. *)
Theorem C17_digest_is_formula : forall w : list Z,
  spec_digest w = Z.lor (Z.shiftl ((sumB w) mod 65521) 16) ((sumA w) mod 65521).
Proof. exact digest_is_formula. Qed.
Print Assumptions C17_digest_is_formula.

(** No machine operation of either type leaves its integer width on such a
    history: the checked profile cannot trap and the shipped profile never
    wraps (the checked semantics returns exactly the wrapping semantics). *)
Theorem C17_no_overflow : forall (w0 : list Z) (ops : list op),
  bytes w0 -> Z.of_nat (length w0) <= 65536 -> valid_ops 65536 w0 ops ->
  rc_new_ck w0 = Some (rc_new w0) /\ frc_new_ck w0 = Some (frc_new w0) /\
  run_ops_ck (rc_new w0) (frc_new w0) w0 ops = Some (run_ops (rc_new w0) (frc_new w0) w0 ops).
Proof. exact history_no_trap. Qed.
Print Assumptions C17_no_overflow.

(** Both constructors agree on every window. *)
Theorem C17_types_agree_on_new : forall w : list Z,
  bytes w -> Z.of_nat (length w) <= 65536 -> rc_digest (rc_new w) = frc_digest (frc_new w).
Proof. exact new_agree. Qed.
Print Assumptions C17_types_agree_on_new.

(** The model the theorems above are about is the translation of src/checksum.rs as it is now: every function
    generated from the source by tools/gen_checksum.py (Gen/ChecksumGen.v, both integer semantics: new, roll, push,
    digest of both types) equals the corresponding function of Model/Checksum.v. *)
Theorem C17_model_is_translation_of_source : model_is_translation.
Proof. exact model_is_translation_holds. Qed.
Print Assumptions C17_model_is_translation_of_source.

(** Non-vacuity: a concrete history meets the hypotheses, and the digest computed
    by the model on it is the expected number. *)
Example C17_nonvacuous :
  bytes [255; 254; 7] /\ valid_ops 65536 [255; 254; 7] [Roll 9; Push 200; Roll 0] /\
  (let '(r, f, w) := run_ops (rc_new [255;254;7]) (frc_new [255;254;7]) [255;254;7] [Roll 9; Push 200; Roll 0] in
   (w, rc_digest r, frc_digest f)) = ([7; 9; 200; 0], 29819096, 29819096).
Proof.
  split; [repeat constructor; lia|]. split; [|vm_compute; reflexivity].
  cbn [valid_ops app tl length]. repeat split; try lia; discriminate.
Qed.
