(** C07 - a lost, damaged or foreign archive never causes a delete.
    Property theorems only.  Quantified as in C02/C06; additionally over EVERY parser
    [parse] (serde_json is not modelled: whatever it returns for whatever bytes,
    [load] trusts only the right version and pair - the part "every damaged byte
    string fails to parse or fails these checks" rests on the enumeration against
    the real [Archive::load] in the tie, not on a theorem).
    A load that yields nothing is the state [arch = None] of Model/Bisync.v. *)
From stdpp Require Import gmap sorting.
From Copia Require Import Gen.Constants Model.Archive Proofs.ArchiveProofs Model.Bisync Proofs.BisyncProofs.

(** [Archive::load] returns entries exactly when the file could be read and parsed
    to a record with the current format version and the expected pair identity. *)
Theorem C07_load_checks :
  forall (E : Type) (parse : list Z -> option (Z * list Z * E)) (file : option (list Z)) (expected : list Z) (e : E),
  load_file E parse file expected = Some e <->
  exists bytes, file = Some bytes /\ parse bytes = Some (ARCHIVE_FORMAT_VERSION, expected, e).
Proof. exact load_checks. Qed.
Print Assumptions C07_load_checks.

Section C07.
Context `{Countable K} {D : Type} `{EqDecision D}.
Variable Hh : list Z -> D.
Variable dge : D -> D -> bool.
Variable cname : K -> D -> K.
Variable kle : K -> K -> bool.
Notation state := (@state K _ _ D).
Notation hop := (@hop K).
Notation run := (bisync_run Hh dge cname kle).
Notation hrun := (hrun Hh dge cname kle).
Notation HashOk := (HashOk Hh).
Notation Fresh := (Fresh Hh dge cname).
Notation conflict := (conflict Hh dge cname).
Notation fresh_hist := (fresh_hist Hh dge cname kle).

(** Without a trusted record the plan contains no delete (for any two scans). *)
Theorem C07_untrusted_plan_no_delete :
  forall (a b : gmap K D) p, (p, DelA) ∉ plan kle a b None /\ (p, DelB) ∉ plan kle a b None.
Proof. exact (untrusted_plan_no_delete kle). Qed.

(** Without a trusted record a run removes nothing: every version present before
    is on BOTH sides afterwards (at its path, or at the conflict name generated for
    it), every path of either side exists on both sides, and the trees are equal. *)
Theorem C07_untrusted_run_preserves_all :
  forall (s s' : state) e pl, HashOk s -> Fresh s -> arch s = None -> run s = (s', e, pl) ->
  (forall sd p c, side_tree sd s !! p = Some c ->
     exists x, (x = p \/ conflict s p = Some (x, c)) /\ tA s' !! x = Some c /\ tB s' !! x = Some c) /\
  dom (tA s) ∪ dom (tB s) ⊆ dom (tA s') /\ dom (tA s') = dom (tB s').
Proof. exact (untrusted_run_preserves_all Hh dge cname kle). Qed.

(** The same inside any history: after a fault at any point (followed by any user
    writes / deletes), the next run preserves everything, whatever was recorded or
    deleted before the fault. *)
Theorem C07_fault_then_history_no_loss :
  forall (s0 : state) (pre1 pre2 : list hop),
  (forall c c', Hh c = Hh c' -> c = c') -> Forall is_user_op pre2 ->
  fresh_hist s0 (pre1 ++ HFault :: pre2 ++ [HRun]) ->
  let s := hrun s0 (pre1 ++ HFault :: pre2) in
  let s' := hrun s0 (pre1 ++ HFault :: pre2 ++ [HRun]) in
  (forall sd p c, side_tree sd s !! p = Some c ->
     exists x, (x = p \/ conflict s p = Some (x, c)) /\ tA s' !! x = Some c /\ tB s' !! x = Some c) /\
  dom (tA s) ∪ dom (tB s) ⊆ dom (tA s') /\ dom (tA s') = dom (tB s').
Proof. exact (fault_then_history_no_loss Hh dge cname kle). Qed.
End C07.

Print Assumptions C07_untrusted_plan_no_delete.
Print Assumptions C07_untrusted_run_preserves_all.
Print Assumptions C07_fault_then_history_no_loss.

(** Non-vacuity: after a completed run B deletes a recorded file; with the record
    the delete would be propagated (the plan is [DelA]); after a fault the same
    trees give [PropAB] and the file is back on both sides.  And [load] accepts a
    record of the right version and pair, and nothing else. *)
Example C07_nonvacuous :
  let Hh := fun c : list Z => c in
  let dge := fun a b : list Z => (default 0 (head b) <=? default 0 (head a))%Z in
  let cname := fun (p : nat) (d : list Z) => (100 + p)%nat in
  let s0 : @state nat _ _ (list Z) := {| tA := {[ 1%nat := [1]%Z ]}; tB := ∅; arch := None |} in
  let s1 := hrun Hh dge cname Nat.leb s0 [HRun; HDelete SB 1%nat] in
  let s2 := hrun Hh dge cname Nat.leb s0 [HRun; HDelete SB 1%nat; HFault] in
  let parse := fun bytes : list Z => match bytes with v :: p :: e => Some (v, [p], e) | _ => None end in
  (bisync_run Hh dge cname Nat.leb s1).2 = [(1%nat, DelA)] /\
  fresh_hist Hh dge cname Nat.leb s0 [HRun; HDelete SB 1%nat; HFault; HRun] /\
  (bisync_run Hh dge cname Nat.leb s2).2 = [(1%nat, PropAB)] /\
  map_to_list (tB (bisync_run Hh dge cname Nat.leb s2).1.1) = [(1%nat, [1]%Z)] /\
  load_file _ parse (Some [1; 42; 7]%Z) [42]%Z = Some [7]%Z /\
  load_file _ parse (Some [2; 42; 7]%Z) [42]%Z = None /\
  load_file _ parse (Some [1; 43; 7]%Z) [42]%Z = None /\
  load_file _ parse (Some [1]%Z) [42]%Z = None /\ load_file _ parse None [42]%Z = None.
Proof.
  cbv zeta. split; [vm_compute; reflexivity|]. split.
  - cbn [fresh_hist].
    repeat match goal with
           | |- _ /\ _ => split
           | |- True => exact I
           | |- _ = HRun -> _ =>
               (intros X; discriminate X) || (intros _; apply fresh_check_sound; vm_compute; reflexivity)
           end.
  - vm_compute. repeat split.
Qed.

(** The model the theorems above are about is the translation of src/bin/copia/reconcile.rs (Fingerprint::same, reconcile_path) as it is now: the function
    generated from the source by tools/gen_logic.py (Gen/ReconcileGen.v) equals, on every input, Model/Reconcile.v reconcile_path
    (statement: Proofs/TieReconcile.v, [reconcile_model_is_translation]). *)
Require Copia.Proofs.TieReconcile.
Theorem C07_model_is_translation_of_source : TieReconcile.reconcile_model_is_translation.
Proof. exact TieReconcile.reconcile_model_is_translation_holds. Qed.
Print Assumptions C07_model_is_translation_of_source.

(** The trust decision of Archive::load the theorems above are about is the translation of src/bin/copia/archive.rs
    as it is now (Gen/ArchiveGen.v, generated by tools/gen_logic.py; statement: Proofs/TieArchive.v). *)
Require Copia.Proofs.TieArchive.
Theorem C07_archive_load_is_translation_of_source : TieArchive.archive_model_is_translation.
Proof. exact TieArchive.archive_model_is_translation_holds. Qed.
Print Assumptions C07_archive_load_is_translation_of_source.

(** The bisync model's OWN per-path decision ([rpath], on digests of regular files, [None] = Noop) is the image of the
    function generated from the current source of reconcile.rs `reconcile_path` (Proofs/TieBisync.v), and its [apply]
    is the effect list generated from the current source of bidir.rs `apply`, run on the working state
    (Proofs/TieBisyncApply.v; premises: no failure so far, a conflict name differs from its path, the scanned files
    are still in the working trees - [tie_apply_vanished_source] shows the one place where the hand-written model and
    the source part ways without the last one). *)
Require Copia.Proofs.TieBisync Copia.Proofs.TieBisyncApply.
Theorem C07_decision_is_translation_of_source : TieBisync.bisync_decision_is_translation.
Proof. exact TieBisync.bisync_decision_is_translation_holds. Qed.
Print Assumptions C07_decision_is_translation_of_source.
Theorem C07_apply_is_translation_of_source : TieBisyncApply.bisync_apply_is_translation.
Proof. exact TieBisyncApply.bisync_apply_is_translation_holds. Qed.
Print Assumptions C07_apply_is_translation_of_source.

(** [bisync_run] / [bisync_dry] - the run of the theorems above - are the translation of bidir.rs `run_bisync` as the
    source has it now: `trust_base` = a record was loaded, the plan from `reconcile` on (a, b, base, trust_base), the
    dry-run exit before anything is touched (printing exactly the plan), the base pruned to paths present on a side,
    `apply(..)?` per plan entry in order, the record saved only after the last apply, the exit status from the conflict
    count (Gen/BisyncRunGen.v, Proofs/TieBisyncRun.v). *)
Require Copia.Proofs.TieBisyncRun.
Theorem C07_run_is_translation_of_source : TieBisyncRun.bisync_run_is_translation.
Proof. exact TieBisyncRun.bisync_run_is_translation_holds. Qed.
Print Assumptions C07_run_is_translation_of_source.

(** The key under which a pair's common state is recorded is the translation of archive.rs `root_pair_hash` as the source
    has it now - the hexadecimal BLAKE3 of `canonical(A) NUL canonical(B)` - and, where BLAKE3 does not collide, two
    pairs have the same key exactly when their canonical roots are the same in the same order (Gen/PairKeyGen.v,
    Proofs/TiePairKey.v). *)
Require Copia.Proofs.TiePairKey.
Theorem C07_pair_key_is_translation_of_source : TiePairKey.pair_key_is_translation.
Proof. exact TiePairKey.pair_key_is_translation_holds. Qed.
Print Assumptions C07_pair_key_is_translation_of_source.
