(** C02 - bisync never loses a file version.
    Property theorems only.  Quantified as in C06 (any path / digest types, any
    [Hh], [dge], [cname], [kle]; trees of any size) and over ARBITRARY finite
    histories of writes, deletes, runs and archive faults from arbitrary initial
    trees (induction over the history; no bound on its length).

    Premises, explicit in every theorem:
      [HashOk s] / [Hinj]  BLAKE3 collision-freeness: for one run only between the
                  two files of one path; over a history for the contents compared
                  across runs, stated as injectivity of [Hh];
      [Fresh s] / [fresh_hist]  every run starts in the "no name clash" class (see
                  C06.v).  Outside it a version IS lost: [C02_name_clash_loses_version]. *)
From stdpp Require Import gmap sorting.
From Copia Require Import Model.Bisync Proofs.BisyncProofs.

Section C02.
Context `{Countable K} {D : Type} `{EqDecision D}.
Variable Hh : list Z -> D.
Variable dge : D -> D -> bool.
Variable cname : K -> D -> K.
Variable kle : K -> K -> bool.
Notation state := (@state K _ _ D).
Notation hop := (@hop K).
Notation run := (bisync_run Hh dge cname kle).
Notation hstep := (hstep Hh dge cname kle).
Notation hrun := (hrun Hh dge cname kle).
Notation HashOk := (HashOk Hh).
Notation Fresh := (Fresh Hh dge cname).
Notation conflict := (conflict Hh dge cname).
Notation fresh_hist := (fresh_hist Hh dge cname kle).

(** The auxiliary notions used below, pinned here (all by computation): the side
    selectors, "user operation", and "every run of the history starts in [Fresh]". *)
Theorem C02_definitions_unfold :
  (forall s : state, side_tree SA s = tA s /\ side_tree SB s = tB s) /\ other SA = SB /\ other SB = SA /\
  (forall o : hop, is_user_op o <-> exists sd p, (exists c, o = HWrite sd p c) \/ o = HDelete sd p) /\
  (forall s : state, fresh_hist s [] <-> True) /\
  (forall (s : state) o r, fresh_hist s (o :: r) <-> (o = HRun -> Fresh s) /\ fresh_hist (hstep s o) r).
Proof.
  split; [intros s; split; reflexivity|]. split; [reflexivity|]. split; [reflexivity|].
  split; [|split; intros; reflexivity].
  intros [sd p c|sd p| |]; cbn; split; try tauto; eauto 6;
    intros (sd' & p' & [[c' X]|X]); discriminate X.
Qed.

(** One run.  Every version [c] present at [p] on side [sd] when the run starts is
    afterwards held by BOTH trees - at [p], or at the conflict name this run
    generated for [p] with [c] as the loser - unless the record holds [c]'s digest
    for [p] and the other side's entry at [p] is no longer [c] (changed or deleted:
    [c] is the superseded base version). *)
Theorem C02_run_no_loss :
  forall (s s' : state) e pl, HashOk s -> Fresh s -> run s = (s', e, pl) ->
  forall sd p c, side_tree sd s !! p = Some c ->
    (exists x, (x = p \/ conflict s p = Some (x, c)) /\ tA s' !! x = Some c /\ tB s' !! x = Some c) \/
    (exists z, arch s = Some z /\ z !! p = Some (Hh c) /\ side_tree (other sd) s !! p <> Some c).
Proof. exact (run_no_loss Hh dge cname kle). Qed.

(** The record is truthful: after every completed run it is exactly the tree both
    sides hold; user writes and deletes do not touch it; a fault empties it. *)
Theorem C02_arch_truthful :
  (forall s : state, HashOk s -> Fresh s ->
     tA (hstep s HRun) = tB (hstep s HRun) /\ arch (hstep s HRun) = Some (Hh <$> tA (hstep s HRun))) /\
  (forall (s : state) sd p c, arch (hstep s (HWrite sd p c)) = arch s) /\
  (forall (s : state) sd p, arch (hstep s (HDelete sd p)) = arch s) /\
  (forall s : state, arch (hstep s HFault) = None).
Proof.
  split; [exact (run_arch_truthful Hh dge cname kle)|].
  split; [intros s [] p c; reflexivity|]. split; [intros s [] p; reflexivity|]. reflexivity.
Qed.

(** Along any history from an unrecorded start: whenever a record is trusted it is
    the tree BOTH sides held at the end of the most recent run, and only user
    writes / deletes happened since. *)
Theorem C02_arch_is_previous_run :
  forall (s0 : state) (ops : list hop) z,
  (forall c c', Hh c = Hh c' -> c = c') -> arch s0 = None -> fresh_hist s0 ops ->
  arch (hrun s0 ops) = Some z ->
  exists pre post, ops = pre ++ HRun :: post /\ Forall is_user_op post /\
    tA (hrun s0 (pre ++ [HRun])) = tB (hrun s0 (pre ++ [HRun])) /\
    z = Hh <$> tA (hrun s0 (pre ++ [HRun])).
Proof. exact (arch_origin Hh dge cname kle). Qed.

(** Histories.  At EVERY run of every history (the run after the prefix [pre]): a
    version present on either side when the run starts is on both sides when it
    ends, unless it is the version both sides held at [p] at the end of the previous
    completed run, nothing but user writes / deletes happened since, and the other
    side no longer holds it.  Covers paths deleted on both sides and recreated
    (the repaired [prune]), repeated conflicts with the same loser (inside [Fresh]),
    archive faults at any point ([HFault] in [pre]). *)
Theorem C02_history_no_loss :
  forall (s0 : state) (pre : list hop),
  (forall c c', Hh c = Hh c' -> c = c') -> arch s0 = None -> fresh_hist s0 (pre ++ [HRun]) ->
  let s := hrun s0 pre in
  let s' := hrun s0 (pre ++ [HRun]) in
  forall sd p c, side_tree sd s !! p = Some c ->
    (exists x, (x = p \/ conflict s p = Some (x, c)) /\ tA s' !! x = Some c /\ tB s' !! x = Some c) \/
    (exists pre1 pre2, pre = pre1 ++ HRun :: pre2 /\ Forall is_user_op pre2 /\
       tA (hrun s0 (pre1 ++ [HRun])) !! p = Some c /\ tB (hrun s0 (pre1 ++ [HRun])) !! p = Some c /\
       side_tree (other sd) s !! p <> Some c).
Proof. exact (history_no_loss Hh dge cname kle). Qed.
End C02.

Print Assumptions C02_definitions_unfold.
Print Assumptions C02_run_no_loss.
Print Assumptions C02_arch_truthful.
Print Assumptions C02_arch_is_previous_run.
Print Assumptions C02_history_no_loss.

(** The known class is real (finding F5): an edited conflict copy ([7] at 101 on
    both sides) is overwritten on both sides by a repeated conflict whose name is
    101; [7] is nowhere afterwards, and it was not a recorded version.  The state is
    outside [Fresh]; the record also stops matching the tree. *)
Theorem C02_name_clash_loses_version :
  let Hh := fun c : list Z => c in
  let dge := fun a b : list Z => (default 0 (head b) <=? default 0 (head a))%Z in
  let cname := fun (p : nat) (d : list Z) => (100 + p)%nat in
  let s : @state nat _ _ (list Z) :=
    {| tA := {[ 1%nat := [2]%Z ; 101%nat := [7]%Z ]}; tB := {[ 1%nat := [1]%Z ; 101%nat := [7]%Z ]}; arch := None |} in
  let r := bisync_run Hh dge cname Nat.leb s in
  ~ Fresh Hh dge cname s /\ r.1.2 = ExitConflicts /\
  map_to_list (tA r.1.1) = [(1%nat, [2]%Z); (101%nat, [1]%Z)] /\
  map_to_list (tB r.1.1) = [(1%nat, [2]%Z); (101%nat, [1]%Z)] /\
  (map_to_list <$> arch r.1.1) = Some [(1%nat, [2]%Z); (101%nat, [7]%Z)].
Proof.
  cbv zeta. split.
  - intros [F1 _]. destruct (F1 1%nat 101%nat [1]%Z) as ([X|X] & _); [vm_compute; reflexivity| |]; vm_compute in X; discriminate X.
  - vm_compute. repeat split.
Qed.
Print Assumptions C02_name_clash_loses_version.

(** Non-vacuity: a history with a run, edits on both sides, a delete, a second run
    (a propagated delete of a recorded version, a conflict, a creation), a fault
    and a third run; every run starts in a [Fresh] state. *)
Example C02_nonvacuous :
  let Hh := fun c : list Z => c in
  let dge := fun a b : list Z => (default 0 (head b) <=? default 0 (head a))%Z in
  let cname := fun (p : nat) (d : list Z) => (100 + p)%nat in
  let s0 : @state nat _ _ (list Z) :=
    {| tA := {[ 1%nat := [1]%Z ; 2%nat := [5]%Z ]}; tB := {[ 1%nat := [1]%Z ]}; arch := None |} in
  let ops : list (@hop nat) :=
    [HRun; HWrite SA 1%nat [3]%Z; HWrite SB 1%nat [4]%Z; HDelete SB 2%nat; HWrite SB 3%nat [9]%Z; HRun;
     HFault; HDelete SA 3%nat; HRun] in
  let s := hrun Hh dge cname Nat.leb s0 ops in
  fresh_hist Hh dge cname Nat.leb s0 ops /\
  map_to_list (tA s) = [(1%nat, [4]%Z); (3%nat, [9]%Z); (101%nat, [3]%Z)] /\
  map_to_list (tB s) = map_to_list (tA s) /\
  (map_to_list <$> arch s) = Some (map_to_list (tA s)).
Proof.
  cbv zeta. split.
  - cbn [fresh_hist].
    repeat match goal with
           | |- _ /\ _ => split
           | |- True => exact I
           | |- _ = HRun -> _ =>
               (intros X; discriminate X) || (intros _; apply fresh_check_sound; vm_compute; reflexivity)
           end.
  - vm_compute. repeat split.
Qed.

(** The model the theorems above are about is the translation of src/bin/copia/reconcile.rs (Fingerprint::same, reconcile_path) as it is now: the function
    generated from the source by tools/gen_logic.py (Gen/ReconcileGen.v) equals, on every input, Model/Reconcile.v reconcile_path
    (statement: Proofs/TieReconcile.v, [reconcile_model_is_translation]). *)
Require Copia.Proofs.TieReconcile.
Theorem C02_model_is_translation_of_source : TieReconcile.reconcile_model_is_translation.
Proof. exact TieReconcile.reconcile_model_is_translation_holds. Qed.
Print Assumptions C02_model_is_translation_of_source.

(** The bisync model's OWN per-path decision ([rpath], on digests of regular files, [None] = Noop) is the image of the
    function generated from the current source of reconcile.rs `reconcile_path` (Proofs/TieBisync.v), and its [apply]
    is the effect list generated from the current source of bidir.rs `apply`, run on the working state
    (Proofs/TieBisyncApply.v; premises: no failure so far, a conflict name differs from its path, the scanned files
    are still in the working trees - [tie_apply_vanished_source] shows the one place where the hand-written model and
    the source part ways without the last one). *)
Require Copia.Proofs.TieBisync Copia.Proofs.TieBisyncApply.
Theorem C02_decision_is_translation_of_source : TieBisync.bisync_decision_is_translation.
Proof. exact TieBisync.bisync_decision_is_translation_holds. Qed.
Print Assumptions C02_decision_is_translation_of_source.
Theorem C02_apply_is_translation_of_source : TieBisyncApply.bisync_apply_is_translation.
Proof. exact TieBisyncApply.bisync_apply_is_translation_holds. Qed.
Print Assumptions C02_apply_is_translation_of_source.

(** [bisync_run] / [bisync_dry] - the run of the theorems above - are the translation of bidir.rs `run_bisync` as the
    source has it now: `trust_base` = a record was loaded, the plan from `reconcile` on (a, b, base, trust_base), the
    dry-run exit before anything is touched (printing exactly the plan), the base pruned to paths present on a side,
    `apply(..)?` per plan entry in order, the record saved only after the last apply, the exit status from the conflict
    count (Gen/BisyncRunGen.v, Proofs/TieBisyncRun.v). *)
Require Copia.Proofs.TieBisyncRun.
Theorem C02_run_is_translation_of_source : TieBisyncRun.bisync_run_is_translation.
Proof. exact TieBisyncRun.bisync_run_is_translation_holds. Qed.
Print Assumptions C02_run_is_translation_of_source.

(** The conflict-copy names are the translation of the source as it is now: bidir.rs `short_hex` / wire.rs `short_hash`
    give the first six digest bytes as twelve lower-case hexadecimal digits; the name built in `apply` is
    `<rel>.conflict-<host>-<digits>` ([bi_cname] - the function of the name-format theorem); the hub's name built in
    `handle_put` is `<dst>.conflict-<digits>` ([conflict_name] of Model/SafeJoin.v); the staging name of `create_staging` is the
    destination path plus a slash-free suffix ending in `.copia-tmp` (Gen/ConflictNameGen.v,
    Proofs/TieConflictName.v). *)
Require Copia.Proofs.TieConflictName.
Theorem C02_conflict_names_are_translation_of_source : TieConflictName.conflict_name_is_translation.
Proof. exact TieConflictName.conflict_name_is_translation_holds. Qed.
Print Assumptions C02_conflict_names_are_translation_of_source.
