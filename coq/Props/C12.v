(** C12 - the hub's wire input is handled totally, boundedly and in step.
    Property theorems only.  Quantified over EVERY input byte string, every CBOR
    decoder [decode] and every handler [handle] (section variables of Model/Wire.v). *)
From Coq Require Import ZArith List Bool.
From Copia Require Import Gen.Constants Model.Wire Proofs.WireProofs.
Import ListNotations.
Open Scope Z_scope.

Section C12.
Variable T request R : Type.
Variable decode : list Z -> option request.
Variable is_bye : request -> bool.
Variable content_len : request -> Z.
Variable handle : T -> request -> list Z -> option (T * R).
Notation serve_input := (serve_input T request R decode is_bye content_len handle).
Notation loop := (loop T request R decode is_bye content_len handle).

(** The loop terminates on every input (the fuel |input|+1 always suffices): the
    server never spins after its input is closed; it exits 0 or with an error. *)
Theorem C12_serve_total : forall inp t,
  o_exit T R (serve_input inp t) = Exit0 \/ o_exit T R (serve_input inp t) = ExitError.
Proof. exact (serve_total T request R decode is_bye content_len handle). Qed.

(** Every control-frame buffer it reserves is at most MAX_FRAME (1 MiB) bytes; an
    oversize prefix is rejected before anything is reserved. *)
Theorem C12_alloc_bounded : forall inp t,
  Forall (fun a => a <= MAX_FRAME) (o_allocs T R (serve_input inp t)) /\ MAX_FRAME = 1048576.
Proof. intros inp t. split; [exact (serve_alloc_bounded T request R decode is_bye content_len handle inp t)|reflexivity]. Qed.

(** Nothing changes before a valid prologue: fewer than 6 bytes or a wrong magic
    gives an error exit, no reply, no reservation, the tree untouched ... *)
Theorem C12_bad_prologue_no_effect : forall inp t,
  (Z.of_nat (length inp) < 6 \/ firstn 6 inp <> MAGIC) ->
  o_exit T R (serve_input inp t) = ExitError /\ o_tree T R (serve_input inp t) = t /\
  o_replies T R (serve_input inp t) = [] /\ o_allocs T R (serve_input inp t) = [].
Proof. exact (serve_bad_prologue T request R decode is_bye content_len handle). Qed.

(** ... and the tree only ever changes through the handler of a well-framed,
    decoded request, which always produces a reply: no reply, no change. *)
Theorem C12_no_effect_without_request : forall inp t,
  o_replies T R (serve_input inp t) = [] -> o_tree T R (serve_input inp t) = t.
Proof. exact (serve_no_effect_without_reply T request R decode is_bye content_len handle). Qed.

(** The stream stays in step: a well-framed request (with the content it
    announces) is consumed exactly, whatever its reply, and the rest of the input
    is handled as a session continuing from the handler's tree. *)
Theorem C12_in_step : forall fuel payload rq content rest t out al t' reply,
  Z.of_nat (length payload) <= MAX_FRAME -> MAX_FRAME < 2^32 ->
  decode payload = Some rq -> is_bye rq = false ->
  Z.of_nat (length content) = Z.max 0 (content_len rq) ->
  handle t rq content = Some (t', reply) ->
  loop (S fuel) (frame payload ++ content ++ rest) t out al =
  loop fuel rest t' (out ++ [reply]) (al ++ [Z.of_nat (length payload)]).
Proof. exact (loop_in_step T request R decode is_bye content_len handle). Qed.
End C12.

Print Assumptions C12_serve_total.
Print Assumptions C12_alloc_bounded.
Print Assumptions C12_bad_prologue_no_effect.
Print Assumptions C12_no_effect_without_request.
Print Assumptions C12_in_step.

(** Non-vacuity: a banner before the magic is an error exit with no effect; a
    0xFFFFFFFF length prefix reserves nothing. *)
Example C12_nonvacuous :
  let dec := fun _ : list Z => Some tt in
  let h := fun (t : nat) (_ : unit) (_ : list Z) => Some (S t, tt) in
  let run := serve_input nat unit unit dec (fun _ => false) (fun _ => 0) h in
  o_exit _ _ (run [104;105;67;79;80;73;65;49] 0%nat) = ExitError /\
  o_allocs _ _ (run (MAGIC ++ [255;255;255;255;1;2;3]) 0%nat) = [] /\
  o_exit _ _ (run (MAGIC ++ [255;255;255;255;1;2;3]) 0%nat) = ExitError /\
  o_tree _ _ (run (MAGIC ++ [0;0;0;1;9] ++ [0;0;0;0] ++ [0;0]) 0%nat) = 2%nat /\
  o_exit _ _ (run (MAGIC ++ [0;0;0;1;9] ++ [0;0;0;0] ++ [0;0]) 0%nat) = Exit0.
Proof. vm_compute. repeat split. Qed.

(** The model the theorems above are about is the translation of src/bin/copia/serve.rs safe_join as it is now: the function
    generated from the source by tools/gen_logic.py (Gen/SafeJoinGen.v) equals, on every input, Model/SafeJoin.v safe_join
    (statement: Proofs/TieSafeJoin.v, [safe_join_model_is_translation]). *)
Require Copia.Proofs.TieSafeJoin.
Theorem C12_model_is_translation_of_source : TieSafeJoin.safe_join_model_is_translation.
Proof. exact TieSafeJoin.safe_join_model_is_translation_holds. Qed.
Print Assumptions C12_model_is_translation_of_source.

(** The prologue test of the modelled read loop is the translation of wire.rs `read_magic` as it is now (exactly six
    bytes, all six compared with MAGIC), and a session is served only when it answers true
    (Gen/WireMagicGen.v, Proofs/TieWireMagic.v). *)
Require Copia.Proofs.TieWireMagic.
Theorem C12_prologue_is_translation_of_source : TieWireMagic.wire_magic_is_translation.
Proof. exact TieWireMagic.wire_magic_is_translation_holds. Qed.
Print Assumptions C12_prologue_is_translation_of_source.

(** The sequential Put and Delete handlers of Model/HubSeq.v ([seq_handle], defined through the CAS specification
    [spec] of Model/Hub.v) are the translation of serve.rs `handle_put` / `handle_delete` / `handle_get` as the source has them now,
    read as functions of the served tree: refusal, the length and hash checks, the compare-and-swap on the CURRENT
    hash, which name the staging file is renamed onto, and the reply (Gen/HubDeleteGen.v, Proofs/TieHubDelete.v). *)
Require Copia.Proofs.TieHubDelete.
Theorem C12_handlers_are_translation_of_source : TieHubDelete.hub_delete_is_translation.
Proof. exact TieHubDelete.hub_delete_is_translation_holds. Qed.
Print Assumptions C12_handlers_are_translation_of_source.

(** One iteration of the read loop of the theorems above is the translation of wire.rs `read_frame` as the source has it
    now - four length bytes (fewer left = clean end), the MAX_FRAME test BEFORE the buffer is reserved, exactly that many
    payload bytes, the decoder - followed by the dispatch (Gen/WireFrameGen.v, Proofs/TieWireFrame.v); and the
    translated function never reserves more than MAX_FRAME bytes. *)
Require Copia.Proofs.TieWireFrame.
Theorem C12_framing_is_translation_of_source : TieWireFrame.wire_frame_is_translation.
Proof. exact TieWireFrame.wire_frame_is_translation_holds. Qed.
Print Assumptions C12_framing_is_translation_of_source.
Theorem C12_translated_read_frame_alloc_bounded :
  forall (request : Type) (decode : list BinNums.Z -> option request) (inp : list BinNums.Z),
  match WireFrameGen.g_read_frame request decode inp with
  | WireFrameGen.FShort _ a _ | WireFrameGen.FBad _ a _ | WireFrameGen.FOk _ a _ _ => (a <= Wire.MAX_FRAME)%Z
  | _ => True
  end.
Proof. exact TieWireFrame.read_frame_alloc_bounded. Qed.
Print Assumptions C12_translated_read_frame_alloc_bounded.

(** The dispatch of the read loop is the translation of serve.rs `serve` as the source has it now: the served directory
    and its control directory are created, the prologue is tested, and only when it is the magic every decoded request
    up to `Bye` goes to its handler with its own fields (Hello -> the server's version; List -> the reviewed listing block;
    Get / Put / Delete -> handle_get / handle_put / handle_delete); nothing else happens before the prologue is accepted
    (Gen/ServeLoopGen.v, Proofs/TieServeLoop.v). *)
Require Copia.Proofs.TieServeLoop.
Theorem C12_dispatch_is_translation_of_source : TieServeLoop.serve_loop_is_translation.
Proof. exact TieServeLoop.serve_loop_is_translation_holds. Qed.
Print Assumptions C12_dispatch_is_translation_of_source.
