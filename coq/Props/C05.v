(** C05 - patch never reports success on wrong bytes.  No well-formedness
    hypothesis on the basis or the delta: both are hostile. *)
From Coq Require Import ZArith List.
From Copia Require Import Model.Checksum Model.Delta Proofs.DeltaProofs.
Import ListNotations.
Open Scope Z_scope.

(** Success with verification on implies the produced bytes hash to the
    checksum carried by the delta. *)
Theorem C05_patch_ok_sound :
  forall (digest : Type) (H : list Z -> digest) (deq : forall a b : digest, {a = b} + {a <> b})
         (basis : list Z) (d : delta digest) (checked : bool) (out : list Z),
  patch digest H deq checked true basis d = POk out -> H out = d_checksum _ d.
Proof. intros digest H deq basis d checked out. exact (patch_ok_sound digest H deq basis d checked out). Qed.
Print Assumptions C05_patch_ok_sound.

(** Every copy a successful patch performed read inside the actual basis. *)
Theorem C05_reads_in_bounds :
  forall (digest : Type) (H : list Z -> digest) (deq : forall a b : digest, {a = b} + {a <> b})
         (basis : list Z) (d : delta digest) (checked verify : bool) (out : list Z),
  patch digest H deq checked verify basis d = POk out ->
  copies_in_bounds (Z.of_nat (length basis)) (d_ops _ d).
Proof. intros digest H deq basis d checked verify out.
  exact (patch_reads_in_bounds digest H deq basis d checked verify out). Qed.
Print Assumptions C05_reads_in_bounds.

(** The shipped profile never panics; the checked profile panics exactly when
    the op lengths do not sum (in u64) to the declared source size. *)
Theorem C05_panic_iff :
  forall (digest : Type) (H : list Z -> digest) (deq : forall a b : digest, {a = b} + {a <> b})
         (basis : list Z) (d : delta digest) (verify : bool),
  (patch digest H deq true verify basis d = PPanic <->
     ~ (out_len (d_ops _ d) < 2^64 /\ out_len (d_ops _ d) = d_source_size _ d)) /\
  patch digest H deq false verify basis d <> PPanic.
Proof. intros digest H deq basis d verify. exact (patch_panic_iff digest H deq basis d verify). Qed.
Print Assumptions C05_panic_iff.

(** If the checksum field is that of [src] and the hash does not collide between
    the produced bytes and [src], success means the output IS [src]. *)
Theorem C05_detects_any_change :
  forall (digest : Type) (H : list Z -> digest) (deq : forall a b : digest, {a = b} + {a <> b})
         (basis : list Z) (d : delta digest) (checked : bool) (src out : list Z),
  d_checksum _ d = H src -> (H out = H src -> out = src) ->
  patch digest H deq checked true basis d = POk out -> out = src.
Proof. intros digest H deq basis d checked src out.
  exact (patch_detects_any_change digest H deq basis d checked src out). Qed.
Print Assumptions C05_detects_any_change.

(** Non-vacuity: a hostile delta whose copy leaves the basis is an error, a
    delta with a wrong checksum is an error, a good one succeeds. *)
Example C05_nonvacuous :
  let H := fun x : list Z => x in
  let deq := list_eq_dec Z.eq_dec in
  let mk ops ck := {| d_block_size := 2; d_source_size := 3; d_basis_size := 4; d_ops := ops; d_checksum := ck |} in
  patch _ H deq false true [1;2;3;4] (mk [Copy 1 2; Lit [9]] [2;3;9]) = POk [2;3;9] /\
  patch _ H deq false true [1;2;3;4] (mk [Copy 1 2; Lit [9]] [2;3;8]) = PErrChecksum /\
  patch _ H deq false true [1;2;3] (mk [Copy 2 2; Lit [9]] [3;4;9]) = PErrIo /\
  patch _ H deq false true [1;2;3;4] (mk [Copy 3 2; Lit [9]] [2;3;9]) = PErrBounds /\
  patch _ H deq true true [1;2;3;4] (mk [Copy 1 2] [2;3]) = PPanic.
Proof. repeat split; vm_compute; reflexivity. Qed.

(** The model the theorems above are about is the translation of src/delta.rs Delta::validate as it is now: the function
    generated from the source by tools/gen_logic.py (Gen/DeltaVGen.v) equals, on every input, Model/Delta.v validate
    (statement: Proofs/TieDeltaV.v, [delta_validate_model_is_translation]). *)
Require Copia.Proofs.TieDeltaV.
Theorem C05_model_is_translation_of_source : TieDeltaV.delta_validate_model_is_translation.
Proof. exact TieDeltaV.delta_validate_model_is_translation_holds. Qed.
Print Assumptions C05_model_is_translation_of_source.

(** [Delta.patch] - the patch function of the theorems above - is the translation of src/sync.rs `CopiaSync::patch` (both
    profiles; premise: the delta's source size is a u64) and of src/async_sync.rs `AsyncCopiaSync::patch` (the engine of
    `copia patch`: the unchecked model in every profile) as the source has them now: validate first, serve every Copy by
    seek + read_exact on the basis and every Literal from its payload, hash exactly the bytes written, compare with the
    delta's checksum when verification is on (Gen/PatchGen.v, Proofs/TiePatch.v). *)
Require Copia.Proofs.TiePatch.
Theorem C05_patch_is_translation_of_source : TiePatch.patch_model_is_translation.
Proof. exact TiePatch.patch_model_is_translation_holds. Qed.
Print Assumptions C05_patch_is_translation_of_source.

(** The CLI readers are the translation of main.rs `validate_block_size`, `run_patch`, `run_delta` as the source has them
    now: the input file is read, a refused file or a rejected block size ends the command with an error BEFORE the
    engine is constructed (its constructor asserts) and before another file is opened or created; the engine is only
    ever built with a block size validate_block_size accepts (Gen/CliReadersGen.v, Proofs/TieCliReaders.v). *)
Require Copia.Proofs.TieCliReaders.
Theorem C05_cli_readers_are_translation_of_source : TieCliReaders.cli_readers_are_translation.
Proof. exact TieCliReaders.cli_readers_are_translation_holds. Qed.
Print Assumptions C05_cli_readers_are_translation_of_source.
