(** C20 - codecs round-trip and reject malformed input without crashing.

    Models: Model/Protocol.v (FrameHeader, Codec, CLI readers) and
    Model/Bincode.v (bincode 1.3 + the serde derives of Signature, Delta,
    DeltaOp, Message).  Bytes are [Z]; a decoder returns a value and the unread
    input or an error - there is no panic outcome to return, so totality holds
    by construction; the theorems below state what that construction could hide
    (fuel, buffer reservation, the asserting constructor behind the CLI). *)
From Coq Require Import ZArith List Bool.
From Copia Require Import Gen.Constants Model.Checksum Model.Delta Model.Bincode Model.Protocol
  Proofs.BincodeProofs Proofs.ProtocolProofs.
Import ListNotations.
Open Scope Z_scope.

(** Every header with the protocol magic, the current version, a payload
    length within the bound, any of the seven types and any flags survives
    encode-then-decode. *)
Theorem C20_header_roundtrip :
  forall h : header,
  h_m0 h = PROTO_MAGIC0 /\ h_m1 h = PROTO_MAGIC1 /\ h_m2 h = PROTO_MAGIC2 /\ h_m3 h = PROTO_MAGIC3 /\
  h_version h = PROTO_VERSION /\ 0 <= h_length h <= MAX_PAYLOAD_SIZE /\ 0 <= h_flags h < 2^16 ->
  header_decode (header_encode h) = ROk h.
Proof. intros h. exact (header_roundtrip h). Qed.
Print Assumptions C20_header_roundtrip.

(** Such an encoded header is 12 bytes, begins with the magic, carries the
    version in byte 9 and the payload length little-endian in bytes 4..7. *)
Theorem C20_encode_shape :
  forall h : header,
  h_m0 h = PROTO_MAGIC0 /\ h_m1 h = PROTO_MAGIC1 /\ h_m2 h = PROTO_MAGIC2 /\ h_m3 h = PROTO_MAGIC3 /\
  h_version h = PROTO_VERSION /\ 0 <= h_length h <= MAX_PAYLOAD_SIZE /\ 0 <= h_flags h < 2^16 ->
  length (header_encode h) = 12%nat /\
  firstn 4 (header_encode h) = [PROTO_MAGIC0; PROTO_MAGIC1; PROTO_MAGIC2; PROTO_MAGIC3] /\
  nth 9 (header_encode h) 0 = PROTO_VERSION /\
  get_u32 (skipn 4 (header_encode h)) = Some (h_length h, skipn 8 (header_encode h)).
Proof. intros h. exact (encode_shape_good h). Qed.
Print Assumptions C20_encode_shape.

(** For ALL twelve-byte inputs (no enumeration: cases on the fields): a wrong
    magic, a wrong version, a type byte that is none of the seven codes, or a
    length above the bound is an error. *)
Theorem C20_header_rejects :
  forall b0 b1 b2 b3 b4 b5 b6 b7 b8 b9 b10 b11 : Z,
  let buf := [b0; b1; b2; b3; b4; b5; b6; b7; b8; b9; b10; b11] in
  let len := b4 + 256 * (b5 + 256 * (b6 + 256 * b7)) in
  (magic_ok b0 b1 b2 b3 = false -> exists e, header_decode buf = RErr e) /\
  (b9 <> PROTO_VERSION -> exists e, header_decode buf = RErr e) /\
  ((forall t, b8 <> mt_code t) -> header_decode buf = RErr EType) /\
  (len > MAX_PAYLOAD_SIZE -> exists e, header_decode buf = RErr e).
Proof. intros b0 b1 b2 b3 b4 b5 b6 b7 b8 b9 b10 b11. exact (header_rejects b0 b1 b2 b3 b4 b5 b6 b7 b8 b9 b10 b11). Qed.
Print Assumptions C20_header_rejects.

(** ... and acceptance is exactly validity; the decoded header is the input's fields. *)
Theorem C20_header_accepts_only_valid :
  forall (b0 b1 b2 b3 b4 b5 b6 b7 b8 b9 b10 b11 : Z) (h : header),
  let buf := [b0; b1; b2; b3; b4; b5; b6; b7; b8; b9; b10; b11] in
  let len := b4 + 256 * (b5 + 256 * (b6 + 256 * b7)) in
  header_decode buf = ROk h <->
  (magic_ok b0 b1 b2 b3 = true /\ b9 = PROTO_VERSION /\ len <= MAX_PAYLOAD_SIZE /\
   exists t, b8 = mt_code t /\
     h = {| h_m0 := b0; h_m1 := b1; h_m2 := b2; h_m3 := b3; h_length := len;
            h_type := t; h_version := b9; h_flags := b10 + 256 * b11 |}).
Proof. intros b0 b1 b2 b3 b4 b5 b6 b7 b8 b9 b10 b11 h. exact (header_accepts_iff b0 b1 b2 b3 b4 b5 b6 b7 b8 b9 b10 b11 h). Qed.
Print Assumptions C20_header_accepts_only_valid.

(** The seven type codes are exactly the bytes 1..7. *)
Theorem C20_type_codes_are_1_to_7 :
  forall b : Z, (exists t, b = mt_code t) <-> 1 <= b <= 7.
Proof. intros b. exact (mt_codes_1_to_7 b). Qed.
Print Assumptions C20_type_codes_are_1_to_7.

(** bincode round trips, for values of ANY size with in-range fields, with
    arbitrary bytes following the encoding. *)
Theorem C20_signature_roundtrip :
  forall (s : signature (list Z)) (rest : list Z),
  wf_sig s -> decode_signature (encode_signature s ++ rest) = Some (s, rest).
Proof. intros s rest. exact (signature_roundtrip s rest). Qed.
Print Assumptions C20_signature_roundtrip.

Theorem C20_delta_roundtrip :
  forall (d : delta (list Z)) (rest : list Z),
  wf_delta d -> decode_delta (encode_delta d ++ rest) = Some (d, rest).
Proof. intros d rest. exact (delta_roundtrip d rest). Qed.
Print Assumptions C20_delta_roundtrip.

Theorem C20_message_roundtrip :
  forall (utf8 : list Z -> bool) (m : message) (rest : list Z),
  wf_message utf8 m -> decode_message utf8 (encode_message m ++ rest) = Some (m, rest).
Proof. intros utf8 m rest. exact (message_roundtrip utf8 m rest). Qed.
Print Assumptions C20_message_roundtrip.

(** The framed codec: what write_message produced, read_message returns (and
    leaves exactly the following bytes unread); the length field written is the
    length of the payload that follows the 12 header bytes. *)
Theorem C20_codec_roundtrip :
  forall (utf8 : list Z -> bool) (m : message) (rest : list Z),
  wf_message utf8 m ->
  Z.of_nat (length (encode_message m)) <= MAX_PAYLOAD_SIZE ->
  exists w, write_message m = ROk w /\
    read_message utf8 (w ++ rest) = (Z.of_nat (length (encode_message m)), ROk (m, rest)) /\
    get_u32 (skipn 4 w) = Some (Z.of_nat (length (encode_message m)), skipn 8 w) /\
    skipn 12 w = encode_message m.
Proof. intros utf8 m rest. exact (codec_roundtrip_full utf8 m rest). Qed.
Print Assumptions C20_codec_roundtrip.

(** write_message refuses exactly the payloads above the bound. *)
Theorem C20_write_refuses_oversize :
  forall m : message,
  (Z.of_nat (length (encode_message m)) > MAX_PAYLOAD_SIZE -> write_message m = RErr EPayload) /\
  (forall w, write_message m = ROk w -> Z.of_nat (length (encode_message m)) <= MAX_PAYLOAD_SIZE).
Proof. intros m. exact (write_message_refuses_iff m). Qed.
Print Assumptions C20_write_refuses_oversize.

(** Decoding is total by construction (every decoder is a Coq function into
    [option]/[res]).  What the construction could hide is stated here, for
    EVERY input: the frame buffer read_message reserves never exceeds
    MAX_PAYLOAD_SIZE; the fuel the entry points use (the input length) is
    enough - more fuel never changes any result, so [None] always means the
    input ended or was malformed; the speculative reservation of a Vec decoder
    is at most 1 MiB whatever the count. *)
Theorem C20_decode_total :
  forall (utf8 : list Z -> bool) (inp : list Z),
  fst (read_message utf8 inp) <= MAX_PAYLOAD_SIZE /\
  (forall k, get_message utf8 (length inp + k) inp = decode_message utf8 inp) /\
  (forall k, get_sig (length inp + k) inp = decode_signature inp) /\
  (forall k, get_delta (length inp + k) inp = decode_delta inp) /\
  (forall count elem_size, 0 < elem_size -> cautious_reserve count elem_size * elem_size <= 1048576).
Proof. intros utf8 inp. exact (decode_total_full utf8 inp). Qed.
Print Assumptions C20_decode_total.

(** A byte payload is delivered iff the count does not exceed the remaining
    input (the count is never trusted). *)
Theorem C20_payload_bounds_checked :
  forall (c : Z) (inp : list Z),
  get_seq get_u8 (length inp) c inp =
  if c <=? Z.of_nat (length inp) then Some (firstn (Z.to_nat c) inp, skipn (Z.to_nat c) inp) else None.
Proof. intros c inp. exact (get_seq_bytes_spec (length inp) c inp (le_n (length inp))). Qed.
Print Assumptions C20_payload_bounds_checked.

(** The CLI readers on EVERY byte string: an error exit, or the engine is
    constructed with a block size that satisfies the constructor's assertion
    (a power of two within its bounds).  There is no third outcome. *)
Theorem C20_cli_hostile_file_reports_error :
  forall file : list Z,
  (run_delta_top file = CliError \/
   exists s, run_delta_top file = Proceed s /\
     (exists k : nat, s_block_size _ s = 2 ^ Z.of_nat k) /\ BS_MIN_ASYNC <= s_block_size _ s <= BS_MAX_ASYNC) /\
  (run_patch_top file = CliError \/
   exists d, run_patch_top file = Proceed d /\
     (exists k : nat, d_block_size _ d = 2 ^ Z.of_nat k) /\ BS_MIN_ASYNC <= d_block_size _ d <= BS_MAX_ASYNC).
Proof. intros file. exact (cli_full file). Qed.
Print Assumptions C20_cli_hostile_file_reports_error.

(** Non-vacuity: concrete values.  The constants are COPA / 1 / 16 MiB; a ping
    frame; a delta message inside a frame followed by junk; a signature file
    with block size 1000 is refused by the CLI reader, one with 1024 proceeds;
    hostile counts (2^64-1 blocks) and truncation are errors; a header with
    version 2, type 9 or length MAX+1 is refused with the modelled kind. *)
Example C20_nonvacuous :
  let utf8 := fun _ : list Z => true in
  let h32 := repeat 7 32 in
  let sg := {| s_block_size := 1024; s_file_size := 5; s_blocks := [{| b_idx := 0; b_weak := 4294967295; b_strong := h32 |}] |} in
  let sg_bad := {| s_block_size := 1000; s_file_size := 5; s_blocks := [{| b_idx := 0; b_weak := 1; b_strong := h32 |}] |} in
  let dl := {| d_block_size := 512; d_source_size := 18446744073709551615; d_basis_size := 0;
               d_ops := [Copy 4096 512; Lit [1; 2; 255]]; d_checksum := h32 |} in
  [PROTO_MAGIC0; PROTO_MAGIC1; PROTO_MAGIC2; PROTO_MAGIC3; PROTO_VERSION; MAX_PAYLOAD_SIZE] = [67; 79; 80; 65; 1; 16777216] /\
  write_message (MPing 258) = ROk [67; 79; 80; 65; 12; 0; 0; 0; 6; 1; 0; 0; 5; 0; 0; 0; 2; 1; 0; 0; 0; 0; 0; 0] /\
  match write_message (MDeltaData 9 dl) with
  | ROk w => read_message utf8 (w ++ [1; 2; 3]) = (103, ROk (MDeltaData 9 dl, [1; 2; 3]))
  | RErr _ => False
  end /\
  decode_message utf8 (encode_message (MAck 1 true (Some [104; 105]))) = Some (MAck 1 true (Some [104; 105]), []) /\
  decode_message (fun _ => false) (encode_message (MError 3 [255])) = None /\
  run_delta_top (encode_signature sg) = Proceed sg /\
  run_delta_top (encode_signature sg_bad) = CliError /\
  run_patch_top (encode_delta dl) = Proceed dl /\
  run_patch_top (firstn 40 (encode_delta dl)) = CliError /\
  decode_signature (put_u64 1024 ++ put_u64 0 ++ put_u64 18446744073709551615 ++ repeat 0 100) = None /\
  header_decode [67; 79; 80; 65; 0; 0; 0; 0; 6; 2; 0; 0] = RErr EVersion /\
  header_decode [67; 79; 80; 66; 0; 0; 0; 0; 9; 2; 0; 0] = RErr EType /\
  header_decode [67; 79; 80; 65; 1; 0; 0; 1; 6; 1; 0; 0] = RErr ELength /\
  fst (read_message utf8 [67; 79; 80; 65; 255; 255; 255; 255; 6; 1; 0; 0]) = 0.
Proof.
  cbv zeta.
  repeat (split; [vm_compute; reflexivity|]). vm_compute; reflexivity.
Qed.

(** The model the theorems above are about is the translation of src/protocol.rs (MessageType::from_u8, FrameHeader::validate) as it is now: the function
    generated from the source by tools/gen_logic.py (Gen/ProtocolGen.v) equals, on every input, Model/Protocol.v from_u8 and hvalidate
    (statement: Proofs/TieProtocol.v, [protocol_model_is_translation]). *)
Require Copia.Proofs.TieProtocol.
Theorem C20_model_is_translation_of_source : TieProtocol.protocol_model_is_translation.
Proof. exact TieProtocol.protocol_model_is_translation_holds. Qed.
Print Assumptions C20_model_is_translation_of_source.

(** The CLI readers are the translation of main.rs `validate_block_size`, `run_patch`, `run_delta` as the source has them
    now: the input file is read, a refused file or a rejected block size ends the command with an error BEFORE the
    engine is constructed (its constructor asserts) and before another file is opened or created; the engine is only
    ever built with a block size validate_block_size accepts (Gen/CliReadersGen.v, Proofs/TieCliReaders.v). *)
Require Copia.Proofs.TieCliReaders.
Theorem C20_cli_readers_are_translation_of_source : TieCliReaders.cli_readers_are_translation.
Proof. exact TieCliReaders.cli_readers_are_translation_holds. Qed.
Print Assumptions C20_cli_readers_are_translation_of_source.

(** The frame header functions of the theorems above are the translation of src/protocol.rs `FrameHeader::{new, encode,
    decode, read_from}` as the source has them now: the twelve bytes in their order, the type byte converted before the
    other fields are looked at, `validate` on the assembled header, exactly twelve bytes read and the magic pre-check;
    and of `Codec::read_message`: header, validate, ONE buffer of the validated length, exactly that many payload bytes,
    the payload decoder (Gen/ProtocolHeaderGen.v, Proofs/TieProtocolHeader.v). *)
Require Copia.Proofs.TieProtocolHeader.
Theorem C20_header_functions_are_translation_of_source : TieProtocolHeader.protocol_header_is_translation.
Proof. exact TieProtocolHeader.protocol_header_is_translation_holds. Qed.
Print Assumptions C20_header_functions_are_translation_of_source.
