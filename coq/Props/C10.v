(** C10 - hub paths only ever hold complete, hash-verified content.
    Property theorems only; quantifiers as in C03 (every schedule, kills included). *)
From stdpp Require Import gmap.
From Copia Require Import Model.Hub Proofs.HubProofs.

Section C10.
Context `{Countable K} {D : Type} `{EqDecision D}.
Variable Hh : list Z -> D.
Variable cname : K -> D -> K.

(** After EVERY event of every schedule (steps and kills), every live path holds
    an initial content or the complete bytes of ONE Put of the clients' programs
    whose delivered bytes match its declared hash and its declared length. *)
Theorem C10_live_paths_verified :
  forall (m0 : gmap K (list Z)) (progs : gmap nat (list (@req K D))) (sched : list ev),
  Forall (fun m => forall p c, m !! p = Some c -> good_content Hh m0 progs c)
         (run_trace Hh cname (init_sys m0 progs) sched).
Proof. intros m0 progs sched.
  exact (all_snapshots_verified Hh cname m0 progs sched _ (inv_init Hh cname m0 progs) (rinv_init m0 progs)). Qed.

(** A Put whose streamed bytes do not match its declared hash or length never
    takes effect: every Put in the commit log was verified, and the live tree is
    exactly the replay of that log. *)
Theorem C10_bad_put_changes_nothing :
  forall (m0 : gmap K (list Z)) (progs : gmap nat (list (@req K D))) (sched : list ev),
  let s := run Hh cname (init_sys m0 progs) sched in
  live s = replay Hh cname m0 (log s) /\
  forall i p e d len ch rp t, In (i, Put p e d len ch, rp, t) (log s) ->
    Hh (body ch) = d /\ Z.of_nat (length (body ch)) = len.
Proof. intros m0 progs sched s.
  pose proof (run_inv Hh cname m0 sched _ (inv_init Hh cname m0 progs)) as [_ _ _ _ Ig _ Iv].
  split; [exact Ig|]. intros i p e d len ch rp t Hin.
  rewrite Forall_forall in Iv. apply elem_of_list_In in Hin. specialize (Iv _ Hin). simpl in Iv.
  unfold verified in Iv. apply andb_prop in Iv as [H1 H2]. apply bool_decide_eq_true in H1, H2. auto. Qed.

(** A fetch delivers ONE content: length, hash and bytes of a Get reply all come
    from the content the path held at the Get's linearization point. *)
Theorem C10_get_consistent :
  forall (m : gmap K (list Z)) p,
  spec Hh cname m (Get p) = (m, GetRes (m !! p)).
Proof. reflexivity. Qed.
End C10.

Print Assumptions C10_live_paths_verified.
Print Assumptions C10_bad_put_changes_nothing.
Print Assumptions C10_get_consistent.

(** Non-vacuity: a process is killed between staging and commit; a Put with a
    wrong hash is rejected; the tree never holds anything but verified content. *)
Example C10_nonvacuous :
  let cname := fun (p : nat) (d : list Z) => (100 + p)%nat in
  let progs : gmap nat (list (@req nat (list Z))) :=
    {[ 0%nat := [Put 1%nat None [65;65] 2 [[65];[65]]]%Z ; 1%nat := [Put 1%nat None [9] 1 [[66]]]%Z ]} in
  run_trace (fun x => x) cname (init_sys ({[ 1%nat := [7]%Z ]} : gmap nat (list Z)) progs)
             [Step 0; Step 0; Step 1; Step 1; Step 1; Kill 0]%nat
  = [ {[ 1%nat := [7]%Z ]}; {[ 1%nat := [7]%Z ]}; {[ 1%nat := [7]%Z ]}; {[ 1%nat := [7]%Z ]}; {[ 1%nat := [7]%Z ]}; {[ 1%nat := [7]%Z ]} ].
Proof. vm_compute. reflexivity. Qed.

(** The model the theorems above are about is the translation of src/bin/copia/wire.rs cas_decide as it is now: the function
    generated from the source by tools/gen_logic.py (Gen/CasGen.v) equals, on every input, the decision `current hash = expected` of Model/Hub.v (spec and step)
    (statement: Proofs/TieCas.v, [cas_model_is_translation]). *)
Require Copia.Proofs.TieCas.
Theorem C10_model_is_translation_of_source : TieCas.cas_model_is_translation.
Proof. exact TieCas.cas_model_is_translation_holds. Qed.
Print Assumptions C10_model_is_translation_of_source.

(** The sequential Put and Delete handlers of Model/HubSeq.v ([seq_handle], defined through the CAS specification
    [spec] of Model/Hub.v) are the translation of serve.rs `handle_put` / `handle_delete` / `handle_get` as the source has them now,
    read as functions of the served tree: refusal, the length and hash checks, the compare-and-swap on the CURRENT
    hash, which name the staging file is renamed onto, and the reply (Gen/HubDeleteGen.v, Proofs/TieHubDelete.v). *)
Require Copia.Proofs.TieHubDelete.
Theorem C10_handlers_are_translation_of_source : TieHubDelete.hub_delete_is_translation.
Proof. exact TieHubDelete.hub_delete_is_translation_holds. Qed.
Print Assumptions C10_handlers_are_translation_of_source.

(** Two reviewed call sequences are the translation of the source as it is now: serve.rs `with_commit_lock` (open the lock
    file without truncating or ever removing it, exclusive flock, the body, unlock) and dir_sync.rs
    `transfer_file_from_remote` (spawn, create-and-truncate the staging file, copy, flush before returning, wait)
    (Gen/CommitLockGen.v, Proofs/TieCommitLock.v). *)
Require Copia.Proofs.TieCommitLock.
Theorem C10_call_sequences_are_translation_of_source : TieCommitLock.call_sequences_are_translation.
Proof. exact TieCommitLock.call_sequences_are_translation_holds. Qed.
Print Assumptions C10_call_sequences_are_translation_of_source.
