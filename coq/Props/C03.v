(** C03 - hub commits are a linearizable compare-and-swap: no lost update.
    Property theorems only.  Quantified over: any path and digest types, any
    hash function [Hh] and conflict-name function [cname], any initial tree,
    any number of server processes with any request programs, and EVERY
    schedule of their file-system steps, kills included. *)
From stdpp Require Import gmap sorting.
From Copia Require Import Model.Hub Proofs.HubProofs.

Section C03.
Context `{Countable K} {D : Type} `{EqDecision D}.
Variable Hh : list Z -> D.
Variable cname : K -> D -> K.
Notation run := (run Hh cname).
Notation replay := (replay Hh cname).
Notation legal := (legal Hh cname).

(** The live tree is the result of executing the logged operations ONE AT A TIME
    through the CAS-map specification in log order; every logged reply is the
    specification's reply at that point; the log is in strictly increasing time
    order; every non-error reply a client received belongs to a logged operation
    that took effect between that request's invocation and its response. *)
Theorem C03_hub_linearizable :
  forall (m0 : gmap K (list Z)) (progs : gmap nat (list (@req K D))) (sched : list ev),
  let s := run (init_sys m0 progs) sched in
  live s = replay m0 (log s) /\ legal m0 (log s) /\
  StronglySorted lt (map (@ltime K D) (log s)) /\
  (forall i q r rp t0 t1, procs s !! i = Some q -> In (r, rp, t0, t1) (sent q) -> rp <> ErrRes ->
     exists t, In (i, r, rp, t) (log s) /\ t0 <= t /\ t <= t1).
Proof. intros m0 progs sched s.
  pose proof (run_inv Hh cname m0 sched _ (inv_init Hh cname m0 progs)) as [_ _ _ _ Ig Il _].
  pose proof (run_tinv Hh cname sched _ (tinv_init m0 progs)) as [Ts _ Tse _ _].
  split; [exact Ig|]. split; [exact Il|]. split; [exact Ts|].
  intros i q r rp t0 t1 Hq Hin Hne. destruct (Tse i q r rp t0 t1 Hq Hin) as (_ & _ & C). exact (C Hne). Qed.

(** Non-overlapping requests keep their order: if A's response precedes B's
    invocation, A's linearization point precedes B's. *)
Theorem C03_realtime_order :
  forall (m0 : gmap K (list Z)) (progs : gmap nat (list (@req K D))) (sched : list ev),
  let s := run (init_sys m0 progs) sched in
  forall i qi j qj rA rpA a0 a1 rB rpB b0 b1,
  procs s !! i = Some qi -> procs s !! j = Some qj ->
  In (rA, rpA, a0, a1) (sent qi) -> In (rB, rpB, b0, b1) (sent qj) ->
  rpA <> ErrRes -> rpB <> ErrRes -> a1 < b0 ->
  exists tA tB, In (i, rA, rpA, tA) (log s) /\ In (j, rB, rpB, tB) (log s) /\
                a0 <= tA /\ tA <= a1 /\ b0 <= tB /\ tB <= b1 /\ tA < tB.
Proof. intros m0 progs sched s.
  exact (realtime_order s (run_tinv Hh cname sched _ (tinv_init m0 progs))). Qed.

(** In the one-at-a-time execution a write takes effect exactly when the current
    hash equals the expected one: a write that does not commit leaves the live
    file untouched and its own bytes at the conflict name ... *)
Theorem C03_uncommitted_put_preserved :
  forall (m : gmap K (list Z)) p e d len ch,
  cur_of Hh m p <> e -> cname p d <> p ->
  fst (spec Hh cname m (Put p e d len ch)) !! p = m !! p /\
  fst (spec Hh cname m (Put p e d len ch)) !! cname p d = Some (body ch) /\
  snd (spec Hh cname m (Put p e d len ch)) = PutRes false (cur_of Hh m p).
Proof. exact (spec_put_uncommitted Hh cname). Qed.

(** ... and a committed write is the live content. *)
Theorem C03_committed_put_is_live :
  forall (m : gmap K (list Z)) p e d len ch,
  cur_of Hh m p = e ->
  fst (spec Hh cname m (Put p e d len ch)) !! p = Some (body ch) /\
  snd (spec Hh cname m (Put p e d len ch)) = PutRes true (Some d).
Proof. exact (spec_put_committed Hh cname). Qed.

(** Nothing vanishes or is altered except by a logged operation on that very
    path (as its target, or as the conflict name of an uncommitted write). *)
Theorem C03_nothing_vanishes :
  forall (m0 : gmap K (list Z)) l p,
  (forall e, In e l -> ~ targets cname e p) -> replay m0 l !! p = m0 !! p.
Proof. exact (replay_untouched Hh cname). Qed.
End C03.

Print Assumptions C03_hub_linearizable.
Print Assumptions C03_realtime_order.
Print Assumptions C03_uncommitted_put_preserved.
Print Assumptions C03_committed_put_is_live.
Print Assumptions C03_nothing_vanishes.

(** Non-vacuity: two processes race a Put on one path; the loser's bytes are at
    the conflict name, the winner's are live. *)
Example C03_nonvacuous :
  let cname := fun (p : nat) (d : list Z) => (100 + p)%nat in
  let progs : gmap nat (list (@req nat (list Z))) :=
    {[ 0%nat := [Put 1%nat None [65] 1 [[65]]]%Z ; 1%nat := [Put 1%nat None [66] 1 [[66]]]%Z ]} in
  let s := run (fun x => x) cname (init_sys (∅ : gmap nat (list Z)) progs)
             [Step 0; Step 1; Step 0; Step 1; Step 0; Step 0; Step 0; Step 0; Step 1; Step 1; Step 1; Step 1]%nat in
  live s !! 1%nat = Some [65]%Z /\ live s !! 101%nat = Some [66]%Z /\ length (log s) = 2%nat.
Proof. vm_compute. repeat split. Qed.

(** The model the theorems above are about is the translation of src/bin/copia/wire.rs cas_decide as it is now: the function
    generated from the source by tools/gen_logic.py (Gen/CasGen.v) equals, on every input, the decision `current hash = expected` of Model/Hub.v (spec and step)
    (statement: Proofs/TieCas.v, [cas_model_is_translation]). *)
Require Copia.Proofs.TieCas.
Theorem C03_model_is_translation_of_source : TieCas.cas_model_is_translation.
Proof. exact TieCas.cas_model_is_translation_holds. Qed.
Print Assumptions C03_model_is_translation_of_source.

(** The sequential Put and Delete handlers of Model/HubSeq.v ([seq_handle], defined through the CAS specification
    [spec] of Model/Hub.v) are the translation of serve.rs `handle_put` / `handle_delete` / `handle_get` as the source has them now,
    read as functions of the served tree: refusal, the length and hash checks, the compare-and-swap on the CURRENT
    hash, which name the staging file is renamed onto, and the reply (Gen/HubDeleteGen.v, Proofs/TieHubDelete.v). *)
Require Copia.Proofs.TieHubDelete.
Theorem C03_handlers_are_translation_of_source : TieHubDelete.hub_delete_is_translation.
Proof. exact TieHubDelete.hub_delete_is_translation_holds. Qed.
Print Assumptions C03_handlers_are_translation_of_source.

(** What a scan (bisync) or `current_hash` (hub) reads of one path is the translation of meta.rs `fingerprint_path` as the
    source has it now: no fingerprint for an entry that cannot be lstat-ed / opened; a symbolic link by the BLAKE3 of its
    target string; anything else by the BLAKE3 of exactly its bytes - for a regular file the digest the models use
    (Gen/FingerprintGen.v, Proofs/TieFingerprint.v). *)
Require Copia.Proofs.TieFingerprint.
Theorem C03_fingerprint_is_translation_of_source : TieFingerprint.fingerprint_is_translation.
Proof. exact TieFingerprint.fingerprint_is_translation_holds. Qed.
Print Assumptions C03_fingerprint_is_translation_of_source.

(** Two reviewed call sequences are the translation of the source as it is now: serve.rs `with_commit_lock` (open the lock
    file without truncating or ever removing it, exclusive flock, the body, unlock) and dir_sync.rs
    `transfer_file_from_remote` (spawn, create-and-truncate the staging file, copy, flush before returning, wait)
    (Gen/CommitLockGen.v, Proofs/TieCommitLock.v). *)
Require Copia.Proofs.TieCommitLock.
Theorem C03_call_sequences_are_translation_of_source : TieCommitLock.call_sequences_are_translation.
Proof. exact TieCommitLock.call_sequences_are_translation_holds. Qed.
Print Assumptions C03_call_sequences_are_translation_of_source.
