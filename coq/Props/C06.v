(** C06 - bisync converges, records what it did, and is idempotent.
    Property theorems only.  Quantified over: any path type [K] (countable), any
    digest type [D] (decidable equality), any hash [Hh], any digest comparison
    [dge], any conflict-name function [cname], any key order [kle] (NOTHING is
    assumed about it: the plan is a duplicate-free listing of the union of the keys
    for every [kle]), and every state (two trees of any size, any record).

    Premises, explicit in every theorem:
      [HashOk s]  BLAKE3 does not collide between the two files of one path;
      [Fresh s]   the "no name clash" class: for every both-changed path [p] of the
                  plan with loser [l] and conflict name [q = cname p (Hh l)]:
                  (1) each side holds at [q] nothing or exactly [l], and if exactly
                  one side holds it the record for [q] is not [l]'s digest - so [q]
                  absent, [l] on both sides (the repeated conflict) and [l] on one
                  side with no / another record (a crash leftover) are all INSIDE;
                  (2) two both-changed paths have different conflict names (always
                  true of the real name format: C06_conflict_name_format_injective).
                  EXCLUDED = the documented known class F5: (i) [q] live with
                  another content (an edited conflict copy: the tool overwrites it,
                  C02_name_clash_loses_version); (ii) [l] at [q] on exactly one side
                  and recorded (the planned delete removes the re-created copy,
                  C06_name_clash_one_sided_diverges).

    [mtime_irrelevant] of DESIGN 5.13 is true of the model by construction: trees
    are maps path -> bytes and carry no modification times, so no theorem is
    stated for it (the tie randomises mtimes independently of contents). *)
From stdpp Require Import gmap sorting.
From Copia Require Import Model.Bisync Model.BisyncExec Proofs.BisyncProofs.

Section C06.
Context `{Countable K} {D : Type} `{EqDecision D}.
Variable Hh : list Z -> D.
Variable dge : D -> D -> bool.
Variable cname : K -> D -> K.
Variable kle : K -> K -> bool.
Notation state := (@state K _ _ D).
Notation run := (bisync_run Hh dge cname kle).
Notation plan_of s := (plan kle (scan Hh (tA s)) (scan Hh (tB s)) (arch s)).
Notation HashOk := (HashOk Hh).
Notation Fresh := (Fresh Hh dge cname).
Notation conflict := (conflict Hh dge cname).

(** The two premises, pinned (by computation). *)
Theorem C06_premises_unfold :
  forall s : state,
  (HashOk s <-> forall p x y, tA s !! p = Some x -> tB s !! p = Some y -> Hh x = Hh y -> x = y) /\
  (Fresh s <->
     (forall p q l, conflict s p = Some (q, l) ->
        (tA s !! q = None \/ tA s !! q = Some l) /\
        (tB s !! q = None \/ tB s !! q = Some l) /\
        (tA s !! q = tB s !! q \/ base_at (arch s) q <> Some (Hh l))) /\
     (forall p1 p2 q l1 l2, conflict s p1 = Some (q, l1) -> conflict s p2 = Some (q, l2) -> p1 = p2)).
Proof. intros s. split; reflexivity. Qed.

(** The plan walks every key of either scan exactly once, whatever [kle] is. *)
Theorem C06_plan_keys_spec :
  forall (a b : gmap K D),
  NoDup (plan_keys kle a b) /\ forall p, p ∈ plan_keys kle a b <-> p ∈ dom a ∪ dom b.
Proof. intros a b. split; [exact (NoDup_plan_keys kle a b)|exact (elem_of_plan_keys kle a b)]. Qed.

(** [final_content] (what both sides hold at a path afterwards, a function of the
    two contents and the recorded digest alone) read off the planner's action. *)
Theorem C06_per_path_result_by_action :
  forall (x y : option (list Z)) (z : option D),
  per_path_result Hh dge x y z =
  (final_content Hh dge x y z, final_content Hh dge x y z, Hh <$> final_content Hh dge x y z) /\
  final_content Hh dge x y z =
  match rpath (Hh <$> x) (Hh <$> y) z with
  | None | Some Converge | Some PropAB => x
  | Some PropBA => y
  | Some DelA | Some DelB => None
  | Some ConfDelMod => match x with Some _ => x | None => y end
  | Some ConfBoth =>
      match x, y with
      | Some cx, Some cy => Some (if dge (Hh cx) (Hh cy) then cx else cy)
      | _, _ => None
      end
  end.
Proof. intros x y z. split; [reflexivity|exact (final_content_by_action Hh dge x y z)]. Qed.

(** Under [Fresh] every copy finds its source: the run completes. *)
Theorem C06_run_no_io_error :
  forall (s s' : state) e pl, HashOk s -> Fresh s -> run s = (s', e, pl) -> e <> ExitIoError.
Proof. exact (run_no_io_error Hh dge cname kle). Qed.

(** Central lemma: after the run, EVERY path [x] holds
    - the loser on both sides, recorded, if [x] is the conflict name this run
      generated for a both-changed path;
    - otherwise the per-path result determined by what the two sides held at [x]
      and the recorded digest of [x] alone. *)
Theorem C06_run_per_path :
  forall (s s' : state) e pl, HashOk s -> Fresh s -> run s = (s', e, pl) ->
  is_Some (arch s') /\
  forall x,
    (forall p l, conflict s p = Some (x, l) ->
       tA s' !! x = Some l /\ tB s' !! x = Some l /\ base_at (arch s') x = Some (Hh l)) /\
    ((forall p l, conflict s p <> Some (x, l)) ->
       (tA s' !! x, tB s' !! x, base_at (arch s') x)
       = per_path_result Hh dge (tA s !! x) (tB s !! x) (base_at (arch s) x)).
Proof. exact (run_per_path Hh dge cname kle). Qed.

(** [conflict s p = Some (q, l)] means exactly: the plan marks [p] both-changed,
    [l] is the content with the smaller digest (ties lose on B) and [q] its name. *)
Theorem C06_conflict_spec :
  forall (s : state) p q l,
  conflict s p = Some (q, l) <->
  exists x y, tA s !! p = Some x /\ tB s !! p = Some y /\
    rpath (Some (Hh x)) (Some (Hh y)) (base_at (arch s) p) = Some ConfBoth /\
    l = (if dge (Hh x) (Hh y) then y else x) /\ q = cname p (Hh l).
Proof.
  intros s p q l. rewrite (conflict_spec Hh dge cname s p q l). unfold act_at.
  split; intros (x & y & Ea & Eb & R & El & Eq); exists x, y; rewrite Ea, Eb in *; auto.
Qed.

Theorem C06_run_converges :
  forall (s s' : state) e pl, HashOk s -> Fresh s -> run s = (s', e, pl) -> tA s' = tB s'.
Proof. exact (run_converges Hh dge cname kle). Qed.

(** The record is exactly the tree: no extra and no missing entry. *)
Theorem C06_run_records_tree :
  forall (s s' : state) e pl, HashOk s -> Fresh s -> run s = (s', e, pl) ->
  arch s' = Some (Hh <$> tA s').
Proof. exact (run_records_tree Hh dge cname kle). Qed.

(** An immediate second run plans nothing, exits 0 and changes nothing. *)
Theorem C06_run_idempotent :
  forall (s s' : state) e pl, HashOk s -> Fresh s -> run s = (s', e, pl) ->
  plan_of s' = [] /\ run s' = (s', ExitOk, []).
Proof. exact (run_idempotent Hh dge cname kle). Qed.

(** Exit status: non-zero exactly when the plan contains a both-changed conflict. *)
Theorem C06_exit_status_spec :
  forall (s s' : state) e pl, HashOk s -> Fresh s -> run s = (s', e, pl) ->
  pl = plan_of s /\
  (e = ExitConflicts <-> exists p, (p, ConfBoth) ∈ pl) /\
  (e = ExitOk <-> forall p, (p, ConfBoth) ∉ pl).
Proof.
  intros s s' e pl Hok F R. split; [|exact (exit_status_spec Hh dge cname kle s s' e pl Hok F R)].
  rewrite (run_result Hh dge cname kle s Hok F) in R. congruence.
Qed.

(** A divergent edit resolves on both sides to the version with the greater digest
    at the path and the other version at the conflict name. *)
Theorem C06_conflict_resolution :
  forall (s s' : state) e pl p, HashOk s -> Fresh s -> run s = (s', e, pl) -> (p, ConfBoth) ∈ pl ->
  exists x y, tA s !! p = Some x /\ tB s !! p = Some y /\ Hh x <> Hh y /\
    let w := if dge (Hh x) (Hh y) then x else y in
    let l := if dge (Hh x) (Hh y) then y else x in
    tA s' !! p = Some w /\ tB s' !! p = Some w /\
    tA s' !! cname p (Hh l) = Some l /\ tB s' !! cname p (Hh l) = Some l.
Proof. exact (conflict_resolution Hh dge cname kle). Qed.

(** Naming the directories in the other order yields the exchanged trees, the same
    record and the same exit status.  Premise on [dge]: on two DIFFERENT digests
    exactly one direction holds (true of the byte-wise [>=]); ties need nothing,
    because a both-changed conflict always has two different digests. *)
Theorem C06_swap_symmetric :
  forall (s s' : state) e pl,
  (forall d d' : D, d <> d' -> dge d' d = negb (dge d d')) ->
  HashOk s -> Fresh s -> run s = (s', e, pl) ->
  exists pl', run {| tA := tB s; tB := tA s; arch := arch s |}
              = ({| tA := tB s'; tB := tA s'; arch := arch s' |}, e, pl').
Proof. exact (swap_symmetric Hh dge cname kle). Qed.
End C06.

Print Assumptions C06_premises_unfold.
Print Assumptions C06_plan_keys_spec.
Print Assumptions C06_per_path_result_by_action.
Print Assumptions C06_run_no_io_error.
Print Assumptions C06_run_per_path.
Print Assumptions C06_conflict_spec.
Print Assumptions C06_run_converges.
Print Assumptions C06_run_records_tree.
Print Assumptions C06_run_idempotent.
Print Assumptions C06_exit_status_spec.
Print Assumptions C06_conflict_resolution.
Print Assumptions C06_swap_symmetric.

(** Clause (2) of [Fresh] is automatic for the real name format
    [<p>.conflict-<host>-<first 12 hex digits>] (digests of at least 6 bytes). *)
Theorem C06_conflict_name_format_injective :
  forall host p1 d1 p2 d2 : list Z,
  (6 <= length d1)%nat -> (6 <= length d2)%nat ->
  bi_cname host p1 d1 = bi_cname host p2 d2 -> p1 = p2.
Proof. exact bi_cname_inj. Qed.
Print Assumptions C06_conflict_name_format_injective.

(** Part (ii) of the known class is real: the loser's copy [1] is live at the
    conflict name 101 on side A only AND recorded; the plan (from the scan) holds
    [DelA 101], which removes the copy the conflict step has just re-created: the
    run ends with different trees, and B's version [1] of path 1 is on B only. *)
Theorem C06_name_clash_one_sided_diverges :
  let Hh := fun c : list Z => c in
  let dge := fun a b : list Z => (default 0 (head b) <=? default 0 (head a))%Z in
  let cname := fun (p : nat) (d : list Z) => (100 + p)%nat in
  let s : @state nat _ _ (list Z) :=
    {| tA := {[ 1%nat := [2]%Z ; 101%nat := [1]%Z ]}; tB := {[ 1%nat := [1]%Z ]};
       arch := Some {[ 101%nat := [1]%Z ]} |} in
  let r := bisync_run Hh dge cname Nat.leb s in
  ~ Fresh Hh dge cname s /\ r.1.2 = ExitConflicts /\ r.2 = [(1%nat, ConfBoth); (101%nat, DelA)] /\
  map_to_list (tA r.1.1) = [(1%nat, [2]%Z)] /\
  map_to_list (tB r.1.1) = [(1%nat, [2]%Z); (101%nat, [1]%Z)].
Proof.
  cbv zeta. split.
  - intros [F1 _]. destruct (F1 1%nat 101%nat [1]%Z) as (_ & _ & [X|X]); [vm_compute; reflexivity| |].
    + vm_compute in X. discriminate X.
    + apply X. vm_compute. reflexivity.
  - vm_compute. repeat split.
Qed.
Print Assumptions C06_name_clash_one_sided_diverges.

(** Non-vacuity: a divergent edit at path 1 (B's [2] beats A's [1]), a file only on
    A, a file only on B, no record.  The state meets both premises; the run keeps
    the loser at 101 on both sides, creates the one-sided files on the other side,
    records exactly the tree, exits non-zero, and a second run is a no-op. *)
Example C06_nonvacuous :
  let Hh := fun c : list Z => c in
  let dge := fun a b : list Z => (default 0 (head b) <=? default 0 (head a))%Z in
  let cname := fun (p : nat) (d : list Z) => (100 + p)%nat in
  let s : @state nat _ _ (list Z) :=
    {| tA := {[ 1%nat := [1]%Z ; 2%nat := [5]%Z ]}; tB := {[ 1%nat := [2]%Z ; 3%nat := [6]%Z ]}; arch := None |} in
  let r := bisync_run Hh dge cname Nat.leb s in
  HashOk Hh s /\ Fresh Hh dge cname s /\
  r.1.2 = ExitConflicts /\ r.2 = [(1%nat, ConfBoth); (2%nat, PropAB); (3%nat, PropBA)] /\
  (* in the map's internal listing order *)
  map_to_list (tA r.1.1) = [(1%nat, [2]%Z); (3%nat, [6]%Z); (101%nat, [1]%Z); (2%nat, [5]%Z)] /\
  map_to_list (tB r.1.1) = map_to_list (tA r.1.1) /\
  (map_to_list <$> arch r.1.1) = Some (map_to_list (tA r.1.1)) /\
  (bisync_run Hh dge cname Nat.leb r.1.1).1.2 = ExitOk /\ (bisync_run Hh dge cname Nat.leb r.1.1).2 = [].
Proof.
  cbv zeta. split; [intros p x y _ _ E; exact E|]. split; [apply fresh_check_sound; vm_compute; reflexivity|].
  vm_compute. repeat split.
Qed.

(** The model the theorems above are about is the translation of src/bin/copia/reconcile.rs (Fingerprint::same, reconcile_path) as it is now: the function
    generated from the source by tools/gen_logic.py (Gen/ReconcileGen.v) equals, on every input, Model/Reconcile.v reconcile_path
    (statement: Proofs/TieReconcile.v, [reconcile_model_is_translation]). *)
Require Copia.Proofs.TieReconcile.
Theorem C06_model_is_translation_of_source : TieReconcile.reconcile_model_is_translation.
Proof. exact TieReconcile.reconcile_model_is_translation_holds. Qed.
Print Assumptions C06_model_is_translation_of_source.

(** The bisync model's OWN per-path decision ([rpath], on digests of regular files, [None] = Noop) is the image of the
    function generated from the current source of reconcile.rs `reconcile_path` (Proofs/TieBisync.v), and its [apply]
    is the effect list generated from the current source of bidir.rs `apply`, run on the working state
    (Proofs/TieBisyncApply.v; premises: no failure so far, a conflict name differs from its path, the scanned files
    are still in the working trees - [tie_apply_vanished_source] shows the one place where the hand-written model and
    the source part ways without the last one). *)
Require Copia.Proofs.TieBisync Copia.Proofs.TieBisyncApply.
Theorem C06_decision_is_translation_of_source : TieBisync.bisync_decision_is_translation.
Proof. exact TieBisync.bisync_decision_is_translation_holds. Qed.
Print Assumptions C06_decision_is_translation_of_source.
Theorem C06_apply_is_translation_of_source : TieBisyncApply.bisync_apply_is_translation.
Proof. exact TieBisyncApply.bisync_apply_is_translation_holds. Qed.
Print Assumptions C06_apply_is_translation_of_source.

(** [bisync_run] / [bisync_dry] - the run of the theorems above - are the translation of bidir.rs `run_bisync` as the
    source has it now: `trust_base` = a record was loaded, the plan from `reconcile` on (a, b, base, trust_base), the
    dry-run exit before anything is touched (printing exactly the plan), the base pruned to paths present on a side,
    `apply(..)?` per plan entry in order, the record saved only after the last apply, the exit status from the conflict
    count (Gen/BisyncRunGen.v, Proofs/TieBisyncRun.v). *)
Require Copia.Proofs.TieBisyncRun.
Theorem C06_run_is_translation_of_source : TieBisyncRun.bisync_run_is_translation.
Proof. exact TieBisyncRun.bisync_run_is_translation_holds. Qed.
Print Assumptions C06_run_is_translation_of_source.

(** The conflict-copy names are the translation of the source as it is now: bidir.rs `short_hex` / wire.rs `short_hash`
    give the first six digest bytes as twelve lower-case hexadecimal digits; the name built in `apply` is
    `<rel>.conflict-<host>-<digits>` ([bi_cname] - the function of the name-format theorem); the hub's name built in
    `handle_put` is `<dst>.conflict-<digits>` ([conflict_name] of Model/SafeJoin.v); the staging name of `create_staging` is the
    destination path plus a slash-free suffix ending in `.copia-tmp` (Gen/ConflictNameGen.v,
    Proofs/TieConflictName.v). *)
Require Copia.Proofs.TieConflictName.
Theorem C06_conflict_names_are_translation_of_source : TieConflictName.conflict_name_is_translation.
Proof. exact TieConflictName.conflict_name_is_translation_holds. Qed.
Print Assumptions C06_conflict_names_are_translation_of_source.

(** What a scan (bisync) or `current_hash` (hub) reads of one path is the translation of meta.rs `fingerprint_path` as the
    source has it now: no fingerprint for an entry that cannot be lstat-ed / opened; a symbolic link by the BLAKE3 of its
    target string; anything else by the BLAKE3 of exactly its bytes - for a regular file the digest the models use
    (Gen/FingerprintGen.v, Proofs/TieFingerprint.v). *)
Require Copia.Proofs.TieFingerprint.
Theorem C06_fingerprint_is_translation_of_source : TieFingerprint.fingerprint_is_translation.
Proof. exact TieFingerprint.fingerprint_is_translation_holds. Qed.
Print Assumptions C06_fingerprint_is_translation_of_source.

(** The key under which a pair's common state is recorded is the translation of archive.rs `root_pair_hash` as the source
    has it now - the hexadecimal BLAKE3 of `canonical(A) NUL canonical(B)` - and, where BLAKE3 does not collide, two
    pairs have the same key exactly when their canonical roots are the same in the same order (Gen/PairKeyGen.v,
    Proofs/TiePairKey.v). *)
Require Copia.Proofs.TiePairKey.
Theorem C06_pair_key_is_translation_of_source : TiePairKey.pair_key_is_translation.
Proof. exact TiePairKey.pair_key_is_translation_holds. Qed.
Print Assumptions C06_pair_key_is_translation_of_source.
