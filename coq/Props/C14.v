(** C14 - an unchanged tree is never re-sent.  Property theorems only.

    Model: Model/OneWay.v.  The destination entry a delivery writes carries the
    source's bytes and the source's whole-second mtime (the three mtime writers /
    readers - SystemTime, `touch -d @secs`, `find -printf %T@` truncated - all
    work on whole seconds; the model's trees hold whole seconds), so the quick
    check of the second run sees size and mtime equal. *)
From Coq Require Import ZArith List Bool Sorted Permutation.
From Copia Require Import Model.Path Model.Glob Model.Plan Model.OneWay Model.OneWayExec
  Proofs.PathProofs Proofs.PlanProofs Proofs.OneWayProofs.
Import ListNotations.
Open Scope Z_scope.

(** After a run in which no delivery failed (exit 0), for every completion
    order, the plan of the same command is empty: nothing to transfer (delivered
    entries carry the source's size and mtime, skipped ones were equal already)
    and nothing to delete (deleted files are gone, excluded destination-only
    files never were in the delete list). *)
Theorem second_run_empty_plan : forall (src dst : tree) (o : opts) (order : list (list Z)) (fail : list Z -> bool),
  tsorted src -> tsorted dst -> o_dry_run o = false ->
  Permutation order (transfer (plan_of src dst o)) -> no_failure fail order ->
  transfer (plan_of src (r_dst (run_oneway src dst o order fail)) o) = [] /\
  sp_delete (plan_of src (r_dst (run_oneway src dst o order fail)) o) = [].
Proof. intros src dst o order fail. exact (second_run_empty_plan_lemma src dst o order fail). Qed.
Print Assumptions second_run_empty_plan.

(** ... so the second run (any order argument, any failure oracle) reports
    `Already up to date` / `No files found`, sends nothing, exits 0 and returns
    the destination tree unchanged - bytes and mtimes; the source is an input
    only. *)
Theorem second_run_identity : forall (src dst : tree) (o : opts) (order : list (list Z)) (fail : list Z -> bool)
    (order2 : list (list Z)) (fail2 : list Z -> bool),
  tsorted src -> tsorted dst -> o_dry_run o = false ->
  Permutation order (transfer (plan_of src dst o)) -> no_failure fail order ->
  let R := r_dst (run_oneway src dst o order fail) in
  let R2 := run_oneway src R o order2 fail2 in
  r_dst R2 = R /\ r_exit_ok R2 = true /\ r_sent R2 = 0 /\ (r_kind R2 = UpToDate \/ r_kind R2 = NoFiles).
Proof. intros src dst o order fail order2 fail2. exact (second_run_identity_lemma src dst o order fail order2 fail2). Qed.
Print Assumptions second_run_identity.

(** The premise `no delivery failed` is the exit status. *)
Theorem exit_zero_iff_no_failure : forall (src dst : tree) (o : opts) (order : list (list Z)) (fail : list Z -> bool),
  o_dry_run o = false -> Permutation order (transfer (plan_of src dst o)) ->
  r_exit_ok (run_oneway src dst o order fail) = true <-> no_failure fail order.
Proof. intros src dst o order fail. exact (exit_ok_iff src dst o order fail). Qed.
Print Assumptions exit_zero_iff_no_failure.

(** A file is sent iff it is a non-excluded source file that is absent from the
    destination or differs from it in size or whole-second mtime (C19's
    plan_transfer_spec through the metadata of the two trees): the cost of a run
    is proportional to what changed. *)
Theorem sent_iff_changed : forall (src dst : tree) (o : opts) (p : list Z),
  In p (transfer (plan_of src dst o)) <->
  exists f, In (p, f) src /\ is_excluded p (o_excludes o) = false /\
    (t_get p dst = None \/
     exists g, t_get p dst = Some g /\
       (Z.of_nat (length (f_bytes f)) <> Z.of_nat (length (f_bytes g)) \/ f_mtime f <> f_mtime g)).
Proof. intros src dst o p. exact (transfer_iff src dst o p). Qed.
Print Assumptions sent_iff_changed.

(** Non-vacuity: the trees of C04's example (transfers, a skip, a delete, excludes);
    the second plan is empty and the second run is `UpToDate` on the same tree. *)
Example C14_nonvacuous :
  let src := mk_tree [([97], ([104;105], 5)); ([98], ([120], 7)); ([99], ([115;97], 3)); ([101;46;116;109;112], ([116], 1))] in
  let dst := mk_tree [([98], ([120;120], 7)); ([99], ([83;65], 3)); ([100], ([111], 9)); ([122;46;116;109;112], ([107], 2))] in
  let o := {| o_delete := true; o_excludes := [[42;46;116;109;112]]; o_dry_run := false |} in
  let r := run_oneway src dst o [[98]; [97]] (fun _ => false) in
  let r2 := run_oneway src (r_dst r) o [] (fun _ => true) in
  (r_kind r, r_sent r, r_exit_ok r) = (Ran, 2, true) /\
  plan_of src (r_dst r) o = {| transfer := []; skipped := 3; sp_delete := [] |} /\
  (r_kind r2, r_exit_ok r2, r_sent r2) = (UpToDate, true, 0) /\ r_dst r2 = r_dst r.
Proof. vm_compute. repeat split. Qed.

(** The model the theorems above are about is the translation of src/bin/copia/plan.rs (needs_transfer, glob_match) as it is now: the function
    generated from the source by tools/gen_logic.py (Gen/PlanGen.v) equals, on every input, Model/Plan.v needs_transfer and Model/Glob.v glob_match (the source's index-based loops are proved equal to the suffix-based loop)
    (statement: Proofs/TiePlan.v, [plan_model_is_translation]). *)
Require Copia.Proofs.TiePlan.
Theorem C14_model_is_translation_of_source : TiePlan.plan_model_is_translation.
Proof. exact TiePlan.plan_model_is_translation_holds. Qed.
Print Assumptions C14_model_is_translation_of_source.

(** The local recursive run as a PROGRAM is the translation of incremental.rs `run_local` as the source has it now (the
    "no files" exit, the plan from build_plan on the two scans, the dry-run exit before anything is touched, the "up to
    date" exit, one spawned deliver_local per path of plan.transfer with the source's scanned mtime, the join, and only
    then the removal of plan.delete, the report), and [run_oneway] of the theorems above is its meaning: the same exit
    kind and plan, deliveries = plan.transfer, deletes = plan.delete after the join (Gen/OneWayRunGen.v,
    Proofs/TieOneWayRun.v). *)
Require Copia.Proofs.TieOneWayRun.
Theorem C14_local_run_is_translation_of_source : TieOneWayRun.oneway_run_is_translation.
Proof. exact TieOneWayRun.oneway_run_is_translation_holds. Qed.
Print Assumptions C14_local_run_is_translation_of_source.

(** The push / pull recursive run as a PROGRAM is the translation of incremental.rs `run_remote` as the source has it now:
    which scan is the source (push: the local one, pull: the remote one), the plan from build_plan, the dry-run exit
    before anything is touched, the directories on the receiving side, one spawned transfer per path of plan.transfer
    with the source's scanned mtime (transfer_file_to_remote / deliver_pull), the join, and only then
    apply_remote_deletes on plan.delete (Gen/RemoteRunGen.v, Proofs/TieRemoteRun.v). *)
Require Copia.Proofs.TieRemoteRun.
Theorem C14_remote_run_is_translation_of_source : TieRemoteRun.remote_run_is_translation.
Proof. exact TieRemoteRun.remote_run_is_translation_holds. Qed.
Print Assumptions C14_remote_run_is_translation_of_source.

(** The parser of the remote listing ([parse_listing]) is the translation of meta.rs `parse_remote_meta_output` as the
    source has it now: records between NUL bytes, cut at the first two TABs (the path keeps its own TABs), size as u64 or
    the record is skipped, mtime = the text before the first `.` as i64 or 0, one leading `./` removed, empty paths
    skipped, later records replace earlier ones (Gen/ListingParseGen.v, Proofs/TieListing.v). *)
Require Copia.Proofs.TieListing.
Theorem C14_listing_parser_is_translation_of_source : TieListing.listing_parser_is_translation.
Proof. exact TieListing.listing_parser_is_translation_holds. Qed.
Print Assumptions C14_listing_parser_is_translation_of_source.

(** The local scan ([meta_of]) is the translation of meta.rs `mtime_secs` / `discover_local_with_meta` as the source has
    them now: every listed file that can be stat-ed enters the map with its size and its modification time in WHOLE
    seconds since the epoch (sub-second part dropped; before the epoch or unknown: 0); a file that cannot be stat-ed is
    skipped (Gen/LocalScanGen.v, Proofs/TieLocalScan.v). *)
Require Copia.Proofs.TieLocalScan.
Theorem C14_local_scan_is_translation_of_source : TieLocalScan.local_scan_is_translation.
Proof. exact TieLocalScan.local_scan_is_translation_holds. Qed.
Print Assumptions C14_local_scan_is_translation_of_source.
