(** C19 - the one-way planner and its pattern matcher equal their set definitions. *)
From Coq Require Import ZArith List Bool.
From Copia Require Import Model.Path Model.Glob Proofs.GlobProofs.
Import ListNotations.
Open Scope Z_scope.

(** The iterative single-backtrack-point matcher of plan.rs (after the F3 repair)
    computes exactly the wildcard definition, for every pattern and text - in
    particular for texts that contain `*` and `?` - and never runs out of fuel. *)
Theorem glob_match_correct : forall p t : list Z, glob_match p t = gm p t.
Proof. intros p t. exact (glob_match_gm p t). Qed.
Print Assumptions glob_match_correct.
