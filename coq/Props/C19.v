(** C19 - the one-way planner and its pattern matcher equal their set definitions.

    Models: Model/Path.v (PathBuf = raw string compared by components),
    Model/Glob.v (glob_match as written after the F3 repair, is_excluded),
    Model/Plan.v (needs_transfer, build_plan), Model/Listing.v
    (parse_remote_meta_output and the modelled `find -printf '%s\t%T@\t%p\0'`). *)
From Coq Require Import ZArith List Bool Sorted Permutation.
From Copia Require Import Model.Path Model.Glob Model.Plan Model.Listing
  Proofs.PathProofs Proofs.GlobProofs Proofs.PlanProofs Proofs.ListingProofs.
Import ListNotations.
Open Scope Z_scope.

(** ** The pattern matcher *)

(** [gm] is the wildcard semantics of the property text: `*` any run of
    characters (possibly empty), `?` exactly one, every other character itself. *)
Theorem gm_defining_equations :
  (forall t, gm [] t = match t with [] => true | _ => false end) /\
  (forall p t, gm (STAR :: p) t = gm p t || match t with [] => false | _ :: t' => gm (STAR :: p) t' end) /\
  (forall p c t, gm (QMARK :: p) (c :: t) = gm p t) /\
  (forall x p c t, x <> STAR -> x <> QMARK -> gm (x :: p) (c :: t) = (x =? c) && gm p t) /\
  (forall x p, x <> STAR -> gm (x :: p) [] = false).
Proof. exact (conj gm_nil_l (conj gm_star_eq (conj gm_q_eq (conj gm_lit_eq gm_nonstar_nil)))). Qed.
Print Assumptions gm_defining_equations.

(** The iterative single-backtrack-point matcher of plan.rs (branch order after
    the F3 repair: `*` test, literal-or-`?` test, backtrack) computes exactly that
    semantics for EVERY pattern and text - in particular for texts containing `*`
    and `?` - and the fuel (|p|+1)(|t|+1)+1 always suffices. *)
Theorem glob_match_correct : forall p t : list Z, glob_match p t = gm p t.
Proof. intros p t. exact (glob_match_gm p t). Qed.
Print Assumptions glob_match_correct.

Theorem glob_match_never_out_of_fuel :
  forall p t : list Z, glob_loop (glob_fuel p t) p t None t = Some (gm p t).
Proof. intros p t. exact (glob_fuel_suffices p t). Qed.
Print Assumptions glob_match_never_out_of_fuel.

(** F3: with the order of tests the source had before the repair (literal-or-`?`
    first) the matcher is NOT the definition: `*` against `*ab`. *)
Theorem glob_match_before_repair_refuted :
  glob_match_prefix [42] [42; 97; 98] = false /\ gm [42] [42; 97; 98] = true.
Proof. exact glob_match_prefix_refuted. Qed.
Print Assumptions glob_match_before_repair_refuted.

(** [is_excluded]: some pattern, after trimming its trailing slashes, is
    non-empty and - if it contains a slash - matches the whole relative path
    string, or - slash-free - matches one Normal component of the path. *)
Theorem is_excluded_spec : forall (rel : list Z) (excludes : list (list Z)),
  is_excluded rel excludes = true <->
  exists pat0, In pat0 excludes /\
    let pat := trim_end_slash pat0 in
    pat <> [] /\
    (if has_slash pat then gm pat rel = true
     else exists c, In (CNormal c) (components rel) /\ gm pat c = true).
Proof. intros rel excludes. exact (is_excluded_iff rel excludes). Qed.
Print Assumptions is_excluded_spec.

Theorem trim_end_slash_is_trailing_run : forall s : list Z,
  exists k, s = trim_end_slash s ++ repeat PSEP k /\
            (trim_end_slash s = [] \/ exists pre x, trim_end_slash s = pre ++ [x] /\ x <> PSEP).
Proof. intros s. exact (trim_end_slash_spec s). Qed.
Print Assumptions trim_end_slash_is_trailing_run.

(** ** The planner *)

(** Lookup in a map whose keys are PathBufs: by component-wise equality. *)
Theorem metamap_lookup_spec : forall (m : metamap) (p : list Z), mm_sorted m ->
  (forall v, mm_get p m = Some v <-> exists k, In (k, v) m /\ path_cmp p k = Eq) /\
  (mm_get p m = None <-> forall k v, In (k, v) m -> path_cmp p k <> Eq).
Proof. intros m p. exact (mm_get_spec m p). Qed.
Print Assumptions metamap_lookup_spec.

Theorem path_equality_is_component_equality : forall a b : list Z,
  path_cmp a b = Eq <-> components a = components b.
Proof. intros a b. exact (path_cmp_eq a b). Qed.
Print Assumptions path_equality_is_component_equality.

(** transfer = the non-excluded source paths that are absent from the
    destination or differ from it in size or mtime. *)
Theorem plan_transfer_spec : forall (src dst : metamap) (excludes : list (list Z)) (del : bool) (p : list Z),
  In p (transfer (build_plan src dst excludes del)) <->
  exists sm, In (p, sm) src /\ is_excluded p excludes = false /\
    (mm_get p dst = None \/
     exists dm, mm_get p dst = Some dm /\ (fm_size sm <> fm_size dm \/ fm_mtime sm <> fm_mtime dm)).
Proof. intros src dst excludes del p. exact (plan_transfer_in src dst excludes del p). Qed.
Print Assumptions plan_transfer_spec.

(** skipped = the number of remaining non-excluded source paths. *)
Theorem plan_skipped_spec : forall (src dst : metamap) (excludes : list (list Z)) (del : bool),
  skipped (build_plan src dst excludes del) =
  Z.of_nat (length (filter (fun e => negb (is_excluded (fst e) excludes)) src)) -
  Z.of_nat (length (transfer (build_plan src dst excludes del))).
Proof. intros src dst excludes del. exact (plan_skipped_eq src dst excludes del). Qed.
Print Assumptions plan_skipped_spec.

(** sp_delete = nothing without the flag; with it exactly the destination paths
    absent from the source and not excluded. *)
Theorem plan_delete_spec : forall (src dst : metamap) (excludes : list (list Z)),
  sp_delete (build_plan src dst excludes false) = [] /\
  forall p, In p (sp_delete (build_plan src dst excludes true)) <->
            exists dm, In (p, dm) dst /\ mm_get p src = None /\ is_excluded p excludes = false.
Proof. intros src dst excludes. exact (conj (plan_delete_off src dst excludes) (plan_delete_in src dst excludes)). Qed.
Print Assumptions plan_delete_spec.

(** Both lists come out strictly sorted (PathBuf order) and duplicate-free; on
    sorted maps (BTreeMap iteration) the two [sort()] calls are the identity. *)
Theorem plan_lists_sorted_nodup : forall (src dst : metamap) (excludes : list (list Z)) (del : bool),
  mm_sorted src -> mm_sorted dst ->
  StronglySorted plt (transfer (build_plan src dst excludes del)) /\
  NoDup (transfer (build_plan src dst excludes del)) /\
  StronglySorted plt (sp_delete (build_plan src dst excludes del)) /\
  NoDup (sp_delete (build_plan src dst excludes del)).
Proof. intros src dst excludes del. exact (plan_sorted_nodup src dst excludes del). Qed.
Print Assumptions plan_lists_sorted_nodup.

(** (used by C15) an excluded path is neither transferred nor deleted ... *)
Theorem excluded_never_planned : forall (src dst : metamap) (excludes : list (list Z)) (del : bool) (p : list Z),
  is_excluded p excludes = true ->
  ~ In p (transfer (build_plan src dst excludes del)) /\ ~ In p (sp_delete (build_plan src dst excludes del)).
Proof. intros src dst excludes del p. exact (excluded_not_planned src dst excludes del p). Qed.
Print Assumptions excluded_never_planned.

(** ... and without the flag nothing is deleted. *)
Theorem no_delete_without_flag : forall (src dst : metamap) (excludes : list (list Z)),
  sp_delete (build_plan src dst excludes false) = [].
Proof. intros src dst excludes. exact (plan_delete_off src dst excludes). Qed.
Print Assumptions no_delete_without_flag.

(** ** The remote listing *)

(** The decimal printer of the modelled `find` writes a non-empty digit string
    with the right value (so the round trip below is not about a degenerate printer). *)
Theorem listing_decimal_printer_spec : forall n : Z, 0 <= n ->
  Forall (fun d => is_digit d = true) (dec n) /\ dec n <> [] /\
  fold_left (fun a d => a * 10 + (d - 48)) (dec n) 0 = n.
Proof. intros n. exact (dec_spec n). Qed.
Print Assumptions listing_decimal_printer_spec.

(** For every list of records [record_ok] (non-empty path without NUL - tabs,
    newlines, dots, even a leading "./" allowed; size <= u64::MAX; 0 <= seconds <=
    i64::MAX; any fraction text without NUL/TAB, or none), the listing the modelled
    `find -printf '%s\t%T@\t%p\0'` prints is parsed back into the map of the
    (path, size, whole-second mtime) triples, inserted in listing order; that map is
    sorted, and when no two records name the same file it holds exactly the triples. *)
Theorem listing_roundtrip : forall rs : list lrecord, Forall record_ok rs ->
  parse_listing (render_listing rs) = map_of rs /\
  mm_sorted (map_of rs) /\
  (distinct_paths rs -> Permutation (map_of rs) (map triple_of rs)).
Proof. intros rs H. exact (conj (parse_render rs H) (conj (map_of_sorted rs) (map_of_perm rs))). Qed.
Print Assumptions listing_roundtrip.

(** Non-vacuity: metacharacters in the text, a plan with all three parts, a listing
    with a tab and a newline in a name, a fraction, a `./`-prefixed name and u64::MAX. *)
Example C19_nonvacuous :
  glob_match [42] [42; 97; 98] = true /\                                  (* "*" vs "*ab" *)
  glob_match [97; 63; 42; 46; 116] [97; 42; 63; 46; 46; 116] = true /\    (* "a?*.t" vs "a*?..t" *)
  glob_match [97; 42; 98] [97; 42; 99] = false /\
  is_excluded [98; 47; 42; 120] [[42; 120; 47]] = true /\                 (* "b/*x" excluded by "*x/" *)
  (let m s t := {| fm_size := s; fm_mtime := t |} in
   build_plan [([42; 120], m 1 1); ([97], m 1 1); ([98], m 2 5); ([99], m 3 3)]
              [([98], m 2 6); ([99], m 3 3); ([100], m 0 0); ([122; 46; 116], m 0 0)]
              [[42; 46; 116]; [42; 120]] true
   = {| transfer := [[97]; [98]]; skipped := 1; sp_delete := [[100]] |}) /\
  (let rs := [ {| lr_path := [97; 9; 10; 98]; lr_size := 18446744073709551615; lr_secs := 1700000000; lr_frac := Some [53; 48] |};
               {| lr_path := [46; 47; 120]; lr_size := 0; lr_secs := 7; lr_frac := None |} ] in
   Forall record_ok rs /\ distinct_paths rs /\
   parse_listing (render_listing rs) =
     [([46; 47; 120], {| fm_size := 0; fm_mtime := 7 |});
      ([97; 9; 10; 98], {| fm_size := 18446744073709551615; fm_mtime := 1700000000 |})]).
Proof.
  split; [vm_compute; reflexivity|]. split; [vm_compute; reflexivity|]. split; [vm_compute; reflexivity|].
  split; [vm_compute; reflexivity|]. split; [vm_compute; reflexivity|].
  split; [|split; [|vm_compute; reflexivity]].
  - constructor; [|constructor; [|constructor]]; unfold record_ok; cbn [lr_path lr_size lr_secs lr_frac].
    + split; [discriminate|]. split; [vm_compute; intuition discriminate|].
      split; [vm_compute; split; discriminate|]. split; [vm_compute; split; discriminate|].
      vm_compute; intuition discriminate.
    + split; [discriminate|]. split; [vm_compute; intuition discriminate|].
      split; [vm_compute; split; discriminate|]. split; [vm_compute; split; discriminate|]. exact I.
  - cbn [distinct_paths]. split; [|split; [constructor|exact I]].
    constructor; [|constructor]. vm_compute. discriminate.
Qed.

(** The model the theorems above are about is the translation of src/bin/copia/plan.rs (needs_transfer, glob_match) as it is now: the function
    generated from the source by tools/gen_logic.py (Gen/PlanGen.v) equals, on every input, Model/Plan.v needs_transfer and Model/Glob.v glob_match (the source's index-based loops are proved equal to the suffix-based loop)
    (statement: Proofs/TiePlan.v, [plan_model_is_translation]). *)
Require Copia.Proofs.TiePlan.
Theorem C19_model_is_translation_of_source : TiePlan.plan_model_is_translation.
Proof. exact TiePlan.plan_model_is_translation_holds. Qed.
Print Assumptions C19_model_is_translation_of_source.

(** Every pattern of the list counts: the plan depends on the --exclude list only as a SET of patterns - order, repetitions
    and any re-arrangement that keeps the same patterns leave transfer, skipped and delete unchanged (so nothing may drop a
    pattern because another one seems to cover it, unless it is the same pattern). *)
Theorem C19_plan_depends_on_the_set_of_patterns : forall (src dst : metamap) (ex1 ex2 : list (list Z)) (del : bool),
  (forall p, In p ex1 <-> In p ex2) -> build_plan src dst ex1 del = build_plan src dst ex2 del.
Proof. exact PlanProofs.build_plan_same_set. Qed.
Print Assumptions C19_plan_depends_on_the_set_of_patterns.
