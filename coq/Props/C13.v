(** C13 - hub-sync lands the local tree on the hub and skips what is already there.
    Property theorems only. *)
From stdpp Require Import gmap.
From Copia Require Import Model.Hub Model.HubClient Proofs.HubProofs Proofs.HubClientProofs.

Section C13.
Context `{Countable K} {D : Type} `{EqDecision D}.
Variable Hh : list Z -> D.
Variable cname : K -> D -> K.
Variable hidden : K -> bool.

(** With nobody else writing: exit 0, every local file is on the hub at its path
    with identical bytes, hub files at other paths are untouched, and sent +
    unchanged = number of local files.  Hypotheses made explicit by the proof: the
    local tree has no entry under the hub's hidden control directory, and BLAKE3
    does not collide between the hub's and the local file of one path. *)
Theorem C13_hubsync_alone :
  forall (t : gmap K (list Z)) (local : list (K * list Z)),
  NoDup (fst <$> local) -> Forall (fun kv => hidden (fst kv) = false) local ->
  (forall p c c', (p, c) ∈ local -> t !! p = Some c' -> Hh c' = Hh c -> c' = c) ->
  let r := hub_sync Hh cname hidden t local in
  exit_ok r = true /\
  (forall p c, (p, c) ∈ local -> sr_tree r !! p = Some c) /\
  (forall p, p ∉ (fst <$> local) -> sr_tree r !! p = t !! p) /\
  (sr_sent r + sr_skipped r = length local)%nat.
Proof. exact (hubsync_alone Hh cname hidden). Qed.

(** An immediate second run issues no Put at all. *)
Theorem C13_second_run_sends_nothing :
  forall (t : gmap K (list Z)) (local : list (K * list Z)),
  NoDup (fst <$> local) -> Forall (fun kv => hidden (fst kv) = false) local ->
  (forall p c c', (p, c) ∈ local -> t !! p = Some c' -> Hh c' = Hh c -> c' = c) ->
  sync_prog Hh local (listing Hh hidden (sr_tree (hub_sync Hh cname hidden t local))) = [].
Proof. exact (hubsync_second_run_sends_nothing Hh cname hidden). Qed.

(** Under ANY interference (stale listing [L]): every request hub-sync issues is a
    Put of one local file's exact bytes with a matching hash and length, carrying
    the digest it was shown as [expected]; by C03 each is therefore a logged CAS:
    committed => the hub holds those bytes at the path; not committed => the live
    file is untouched and those bytes are at the conflict name (C03's lemmas,
    restated for these requests below). *)
Theorem C13_requests_are_verified_cas :
  forall (local : list (K * list Z)) (L : gmap K D),
  Forall (fun r => match r with
                   | Put p e d len ch => verified Hh d len (body ch) = true /\ e = L !! p /\
                                         (exists c, (p, c) ∈ local /\ body ch = c)
                   | _ => False end) (sync_prog Hh local L).
Proof. exact (sync_prog_verified Hh cname hidden). Qed.

Theorem C13_stale_put_preserves_both :
  forall (m : gmap K (list Z)) p e d len ch,
  cur_of Hh m p <> e -> cname p d <> p ->
  fst (spec Hh cname m (Put p e d len ch)) !! p = m !! p /\
  fst (spec Hh cname m (Put p e d len ch)) !! cname p d = Some (body ch).
Proof. intros m p e d len ch Hne Hcn.
  destruct (spec_put_uncommitted Hh cname m p e d len ch Hne Hcn) as (A & B & _). auto. Qed.
End C13.

Print Assumptions C13_hubsync_alone.
Print Assumptions C13_second_run_sends_nothing.
Print Assumptions C13_requests_are_verified_cas.
Print Assumptions C13_stale_put_preserves_both.

Example C13_nonvacuous :
  let cname := fun (p : nat) (d : list Z) => (100 + p)%nat in
  let t : gmap nat (list Z) := {[ 1%nat := [7]%Z ; 5%nat := [9]%Z ]} in
  let r := hub_sync (fun x => x) cname (fun _ => false) t [(1%nat, [8]%Z); (2%nat, [3]%Z)] in
  sr_tree r !! 1%nat = Some [8]%Z /\ sr_tree r !! 2%nat = Some [3]%Z /\ sr_tree r !! 5%nat = Some [9]%Z /\
  sr_sent r = 2%nat /\ sr_conflicts r = 0%nat.
Proof. vm_compute. repeat split. Qed.

(** The model the theorems above are about is the translation of src/bin/copia/wire.rs cas_decide as it is now: the function
    generated from the source by tools/gen_logic.py (Gen/CasGen.v) equals, on every input, the decision `current hash = expected` of Model/Hub.v (spec and step)
    (statement: Proofs/TieCas.v, [cas_model_is_translation]). *)
Require Copia.Proofs.TieCas.
Theorem C13_model_is_translation_of_source : TieCas.cas_model_is_translation.
Proof. exact TieCas.cas_model_is_translation_holds. Qed.
Print Assumptions C13_model_is_translation_of_source.

(** How the command line names the other side: `host:path` splits at the FIRST colon, and is remote only when the
    host part qualifies (sync arguments: longer than one character, no slash or backslash - main.rs FileLocation::parse;
    hub targets: non-empty, no slash - hub.rs split_target); the models are the translation of the current source
    (Model/Targets.v, Gen/TargetsGen.v, Proofs/TargetsProofs.v). *)
Require Copia.Model.Targets Copia.Proofs.TargetsProofs.
Theorem C13_split_target_spec : forall t h r : list BinNums.Z,
  Targets.split_target t = Some (h, r) <->
  t = h ++ Targets.COLON :: r /\ h <> nil /\ ~ In Targets.COLON h /\ ~ In Targets.SLASH h.
Proof. exact TargetsProofs.split_target_spec. Qed.
Print Assumptions C13_split_target_spec.
Theorem C13_parse_location_remote_spec : forall s h p : list BinNums.Z,
  Targets.parse_location s = Targets.LRemote h p <->
  s = h ++ Targets.COLON :: p /\ (1 < BinInt.Z.of_nat (length h))%Z /\ ~ In Targets.COLON h /\ ~ In Targets.SLASH h /\ ~ In Targets.BACKSLASH h.
Proof. exact TargetsProofs.parse_location_remote_spec. Qed.
Print Assumptions C13_parse_location_remote_spec.
Theorem C13_targets_are_translation_of_source : TargetsProofs.targets_model_is_translation.
Proof. exact TargetsProofs.targets_model_is_translation_holds. Qed.
Print Assumptions C13_targets_are_translation_of_source.

(** The sequential Put and Delete handlers of Model/HubSeq.v ([seq_handle], defined through the CAS specification
    [spec] of Model/Hub.v) are the translation of serve.rs `handle_put` / `handle_delete` / `handle_get` as the source has them now,
    read as functions of the served tree: refusal, the length and hash checks, the compare-and-swap on the CURRENT
    hash, which name the staging file is renamed onto, and the reply (Gen/HubDeleteGen.v, Proofs/TieHubDelete.v). *)
Require Copia.Proofs.TieHubDelete.
Theorem C13_handlers_are_translation_of_source : TieHubDelete.hub_delete_is_translation.
Proof. exact TieHubDelete.hub_delete_is_translation_holds. Qed.
Print Assumptions C13_handlers_are_translation_of_source.

(** The CLIENT of the theorems above - [hub_sync_from]: one List, then for every local file in path order a skip when
    the LISTED digest equals the local one, else a CAS Put whose `expected` is the LISTED digest; three counters; exit
    status ok iff no Put came back uncommitted - is the translation of hub.rs `hub_sync` as the source has it now
    (Gen/HubSyncGen.v, Proofs/TieHubSync.v), for every listing (fresh or stale), hub tree and local tree. *)
Require Copia.Proofs.TieHubSync.
Theorem C13_client_is_translation_of_source : TieHubSync.hub_sync_is_translation.
Proof. exact TieHubSync.hub_sync_is_translation_holds. Qed.
Print Assumptions C13_client_is_translation_of_source.

(** The dispatch of the read loop is the translation of serve.rs `serve` as the source has it now: the served directory
    and its control directory are created, the prologue is tested, and only when it is the magic every decoded request
    up to `Bye` goes to its handler with its own fields (Hello -> the server's version; List -> the reviewed listing block;
    Get / Put / Delete -> handle_get / handle_put / handle_delete); nothing else happens before the prologue is accepted
    (Gen/ServeLoopGen.v, Proofs/TieServeLoop.v). *)
Require Copia.Proofs.TieServeLoop.
Theorem C13_dispatch_is_translation_of_source : TieServeLoop.serve_loop_is_translation.
Proof. exact TieServeLoop.serve_loop_is_translation_holds. Qed.
Print Assumptions C13_dispatch_is_translation_of_source.

(** What the client puts on the wire is the translation of hub.rs `HubClient::put` / `HubClient::list` as the source has
    them now (one Put request carrying the file's length and the given hash, then the file's bytes, then one reply; List
    then one reply), and - served by the sequential handler - that request is the step `client.put(..)` stands for in the
    translation of `hub_sync` (Gen/HubWireClientGen.v, Proofs/TieHubWireClient.v). *)
Require Copia.Proofs.TieHubWireClient.
Theorem C13_client_wire_is_translation_of_source : TieHubWireClient.hub_wire_client_is_translation.
Proof. exact TieHubWireClient.hub_wire_client_is_translation_holds. Qed.
Print Assumptions C13_client_wire_is_translation_of_source.

(** How the client reaches its hub is the translation of hub.rs `HubClient::connect` as the source has it now: a
    `host:root` target runs `ssh -T host copia serve root` (the root as one unquoted ssh argument), any other target this
    executable with `serve target`; then the magic, Hello, one reply, accepted exactly for a Hello with version >= 1
    (Gen/HubConnectGen.v, Proofs/TieHubConnect.v). *)
Require Copia.Proofs.TieHubConnect.
Theorem C13_connect_is_translation_of_source : TieHubConnect.hub_connect_is_translation.
Proof. exact TieHubConnect.hub_connect_is_translation_holds. Qed.
Print Assumptions C13_connect_is_translation_of_source.
