(** C11 - a hub client can never reach outside the served directory.
    Property theorems only.  [rel] ranges over ALL byte strings. *)
From Coq Require Import ZArith List Bool.
From Copia Require Import Gen.Constants Model.SafeJoin Proofs.SafeJoinProofs Model.Wire Proofs.WireProofs.
Import ListNotations.
Open Scope Z_scope.

(** A path that is absolute or has a ".." component is refused. *)
Theorem C11_safe_join_refuses : forall root rel : list Z,
  is_absolute rel = true \/ existsb is_dotdot (split_slash rel) = true -> safe_join root rel = None.
Proof. exact safe_join_refuses. Qed.
Print Assumptions C11_safe_join_refuses.

(** Every accepted path, resolved by the kernel on a symlink-free tree, is the
    served directory itself or lies below it. *)
Theorem C11_accepts_only_confined : forall root rel d : list Z,
  safe_join root rel = Some d -> inside (resolve root) (resolve d).
Proof. exact safe_join_confined. Qed.
Print Assumptions C11_accepts_only_confined.

(** So do the names derived from it: the per-process staging name and the
    conflict-copy name (suffixes without '/'; pid digits / hex digits arbitrary). *)
Theorem C11_derived_names_confined : forall root rel d pid hex : list Z,
  safe_join root rel = Some d -> noslash pid -> noslash hex ->
  inside (resolve root) (resolve (stage_name d pid)) /\
  inside (resolve root) (resolve (conflict_name d hex)).
Proof. intros root rel d pid hex Hs Hp Hh. split;
  [exact (stage_confined root rel d pid Hs Hp)|exact (conflict_confined root rel d hex Hs Hh)]. Qed.
Print Assumptions C11_derived_names_confined.

(** Every directory on the way to a confined location is an ancestor-or-self of
    the served directory (it exists already) or lies inside it: create_dir_all
    can only create inside. *)
Theorem C11_created_dirs_confined : forall (rt below x rest : list (list Z)),
  rt ++ below = x ++ rest -> (exists r2, rt = x ++ r2) \/ inside rt x.
Proof. exact prefix_cases. Qed.
Print Assumptions C11_created_dirs_confined.

(** The connection stays usable: a well-framed request that is refused (handler
    leaves the tree unchanged; a Put's announced content is drained) yields its
    error reply followed by exactly the session without it. *)
Theorem C11_refused_request_is_skippable :
  forall (T request R : Type) (decode : list Z -> option request) (is_bye : request -> bool)
         (content_len : request -> Z) (handle : T -> request -> list Z -> option (T * R))
         fuel payload rq content rest t e,
  Z.of_nat (length payload) <= MAX_FRAME -> MAX_FRAME < 2^32 ->
  decode payload = Some rq -> is_bye rq = false ->
  Z.of_nat (length content) = Z.max 0 (content_len rq) ->
  handle t rq content = Some (t, e) ->
  let A := loop T request R decode is_bye content_len handle (S fuel) (frame payload ++ content ++ rest) t [] [] in
  let B := loop T request R decode is_bye content_len handle fuel rest t [] [] in
  o_exit T R A = o_exit T R B /\ o_tree T R A = o_tree T R B /\ o_replies T R A = e :: o_replies T R B.
Proof. intros T request R decode is_bye content_len handle.
  exact (refused_request_is_skippable T request R decode is_bye content_len handle). Qed.
Print Assumptions C11_refused_request_is_skippable.

(** Non-vacuity: concrete strings. *)
Example C11_nonvacuous :
  let s := fun (l : list Z) => l in
  safe_join (s [47;114]) (s [46;46;47;120]) = None /\                         (* "/r" "../x" *)
  safe_join (s [47;114]) (s [47;101;116;99]) = None /\                        (* "/etc" *)
  safe_join (s [47;114]) (s [97;47;46;46;47;46;46;47;120]) = None /\          (* "a/../../x" *)
  safe_join (s [47;114]) (s [97;46;46;98;47;47;46;47;99]) = Some (s [47;114;47;97;46;46;98;47;47;46;47;99]) /\ (* "a..b//./c" *)
  resolve (s [47;114;47;97;46;46;98;47;47;46;47;99]) = [[114]; [97;46;46;98]; [99]].
Proof. vm_compute. repeat split. Qed.

(** The model the theorems above are about is the translation of src/bin/copia/serve.rs safe_join as it is now: the function
    generated from the source by tools/gen_logic.py (Gen/SafeJoinGen.v) equals, on every input, Model/SafeJoin.v safe_join
    (statement: Proofs/TieSafeJoin.v, [safe_join_model_is_translation]). *)
Require Copia.Proofs.TieSafeJoin.
Theorem C11_model_is_translation_of_source : TieSafeJoin.safe_join_model_is_translation.
Proof. exact TieSafeJoin.safe_join_model_is_translation_holds. Qed.
Print Assumptions C11_model_is_translation_of_source.

(** The sequential Put and Delete handlers of Model/HubSeq.v ([seq_handle], defined through the CAS specification
    [spec] of Model/Hub.v) are the translation of serve.rs `handle_put` / `handle_delete` / `handle_get` as the source has them now,
    read as functions of the served tree: refusal, the length and hash checks, the compare-and-swap on the CURRENT
    hash, which name the staging file is renamed onto, and the reply (Gen/HubDeleteGen.v, Proofs/TieHubDelete.v). *)
Require Copia.Proofs.TieHubDelete.
Theorem C11_handlers_are_translation_of_source : TieHubDelete.hub_delete_is_translation.
Proof. exact TieHubDelete.hub_delete_is_translation_holds. Qed.
Print Assumptions C11_handlers_are_translation_of_source.

(** The dispatch of the read loop is the translation of serve.rs `serve` as the source has it now: the served directory
    and its control directory are created, the prologue is tested, and only when it is the magic every decoded request
    up to `Bye` goes to its handler with its own fields (Hello -> the server's version; List -> the reviewed listing block;
    Get / Put / Delete -> handle_get / handle_put / handle_delete); nothing else happens before the prologue is accepted
    (Gen/ServeLoopGen.v, Proofs/TieServeLoop.v). *)
Require Copia.Proofs.TieServeLoop.
Theorem C11_dispatch_is_translation_of_source : TieServeLoop.serve_loop_is_translation.
Proof. exact TieServeLoop.serve_loop_is_translation_holds. Qed.
Print Assumptions C11_dispatch_is_translation_of_source.

(** The conflict-copy names are the translation of the source as it is now: bidir.rs `short_hex` / wire.rs `short_hash`
    give the first six digest bytes as twelve lower-case hexadecimal digits; the name built in `apply` is
    `<rel>.conflict-<host>-<digits>` ([bi_cname] - the function of the name-format theorem); the hub's name built in
    `handle_put` is `<dst>.conflict-<digits>` ([conflict_name] of Model/SafeJoin.v); the staging name of `create_staging` is the
    destination path plus a slash-free suffix ending in `.copia-tmp` (Gen/ConflictNameGen.v,
    Proofs/TieConflictName.v). *)
Require Copia.Proofs.TieConflictName.
Theorem C11_conflict_names_are_translation_of_source : TieConflictName.conflict_name_is_translation.
Proof. exact TieConflictName.conflict_name_is_translation_holds. Qed.
Print Assumptions C11_conflict_names_are_translation_of_source.
