(** C09 - one-way delivery is atomic under a crash at any point.  Property
    theorems only (the crash-point correspondence harness is separate).

    Model/OneWaySteps.v: every delivery of the plan unfolded into its atomic steps
      open(T, O_CREAT|O_TRUNC) ; write(T, chunk)* ; rename(T, D) ; set mtime
    for any number of deliveries, interleaved by an ARBITRARY schedule (a list of
    delivery indices of any length; an index that is out of range or whose
    delivery is finished is a no-op).  A crash is a prefix of a schedule, and
    every list is a prefix of some schedule: the theorems quantify over all
    lists.  For a push the remote command stages what arrives and renames only a
    complete staging file, also when it finishes after its sender died
    ([remote_finish]).  Staging files are part of the per-delivery state, never
    of the destination map.  Paths are any type with a decidable equality. *)
From Coq Require Import ZArith List Bool Sorted Permutation.
From Copia Require Import Model.Path Model.Glob Model.Plan Model.OneWay Model.OneWayExec Model.OneWaySteps
  Proofs.PathProofs Proofs.PlanProofs Proofs.OneWayProofs Proofs.OneWayStepsProofs.
Import ListNotations.
Open Scope Z_scope.

(** Local copy and pull.  After EVERY schedule from the initial state: every
    path holds its pre-run entry or the COMPLETE bytes of the one delivery for
    that path (with the fresh mtime [now], or already the source's mtime) - never
    a truncated or mixed file; paths of no delivery are unchanged; and a staging
    file always holds a prefix of its delivery's bytes. *)
Theorem crash_atomic :
  forall (K : Type) (keqb : K -> K -> bool), (forall x y, keqb x y = true <-> x = y) ->
  forall (ds : list (delivery K)) (dst : dst_t K) (now : Z) (sched : list nat),
  (forall i j di dj, nth_error ds i = Some di -> nth_error ds j = Some dj -> i <> j -> d_path K di <> d_path K dj) ->
  let s := run K keqb ds (init K dst ds now) sched in
  (forall p, s_dst K s p = dst p \/
     exists d, In d ds /\ d_path K d = p /\
       (s_dst K s p = Some (d_bytes K d, now) \/ s_dst K s p = Some (d_bytes K d, d_mtime K d))) /\
  (forall p, (forall d, In d ds -> d_path K d <> p) -> s_dst K s p = dst p) /\
  (forall i d todo acc, nth_error ds i = Some d -> nth_error (s_pcs K s) i = Some (Staging todo acc) ->
     exists rest, d_bytes K d = acc ++ rest).
Proof. exact crash_atomic_lemma. Qed.
Print Assumptions crash_atomic.

(** Push.  The same after a kill at any point followed by the remote commands
    running to completion on what arrived: a staging file is renamed only if its
    byte count is complete, and a complete prefix of the bytes IS the bytes. *)
Theorem crash_atomic_push :
  forall (K : Type) (keqb : K -> K -> bool), (forall x y, keqb x y = true <-> x = y) ->
  forall (ds : list (delivery K)) (dst : dst_t K) (now : Z) (sched : list nat),
  (forall i j di dj, nth_error ds i = Some di -> nth_error ds j = Some dj -> i <> j -> d_path K di <> d_path K dj) ->
  let s := remote_finish K keqb ds (run K keqb ds (init K dst ds now) sched) in
  (forall p, s_dst K s p = dst p \/
     exists d, In d ds /\ d_path K d = p /\
       (s_dst K s p = Some (d_bytes K d, now) \/ s_dst K s p = Some (d_bytes K d, d_mtime K d))) /\
  (forall p, (forall d, In d ds -> d_path K d <> p) -> s_dst K s p = dst p) /\
  (forall i d todo acc, nth_error ds i = Some d -> nth_error (s_pcs K s) i = Some (Staging todo acc) ->
     exists rest, d_bytes K d = acc ++ rest).
Proof. exact crash_atomic_push_lemma. Qed.
Print Assumptions crash_atomic_push.

(** Running the same command again (Model/OneWay.v).  Let [c] be ANY tree in
    which every path holds its entry of [dst], or - for a path of plan.transfer -
    the complete source bytes with any mtime, or - for a path of plan.delete -
    nothing (by [crash_atomic] these are the trees a crash can leave; deletes run
    after the deliveries).  Then the run from [c], with its own plan and any
    completion order, exits 0 and its destination agrees with the uninterrupted
    run at every path.  Side condition, needed only with --delete: the crashed
    tree spells its paths as [dst] or [src] did ([rerun_needs_spelling] below
    shows that it cannot be dropped: a pattern containing `/` is matched against
    the spelling). *)
Theorem rerun_after_crash : forall (src dst : tree) (o : opts) (c : tree) (order order' : list (list Z)),
  tsorted src -> tsorted dst -> o_dry_run o = false ->
  (forall p,
     t_get p c = t_get p dst \/
     (pin p (transfer (plan_of src dst o)) /\
      exists f m, t_get p src = Some f /\ t_get p c = Some {| f_bytes := f_bytes f; f_mtime := m |}) \/
     (pin p (sp_delete (plan_of src dst o)) /\ t_get p c = None)) ->
  (o_delete o = true -> forall k, In k (keys c) -> In k (keys dst) \/ In k (keys src)) ->
  Permutation order (transfer (plan_of src dst o)) -> Permutation order' (transfer (plan_of src c o)) ->
  (forall p, t_get p (r_dst (run_oneway src c o order' (fun _ => false))) =
             t_get p (r_dst (run_oneway src dst o order (fun _ => false)))) /\
  r_exit_ok (run_oneway src c o order' (fun _ => false)) = true.
Proof. intros src dst o c order order'. exact (rerun_after_crash_lemma src dst o c order order'). Qed.
Print Assumptions rerun_after_crash.

(** The statement without the spelling premise is false in the model. *)
Theorem rerun_needs_spelling :
  let src : tree := [] in
  let dst := mk_tree [([97;47;98], ([1], 5))] in
  let c := mk_tree [([97;47;47;98], ([1], 5))] in
  let o := {| o_delete := true; o_excludes := [[97;47;98]]; o_dry_run := false |} in
  tsorted src /\ tsorted dst /\ tsorted c /\ crash_state src dst o c /\
  t_get [97;47;98] (r_dst (run_oneway src dst o (transfer (plan_of src dst o)) (fun _ => false))) = Some {| f_bytes := [1]; f_mtime := 5 |} /\
  t_get [97;47;98] (r_dst (run_oneway src c o (transfer (plan_of src c o)) (fun _ => false))) = None.
Proof. exact rerun_spelling_counterexample. Qed.
Print Assumptions rerun_needs_spelling.

(** Push with --delete: the delete list.  The plan's stale paths are written, NUL-terminated, into the pipe of the
    remote delete command in one or several write calls; a kill between two of them delivers a PREFIX [arrived] of the
    byte string (any prefix: the quantifier covers every chunking and every kill point).  The remote command
    (Model/ShellQuote.v [remote_delete]: stage, compare the byte count, only then `xargs -0 rm`) then hands to `rm`
    either exactly the plan's list - when everything arrived - or nothing: no path outside the plan is ever removed.
    Before the repair 297f20b the same statement was false ([crash_push_delete_unchecked_refuted]): `xargs -0` takes
    the cut-off tail of the input for a path. *)
Require Copia.Model.ShellQuote Copia.Proofs.ShellQuoteProofs.
Theorem crash_push_delete_all_or_nothing :
  forall (ps : list (list Z)) (arrived rest : list Z),
  Forall (fun p => ~ In 0 p) ps -> ShellQuote.nul_list ps = arrived ++ rest ->
  ShellQuote.remote_delete (Z.of_nat (length (ShellQuote.nul_list ps))) arrived = match rest with [] => ps | _ => [] end.
Proof. intros ps arrived rest. exact (ShellQuoteProofs.remote_delete_prefix_lemma ps arrived rest). Qed.
Print Assumptions crash_push_delete_all_or_nothing.

Theorem crash_push_delete_unchecked_refuted :
  exists (ps : list (list Z)) (arrived rest : list Z) (q : list Z),
  Forall (fun p => ~ In 0 p) ps /\ ShellQuote.nul_list ps = arrived ++ rest /\
  In q (ShellQuote.remote_delete_unchecked arrived) /\ ~ In q ps.
Proof. exists [[97; 98]], [97], [98; 0], [97]. exact ShellQuoteProofs.remote_delete_unchecked_counterexample. Qed.
Print Assumptions crash_push_delete_unchecked_refuted.

(** Non-vacuity.  Two deliveries (a two-chunk file over an existing entry, a
    one-chunk new file): a crash after an interleaved prefix leaves both paths as
    they were, with staging contents [1;2] and [9]; a killed push then publishes
    only the complete one; the complete schedule delivers both with the source
    mtimes.  And a crashed tree of C04's example (a delivered but mtime not yet
    set, b still old) from which the re-run gives the uninterrupted result. *)
Example C09_nonvacuous :
  let ds := [ {| d_path := 1%nat; d_chunks := [[1;2]; [3]]; d_mtime := 50 |};
              {| d_path := 2%nat; d_chunks := [[9]]; d_mtime := 60 |} ] in
  let dst := fun p : nat => if Nat.eqb p 1 then Some ([0], 10) else None in
  let crashed := run nat Nat.eqb ds (init nat dst ds 99) [0; 1; 0; 1]%nat in
  let pushed := remote_finish nat Nat.eqb ds crashed in
  let done := run nat Nat.eqb ds (init nat dst ds 99) [0; 1; 0; 1; 7; 0; 1; 0; 1; 0; 0]%nat in
  (s_dst nat crashed 1%nat, s_dst nat crashed 2%nat, s_pcs nat crashed) =
    (Some ([0], 10), None, [Staging [[3]] [1;2]; Staging [] [9]]) /\
  (s_dst nat pushed 1%nat, s_dst nat pushed 2%nat, s_pcs nat pushed) =
    (Some ([0], 10), Some ([9], 99), [Staging [[3]] [1;2]; Renamed]) /\
  (s_dst nat done 1%nat, s_dst nat done 2%nat, s_pcs nat done) =
    (Some ([1;2;3], 50), Some ([9], 60), [Finished; Finished]) /\
  (let src := mk_tree [([97], ([104;105], 5)); ([98], ([120], 7)); ([99], ([115;97], 3)); ([101;46;116;109;112], ([116], 1))] in
   let dst := mk_tree [([98], ([120;120], 7)); ([99], ([83;65], 3)); ([100], ([111], 9)); ([122;46;116;109;112], ([107], 2))] in
   let c := mk_tree [([97], ([104;105], 99)); ([98], ([120;120], 7)); ([99], ([83;65], 3)); ([100], ([111], 9)); ([122;46;116;109;112], ([107], 2))] in
   let o := {| o_delete := true; o_excludes := [[42;46;116;109;112]]; o_dry_run := false |} in
   plan_of src c o = {| transfer := [[97]; [98]]; skipped := 1; sp_delete := [[100]] |} /\
   r_dst (run_oneway src c o (transfer (plan_of src c o)) (fun _ => false)) =
   r_dst (run_oneway src dst o (transfer (plan_of src dst o)) (fun _ => false))).
Proof. vm_compute. repeat split. Qed.

(** The step sequence of one delivery in the crash model (open the staging file, one write per chunk, rename, set the
    mtime: the program-counter transitions of OneWaySteps.step) is the list of file-system calls of incremental.rs
    deliver_local / deliver_pull as the source has them now: the data goes into the destination's staging name, the
    rename publishes that very file onto the destination, the mtime is set on the destination afterwards
    (Gen/OneWaySysGen.v, Proofs/TieOneWaySys.v). *)
Require Copia.Proofs.TieOneWaySys.
Theorem C09_delivery_steps_are_translation_of_source : TieOneWaySys.oneway_delivery_is_translation.
Proof. exact TieOneWaySys.oneway_delivery_is_translation_holds. Qed.
Print Assumptions C09_delivery_steps_are_translation_of_source.

(** The push / pull recursive run as a PROGRAM is the translation of incremental.rs `run_remote` as the source has it now:
    which scan is the source (push: the local one, pull: the remote one), the plan from build_plan, the dry-run exit
    before anything is touched, the directories on the receiving side, one spawned transfer per path of plan.transfer
    with the source's scanned mtime (transfer_file_to_remote / deliver_pull), the join, and only then
    apply_remote_deletes on plan.delete (Gen/RemoteRunGen.v, Proofs/TieRemoteRun.v). *)
Require Copia.Proofs.TieRemoteRun.
Theorem C09_remote_run_is_translation_of_source : TieRemoteRun.remote_run_is_translation.
Proof. exact TieRemoteRun.remote_run_is_translation_holds. Qed.
Print Assumptions C09_remote_run_is_translation_of_source.

(** What a push with `--delete` sends is the translation of incremental.rs `apply_remote_deletes` (push arm) as the source
    has it now: the NUL-terminated list of `<remote_root>/<rel>` for every path of the delete plan, in plan order, and a
    command that compares the staged byte count with exactly that list's length before `xargs -0 rm` sees it
    (Gen/PushDeleteGen.v, Proofs/TiePushDelete.v) - the `size` of crash_push_delete_all_or_nothing above. *)
Require Copia.Proofs.TiePushDelete.
Theorem C09_push_delete_request_is_translation_of_source : TiePushDelete.push_delete_is_translation.
Proof. exact TiePushDelete.push_delete_is_translation_holds. Qed.
Print Assumptions C09_push_delete_request_is_translation_of_source.

(** The command a push runs on the remote side is the translation of transfer.rs `transfer_file_to_remote` as the source
    has it now: `cat > T && [ "$(wc -c < T)" -eq SIZE ] && mv -f T D [&& touch -d @MTIME D]` where every path is the
    word `$'..'` of Model/ShellQuote.v ([quoted_word]: the two `replace` calls are [escape]) and T is D with the staging
    suffix (Gen/PushCommandGen.v, Proofs/TiePushCommand.v); likewise the pull streamer's `cat $'..'`, the remote scan's
    `cd $'..' && find . -type f -printf ..` and the NUL-terminated directory list a push hands to `xargs -0 mkdir -p`. *)
Require Copia.Proofs.TiePushCommand.
Theorem C09_push_command_is_translation_of_source : TiePushCommand.push_command_is_translation.
Proof. exact TiePushCommand.push_command_is_translation_holds. Qed.
Print Assumptions C09_push_command_is_translation_of_source.

(** Two reviewed call sequences are the translation of the source as it is now: serve.rs `with_commit_lock` (open the lock
    file without truncating or ever removing it, exclusive flock, the body, unlock) and dir_sync.rs
    `transfer_file_from_remote` (spawn, create-and-truncate the staging file, copy, flush before returning, wait)
    (Gen/CommitLockGen.v, Proofs/TieCommitLock.v). *)
Require Copia.Proofs.TieCommitLock.
Theorem C09_call_sequences_are_translation_of_source : TieCommitLock.call_sequences_are_translation.
Proof. exact TieCommitLock.call_sequences_are_translation_holds. Qed.
Print Assumptions C09_call_sequences_are_translation_of_source.
