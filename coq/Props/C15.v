(** C15 - excludes protect, deletes are opt-in, dry runs touch nothing.
    Property theorems only.

    The matcher and planner level (what `matching an --exclude pattern` means:
    [is_excluded_spec], [glob_match_correct]; [excluded_never_planned],
    [no_delete_without_flag]) is Props/C19.v.  This file is the run level:
    Model/OneWay.v for `sync -r`, Model/Bisync.v for `bisync --dry-run`.

    A PathBuf can be spelled in several ways (`a/b`, `a//b`, `a/./b` compare
    Equal), and a pattern containing `/` is matched against the spelling.  The
    code applies [is_excluded] to the key as spelled in the map it iterates over,
    so `excluded` below means: every spelling of the path that is a key of one of
    the two trees is excluded ([excluded_everywhere]).  Directory walks and
    listings produce one canonical spelling, for which this is plain
    [is_excluded p = true] ([oneway_excluded_key_untouched]); the example
    [excluded_needs_every_spelling] shows that the premise cannot be dropped in
    the model. *)
From Coq Require Import ZArith List Bool Sorted Permutation.
From Copia Require Import Model.Path Model.Glob Model.Plan Model.OneWay Model.OneWayExec
  Proofs.PathProofs Proofs.PlanProofs Proofs.OneWayProofs.
From stdpp Require base countable.
From Copia Require Model.Bisync Proofs.BisyncDryProofs.
Import ListNotations.
Open Scope Z_scope.

(** An excluded path is never transferred and never deleted: its destination
    entry (present or absent) is the same after the run, for every completion
    order and every failure oracle, with or without --delete / --dry-run. *)
Theorem oneway_excluded_untouched : forall (src dst : tree) (o : opts) (order : list (list Z)) (fail : list Z -> bool) (p : list Z),
  Permutation order (transfer (plan_of src dst o)) ->
  (forall q, path_cmp p q = Eq -> In q (keys src) \/ In q (keys dst) -> is_excluded q (o_excludes o) = true) ->
  t_get p (r_dst (run_oneway src dst o order fail)) = t_get p dst.
Proof. intros src dst o order fail p. exact (oneway_excluded_untouched_lemma src dst o order fail p). Qed.
Print Assumptions oneway_excluded_untouched.

(** For trees that spell their common paths the same way: a file of either tree
    whose path [is_excluded] keeps its destination entry. *)
Theorem oneway_excluded_key_untouched : forall (src dst : tree) (o : opts) (order : list (list Z)) (fail : list Z -> bool) (p : list Z),
  tsorted src -> tsorted dst ->
  (forall k k', In k (keys src) -> In k' (keys dst) -> path_cmp k k' = Eq -> k = k') ->
  Permutation order (transfer (plan_of src dst o)) ->
  In p (keys src) \/ In p (keys dst) -> is_excluded p (o_excludes o) = true ->
  t_get p (r_dst (run_oneway src dst o order fail)) = t_get p dst.
Proof. intros src dst o order fail p Hs Hd Hsp HP Hk He.
  exact (oneway_excluded_untouched_lemma src dst o order fail p HP
           (excluded_key_everywhere src dst (o_excludes o) p Hs Hd Hsp Hk He)). Qed.
Print Assumptions oneway_excluded_key_untouched.

(** Without --delete a recursive sync removes nothing: every path present in the
    destination is present afterwards (every order, every failure oracle). *)
Theorem oneway_no_flag_no_removal : forall (src dst : tree) (o : opts) (order : list (list Z)) (fail : list Z -> bool) (p : list Z),
  Permutation order (transfer (plan_of src dst o)) -> o_delete o = false ->
  t_get p dst <> None -> t_get p (r_dst (run_oneway src dst o order fail)) <> None.
Proof. intros src dst o order fail p. exact (oneway_no_flag_no_removal_lemma src dst o order fail p). Qed.
Print Assumptions oneway_no_flag_no_removal.

(** --dry-run returns the destination tree itself (files and mtimes; the source
    is an input only, and `sync` keeps no recorded state) ... *)
Theorem oneway_dry_run_identity : forall (src dst : tree) (o : opts) (order : list (list Z)) (fail : list Z -> bool),
  o_dry_run o = true -> r_dst (run_oneway src dst o order fail) = dst.
Proof. intros src dst o order fail. exact (dry_run_dst src dst o order fail). Qed.
Print Assumptions oneway_dry_run_identity.

(** ... and the plan it prints is the plan the real run from the same trees
    executes (whose effect is [oneway_exact], Props/C04.v). *)
Theorem dry_run_prints_real_plan : forall (src dst : tree) (o : opts) (order : list (list Z)) (fail : list Z -> bool)
    (order' : list (list Z)) (fail' : list Z -> bool),
  r_plan (run_oneway src dst {| o_delete := o_delete o; o_excludes := o_excludes o; o_dry_run := true |} order fail) =
  r_plan (run_oneway src dst {| o_delete := o_delete o; o_excludes := o_excludes o; o_dry_run := false |} order' fail').
Proof. intros src dst o order fail order' fail'. exact (dry_run_prints_real_plan_lemma src dst o order fail order' fail'). Qed.
Print Assumptions dry_run_prints_real_plan.

(** `bisync --dry-run`: both trees and the archive (the recorded state) are
    returned unchanged ... *)
Theorem bisync_dry_identity :
  forall (K : Type) (EqK : base.EqDecision K) (CK : countable.Countable K) (D : Type) (EqD : base.EqDecision D)
         (Hh : list Z -> D) (kle : K -> K -> bool) (s : Bisync.state),
  fst (Bisync.bisync_dry Hh kle s) = s.
Proof. intros K EqK CK D EqD Hh kle s. exact (BisyncDryProofs.bisync_dry_identity_lemma Hh kle s). Qed.
Print Assumptions bisync_dry_identity.

(** ... and the printed `<Action> <path>` list is the plan component of the real
    run from the same state (the list of actions [bisync_run] applies in order). *)
Theorem bisync_dry_prints_real_plan :
  forall (K : Type) (EqK : base.EqDecision K) (CK : countable.Countable K) (D : Type) (EqD : base.EqDecision D)
         (Hh : list Z -> D) (dge : D -> D -> bool) (cname : K -> D -> K) (kle : K -> K -> bool) (s : Bisync.state),
  snd (Bisync.bisync_dry Hh kle s) = snd (Bisync.bisync_run Hh dge cname kle s).
Proof. intros K EqK CK D EqD Hh dge cname kle s. exact (BisyncDryProofs.bisync_dry_prints_real_plan_lemma Hh dge cname kle s). Qed.
Print Assumptions bisync_dry_prints_real_plan.

(** Why [oneway_excluded_untouched] speaks about every spelling: the destination
    file spelled `a//b` is excluded by the pattern `a//b`, the source spells the
    same PathBuf `a/b`, which the pattern does not match - it is transferred
    and replaces the entry. *)
Example excluded_needs_every_spelling :
  let src := mk_tree [([97;47;98], ([1], 5))] in
  let dst := mk_tree [([97;47;47;98], ([2;2], 6))] in
  let o := {| o_delete := false; o_excludes := [[97;47;47;98]]; o_dry_run := false |} in
  is_excluded [97;47;47;98] (o_excludes o) = true /\ is_excluded [97;47;98] (o_excludes o) = false /\
  path_cmp [97;47;47;98] [97;47;98] = Eq /\
  t_get [97;47;47;98] dst = Some {| f_bytes := [2;2]; f_mtime := 6 |} /\
  t_get [97;47;47;98] (r_dst (run_oneway src dst o (transfer (plan_of src dst o)) (fun _ => false)))
    = Some {| f_bytes := [1]; f_mtime := 5 |}.
Proof. vm_compute. repeat split. Qed.

(** Non-vacuity: an excluded source file and an excluded destination-only file
    under --delete; the same trees without --delete; the dry run. *)
Example C15_nonvacuous :
  let src := mk_tree [([97], ([104;105], 5)); ([98], ([120], 7)); ([99], ([115;97], 3)); ([101;46;116;109;112], ([116], 1))] in
  let dst := mk_tree [([98], ([120;120], 7)); ([99], ([83;65], 3)); ([100], ([111], 9)); ([101;46;116;109;112], ([84;84], 4)); ([122;46;116;109;112], ([107], 2))] in
  let ex := [[42;46;116;109;112]] in
  let run del dry := run_oneway src dst {| o_delete := del; o_excludes := ex; o_dry_run := dry |} [[98]; [97]] (fun _ => false) in
  is_excluded [101;46;116;109;112] ex = true /\ is_excluded [122;46;116;109;112] ex = true /\
  t_get [101;46;116;109;112] (r_dst (run true false)) = Some {| f_bytes := [84;84]; f_mtime := 4 |} /\
  t_get [122;46;116;109;112] (r_dst (run true false)) = Some {| f_bytes := [107]; f_mtime := 2 |} /\
  t_get [100] (r_dst (run true false)) = None /\
  t_get [100] (r_dst (run false false)) = Some {| f_bytes := [111]; f_mtime := 9 |} /\
  r_dst (run true true) = dst /\ r_kind (run true true) = DryRun /\
  r_plan (run true true) = {| transfer := [[97]; [98]]; skipped := 1; sp_delete := [[100]] |} /\
  r_plan (run true true) = r_plan (run true false).
Proof. vm_compute. repeat split. Qed.

(** The model the theorems above are about is the translation of src/bin/copia/plan.rs (needs_transfer, glob_match) as it is now: the function
    generated from the source by tools/gen_logic.py (Gen/PlanGen.v) equals, on every input, Model/Plan.v needs_transfer and Model/Glob.v glob_match (the source's index-based loops are proved equal to the suffix-based loop)
    (statement: Proofs/TiePlan.v, [plan_model_is_translation]). *)
Require Copia.Proofs.TiePlan.
Theorem C15_model_is_translation_of_source : TiePlan.plan_model_is_translation.
Proof. exact TiePlan.plan_model_is_translation_holds. Qed.
Print Assumptions C15_model_is_translation_of_source.

(** [bisync_run] / [bisync_dry] - the run of the theorems above - are the translation of bidir.rs `run_bisync` as the
    source has it now: `trust_base` = a record was loaded, the plan from `reconcile` on (a, b, base, trust_base), the
    dry-run exit before anything is touched (printing exactly the plan), the base pruned to paths present on a side,
    `apply(..)?` per plan entry in order, the record saved only after the last apply, the exit status from the conflict
    count (Gen/BisyncRunGen.v, Proofs/TieBisyncRun.v). *)
Require Copia.Proofs.TieBisyncRun.
Theorem C15_run_is_translation_of_source : TieBisyncRun.bisync_run_is_translation.
Proof. exact TieBisyncRun.bisync_run_is_translation_holds. Qed.
Print Assumptions C15_run_is_translation_of_source.

(** The local recursive run as a PROGRAM is the translation of incremental.rs `run_local` as the source has it now (the
    "no files" exit, the plan from build_plan on the two scans, the dry-run exit before anything is touched, the "up to
    date" exit, one spawned deliver_local per path of plan.transfer with the source's scanned mtime, the join, and only
    then the removal of plan.delete, the report), and [run_oneway] of the theorems above is its meaning: the same exit
    kind and plan, deliveries = plan.transfer, deletes = plan.delete after the join (Gen/OneWayRunGen.v,
    Proofs/TieOneWayRun.v). *)
Require Copia.Proofs.TieOneWayRun.
Theorem C15_local_run_is_translation_of_source : TieOneWayRun.oneway_run_is_translation.
Proof. exact TieOneWayRun.oneway_run_is_translation_holds. Qed.
Print Assumptions C15_local_run_is_translation_of_source.

(** What a dry run prints (one `send` line per path of plan.transfer, then one `delete` line per path of plan.delete;
    a real run prints neither) and the exit status of a run (ok exactly when no transfer failed) are the translation of
    incremental.rs `print_plan` / `report` as the source has them now (Gen/OneWayPrintGen.v, Proofs/TieOneWayPrint.v). *)
Require Copia.Proofs.TieOneWayPrint.
Theorem C15_print_and_exit_are_translation_of_source : TieOneWayPrint.oneway_print_is_translation.
Proof. exact TieOneWayPrint.oneway_print_is_translation_holds. Qed.
Print Assumptions C15_print_and_exit_are_translation_of_source.

(** Every pattern of the list counts: the plan depends on the --exclude list only as a SET of patterns - order, repetitions
    and any re-arrangement that keeps the same patterns leave transfer, skipped and delete unchanged (so nothing may drop a
    pattern because another one seems to cover it, unless it is the same pattern). *)
Theorem C15_plan_depends_on_the_set_of_patterns : forall (src dst : metamap) (ex1 ex2 : list (list Z)) (del : bool),
  (forall p, In p ex1 <-> In p ex2) -> build_plan src dst ex1 del = build_plan src dst ex2 del.
Proof. exact PlanProofs.build_plan_same_set. Qed.
Print Assumptions C15_plan_depends_on_the_set_of_patterns.
