(** C16 - the delta is at least as small as textbook greedy rsync. *)
From Coq Require Import ZArith List.
From Copia Require Import Model.Checksum Proofs.ChecksumProofs Model.Delta Proofs.DeltaProofs.
Import ListNotations.
Open Scope Z_scope.

Definition cf_blocks_windows {digest} (H : list Z -> digest) (bs : nat) (basis src : list Z) : Prop :=
  forall c win, In c (blocks bs basis) -> window src win -> length win = bs -> H c = H win -> c = win.

(** The literal byte count of the computed delta EQUALS (hence is no more than)
    that of the textbook greedy scan, for every byte-valued basis/source and
    every positive block size up to 2^28 (the library maximum is 65536). *)
Theorem C16_literals_eq_greedy :
  forall (digest : Type) (H : list Z -> digest) (deq : forall a b : digest, {a = b} + {a <> b})
         (beq : list Z -> list Z -> bool) (bs : nat) (basis src : list Z),
  (0 < bs)%nat -> Z.of_nat bs <= 2^28 ->
  (forall a b, beq a b = true <-> a = b) ->
  Z.of_nat (length (blocks bs basis)) <= 2^32 ->
  cf_blocks_windows H bs basis src -> bytes src ->
  lits (d_ops _ (compute_delta digest H deq bs (gen_signature digest H bs basis) src)) =
  match src with [] => 0 | _ =>
    match blocks bs basis with [] => Z.of_nat (length src)
    | _ => greedy_lit bs beq (S (length src)) (full_blocks bs basis) src end end.
Proof. intros digest H deq beq bs basis src Hp Hm Hbeq Hn Hcf Hby.
  assert (Hu : Z.of_nat bs < 2^32) by (change (2^28) with 268435456 in Hm; change (2^32) with 4294967296; Lia.lia).
  exact (delta_literals_eq_greedy digest H deq bs Hp Hu basis src Hn Hcf beq Hbeq Hm Hby). Qed.
Print Assumptions C16_literals_eq_greedy.

(** A source identical to the basis yields fewer literal bytes than one block. *)
Theorem C16_identical_lt_block :
  forall (digest : Type) (H : list Z -> digest) (deq : forall a b : digest, {a = b} + {a <> b})
         (beq : list Z -> list Z -> bool) (bs : nat) (basis : list Z),
  (0 < bs)%nat -> Z.of_nat bs <= 2^28 ->
  (forall a b, beq a b = true <-> a = b) -> bytes basis ->
  Z.of_nat (length (blocks bs basis)) <= 2^32 ->
  cf_blocks_windows H bs basis basis ->
  lits (d_ops _ (compute_delta digest H deq bs (gen_signature digest H bs basis) basis)) < Z.of_nat bs.
Proof. intros digest H deq beq bs basis Hp Hm Hbeq Hby Hn Hcf.
  assert (Hu : Z.of_nat bs < 2^32) by (change (2^28) with 268435456 in Hm; change (2^32) with 4294967296; Lia.lia).
  exact (identical_lt_block digest H deq bs Hp Hu basis beq Hbeq Hm Hby Hn Hcf). Qed.
Print Assumptions C16_identical_lt_block.

(** Resynchronisation of the textbook scan: after an arbitrary damaged region
    [pre], a run of full basis blocks is consumed without literals, so the
    literal count is at most |pre| + |tail| (this is what bounds the cost of a
    k-byte edit by k + 2 blocks + the trailing partial block). *)
Theorem C16_greedy_resync :
  forall (beq : list Z -> list Z -> bool) (bs : nat),
  (0 < bs)%nat -> (forall a b, beq a b = true <-> a = b) ->
  forall (full : list (list Z)) (fuel : nat) (pre : list Z) (bl : list (list Z)) (tail : list Z),
  (forall b, In b bl -> In b full /\ length b = bs) -> (length tail < bs)%nat ->
  (length (pre ++ concat bl ++ tail) < fuel)%nat ->
  greedy_lit bs beq fuel full (pre ++ concat bl ++ tail) <= Z.of_nat (length pre) + Z.of_nat (length tail).
Proof. intros beq bs Hp Hbeq. exact (greedy_resync bs Hp beq Hbeq). Qed.
Print Assumptions C16_greedy_resync.

(** The cost of a k-byte edit: the source is the basis with a region replaced by
    Y (|Y| = k inserted/replacing bytes; k = 0 for a deletion), written around
    the basis's block structure; the textbook scan then carries at most
    k + 2(bs-1) + (trailing partial block) literal bytes, i.e. at most k plus two
    blocks for a file made of whole blocks.  By C16_literals_eq_greedy the same
    bound holds for the computed delta. *)
Theorem C16_edit_cost :
  forall (beq : list Z -> list Z -> bool) (bs : nat),
  (0 < bs)%nat -> (forall a b, beq a b = true <-> a = b) ->
  forall (full : list (list Z)) (fuel : nat) (blA blB : list (list Z)) (Apost Bpre tail Y : list Z),
  (forall b, In b blA -> In b full /\ length b = bs) ->
  (forall b, In b blB -> In b full /\ length b = bs) ->
  (length Apost < bs)%nat -> (length Bpre < bs)%nat -> (length tail < bs)%nat ->
  (length (concat blA ++ (Apost ++ Y ++ Bpre) ++ concat blB ++ tail) < fuel)%nat ->
  greedy_lit bs beq fuel full (concat blA ++ (Apost ++ Y ++ Bpre) ++ concat blB ++ tail)
  <= Z.of_nat (length Y) + 2 * (Z.of_nat bs - 1) + Z.of_nat (length tail).
Proof. intros beq bs Hp Hbeq. exact (edit_cost bs Hp beq Hbeq). Qed.
Print Assumptions C16_edit_cost.

(** The same bound in the form the property states it: the source is the basis with the bytes [o, o+x) replaced by Y
    (an insertion when x = 0, a deletion when Y = [], a replacement otherwise) ANYWHERE in the whole-block part of the
    basis ([bl]: the full blocks in order, [tail]: the trailing partial block).  The textbook scan - and so, by
    C16_literals_eq_greedy, the computed delta - carries at most |Y| + 2(bs-1) + |tail| literal bytes: at most
    k plus two blocks for a k-byte edit of a file made of whole blocks ([C16_edit_whole_blocks]). *)
From Copia Require Proofs.EditCostProofs.
Theorem C16_edit_at_offset :
  forall (bs : nat), (0 < bs)%nat ->
  forall (beq : list Z -> list Z -> bool), (forall a b, beq a b = true <-> a = b) ->
  forall (full bl : list (list Z)) (tail Y : list Z) (o x fuel : nat),
  (forall b, In b bl -> In b full /\ length b = bs) ->
  (length tail < bs)%nat -> (o + x <= length bl * bs)%nat ->
  let basis := concat bl ++ tail in
  let src := firstn o basis ++ Y ++ skipn (o + x) basis in
  (length src < fuel)%nat ->
  greedy_lit bs beq fuel full src <= Z.of_nat (length Y) + 2 * (Z.of_nat bs - 1) + Z.of_nat (length tail).
Proof. intros bs Hp beq Hbeq. exact (EditCostProofs.edit_at_offset bs Hp beq Hbeq). Qed.
Print Assumptions C16_edit_at_offset.

Theorem C16_edit_whole_blocks :
  forall (bs : nat), (0 < bs)%nat ->
  forall (beq : list Z -> list Z -> bool), (forall a b, beq a b = true <-> a = b) ->
  forall (full bl : list (list Z)) (Y : list Z) (o x fuel : nat),
  (forall b, In b bl -> In b full /\ length b = bs) -> (o + x <= length bl * bs)%nat ->
  let basis := concat bl in
  let src := firstn o basis ++ Y ++ skipn (o + x) basis in
  (length src < fuel)%nat ->
  greedy_lit bs beq fuel full src < Z.of_nat (length Y) + 2 * Z.of_nat bs.
Proof.
  intros bs Hp beq Hbeq full bl Y o x fuel Hbl Hox basis src Hf.
  assert (Ht : (length (@nil Z) < bs)%nat) by exact Hp.
  pose proof (EditCostProofs.edit_at_offset bs Hp beq Hbeq full bl [] Y o x fuel Hbl Ht Hox) as R.
  cbv zeta in R. rewrite !app_nil_r in R. specialize (R Hf). cbn [length] in R. fold basis in R.
  fold src in R. change (Z.of_nat 0) with 0 in R. Lia.lia.
Qed.
Print Assumptions C16_edit_whole_blocks.

(** [compute_delta] - the delta of the theorems above - is the translation of src/sync.rs `CopiaSync::delta` and of
    src/async_sync.rs `AsyncCopiaSync::delta` (the engine of `copia delta`) as the source has them now: the index-based
    `while pos + block_size <= len` loop, the rolling checksum re-initialised after a match and rolled after a literal
    byte, the weak-then-strong lookup, the literal tail (Gen/ScanGen.v, Proofs/TieScan.v); the lookup table itself
    (first block in signature order with that weak and strong hash) stays a modelled part tied by correspondence. *)
Require Copia.Proofs.TieScan.
Theorem C16_scan_is_translation_of_source : TieScan.scan_model_is_translation.
Proof. exact TieScan.scan_model_is_translation_holds. Qed.
Print Assumptions C16_scan_is_translation_of_source.

(** The signature and the lookup table the theorems above treat as a plain block LIST are the translation of
    src/signature.rs as the source has it now: `BlockSignature::compute`, `Signature::generate` (the blocks of
    `chunks` / `par_chunks` numbered from 0), `SignatureTable::from_signature` (weak hash -> indices in block order),
    `find_match` (first candidate of that weak hash whose strong hash equals the data's), `has_weak_match`, `is_empty` -
    the hash table is an index of the list, nothing more (Gen/SigTableGen.v, Proofs/TieSigTable.v); the translated scan
    and `sync_files` call these generated functions. *)
Require Copia.Proofs.TieSigTable.
Theorem C16_signature_table_is_translation_of_source : TieSigTable.sig_table_is_translation.
Proof. exact TieSigTable.sig_table_is_translation_holds. Qed.
Print Assumptions C16_signature_table_is_translation_of_source.
