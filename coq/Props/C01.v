(** C01 - delta round-trip reconstructs the source byte-for-byte.
    Property theorems only (closed by [exact]).  BLAKE3 is the universally
    quantified [H]; the only thing assumed about it is that it does not collide
    between a block of the basis and a block-sized window of the source. *)
From Coq Require Import ZArith List.
From Copia Require Import Model.Checksum Model.Delta Proofs.DeltaProofs.
Import ListNotations.
Open Scope Z_scope.

Definition cf_blocks_windows {digest} (H : list Z -> digest) (bs : nat) (basis src : list Z) : Prop :=
  forall c win, In c (blocks bs basis) -> window src win -> length win = bs -> H c = H win -> c = win.

(** For every basis, source, positive block size below 2^32, hash function and
    profile: patch (basis, delta (signature basis) source) = Ok source, with
    verification on. *)
Theorem C01_roundtrip :
  forall (digest : Type) (H : list Z -> digest) (deq : forall a b : digest, {a = b} + {a <> b})
         (bs : nat) (basis src : list Z) (checked : bool),
  (0 < bs)%nat -> Z.of_nat bs < 2^32 ->
  Z.of_nat (length (blocks bs basis)) <= 2^32 ->
  cf_blocks_windows H bs basis src ->
  Z.of_nat (length basis) < 2^64 -> Z.of_nat (length src) < 2^64 ->
  patch digest H deq checked true basis
        (compute_delta digest H deq bs (gen_signature digest H bs basis) src) = POk src.
Proof. intros digest H deq bs basis src checked Hp Hu Hn Hcf Hb Hs.
  exact (roundtrip digest H deq bs Hp Hu basis src Hn Hcf checked Hb Hs). Qed.
Print Assumptions C01_roundtrip.

(** Declared sizes and checksum are the source's; op lengths sum to the source
    size; every copy lies inside the basis (validate passes against |basis|). *)
Theorem C01_delta_wellformed :
  forall (digest : Type) (H : list Z -> digest) (deq : forall a b : digest, {a = b} + {a <> b})
         (bs : nat) (basis src : list Z),
  (0 < bs)%nat -> Z.of_nat bs < 2^32 ->
  Z.of_nat (length (blocks bs basis)) <= 2^32 ->
  cf_blocks_windows H bs basis src ->
  Z.of_nat (length basis) < 2^64 ->
  let d := compute_delta digest H deq bs (gen_signature digest H bs basis) src in
  d_source_size _ d = Z.of_nat (length src) /\ d_checksum _ d = H src /\
  d_basis_size _ d = Z.of_nat (length basis) /\ d_block_size _ d = Z.of_nat bs /\
  out_len (d_ops _ d) = Z.of_nat (length src) /\
  validate (Z.of_nat (length basis)) (d_ops _ d) = true.
Proof. intros digest H deq bs basis src Hp Hu Hn Hcf Hb.
  exact (delta_wellformed digest H deq bs Hp Hu basis src Hn Hcf Hb). Qed.
Print Assumptions C01_delta_wellformed.

(** The execution-friendly scan that is extracted and run against the
    implementation computes exactly the delta the theorems above are about. *)
Theorem C01_executed_model_is_the_model :
  forall (digest : Type) (H : list Z -> digest) (deq : forall a b : digest, {a = b} + {a <> b})
         (bs : nat) (sg : signature digest) (src : list Z),
  compute_delta_fast digest H deq bs sg src = compute_delta digest H deq bs sg src.
Proof. intros digest H deq bs sg src. exact (compute_delta_fast_eq digest H deq bs sg src). Qed.
Print Assumptions C01_executed_model_is_the_model.

(** Non-vacuity: with H := identity the hypotheses hold and the model computes a
    delta with a copy for a concrete pair. *)
Example C01_nonvacuous :
  let H := fun x : list Z => x in
  let deq := list_eq_dec Z.eq_dec in
  let basis := [1;2;3;4;5;6;7] in let src := [9;3;4;1;2;5] in
  cf_blocks_windows H 2 basis src /\
  d_ops _ (compute_delta _ H deq 2 (gen_signature _ H 2 basis) src) = [Lit [9]; Copy 2 2; Copy 0 2; Lit [5]] /\
  patch _ H deq true true basis (compute_delta _ H deq 2 (gen_signature _ H 2 basis) src) = POk src.
Proof. split; [|split; vm_compute; reflexivity].
  intros c win _ _ _ E. exact E. Qed.

(** [Delta.patch] - the patch function of the theorems above - is the translation of src/sync.rs `CopiaSync::patch` (both
    profiles; premise: the delta's source size is a u64) and of src/async_sync.rs `AsyncCopiaSync::patch` (the engine of
    `copia patch`: the unchecked model in every profile) as the source has them now: validate first, serve every Copy by
    seek + read_exact on the basis and every Literal from its payload, hash exactly the bytes written, compare with the
    delta's checksum when verification is on (Gen/PatchGen.v, Proofs/TiePatch.v). *)
Require Copia.Proofs.TiePatch.
Theorem C01_patch_is_translation_of_source : TiePatch.patch_model_is_translation.
Proof. exact TiePatch.patch_model_is_translation_holds. Qed.
Print Assumptions C01_patch_is_translation_of_source.

(** [compute_delta] - the delta of the theorems above - is the translation of src/sync.rs `CopiaSync::delta` and of
    src/async_sync.rs `AsyncCopiaSync::delta` (the engine of `copia delta`) as the source has them now: the index-based
    `while pos + block_size <= len` loop, the rolling checksum re-initialised after a match and rolled after a literal
    byte, the weak-then-strong lookup, the literal tail (Gen/ScanGen.v, Proofs/TieScan.v); the lookup table itself
    (first block in signature order with that weak and strong hash) stays a modelled part tied by correspondence. *)
Require Copia.Proofs.TieScan.
Theorem C01_scan_is_translation_of_source : TieScan.scan_model_is_translation.
Proof. exact TieScan.scan_model_is_translation_holds. Qed.
Print Assumptions C01_scan_is_translation_of_source.

(** The single-file local `copia sync SRC DST` is the translation of async_sync.rs `sync_files` as the source has it now
    (no destination: the source is written; identical: untouched; else signature, the translated scan, the translated
    patch, the output written beside the destination and renamed over it), and under the premises of the round-trip
    theorem the destination holds exactly the source afterwards and the call succeeds (Gen/SyncFilesGen.v,
    Proofs/TieSyncFiles.v). *)
Require Copia.Proofs.TieSyncFiles.
Theorem C01_sync_files_is_translation_of_source_and_delivers : TieSyncFiles.sync_files_is_translation.
Proof. exact TieSyncFiles.sync_files_is_translation_holds. Qed.
Print Assumptions C01_sync_files_is_translation_of_source_and_delivers.

(** The signature and the lookup table the theorems above treat as a plain block LIST are the translation of
    src/signature.rs as the source has it now: `BlockSignature::compute`, `Signature::generate` (the blocks of
    `chunks` / `par_chunks` numbered from 0), `SignatureTable::from_signature` (weak hash -> indices in block order),
    `find_match` (first candidate of that weak hash whose strong hash equals the data's), `has_weak_match`, `is_empty` -
    the hash table is an index of the list, nothing more (Gen/SigTableGen.v, Proofs/TieSigTable.v); the translated scan
    and `sync_files` call these generated functions. *)
Require Copia.Proofs.TieSigTable.
Theorem C01_signature_table_is_translation_of_source : TieSigTable.sig_table_is_translation.
Proof. exact TieSigTable.sig_table_is_translation_holds. Qed.
Print Assumptions C01_signature_table_is_translation_of_source.

(** The three methods BOTH engines build a delta with - delta.rs `Delta::push_copy`, `push_literal`, `push_literal_byte` -
    are, as the source has them now, the `push_copy` / `push_lit` / `push_lit_byte` of Model/Delta.v the scan of the
    theorems above calls (each body is checked literally against the reviewed text and read as a function on the
    operation list, newest first: Gen/DeltaVGen.v, Proofs/TieDeltaV.v): a copy contiguous with the last copy extends it
    unless the u32 length would overflow, otherwise a new operation with exactly the given offset and length is pushed. *)
Require Copia.Proofs.TieDeltaV.
Theorem C01_delta_builders_are_translation_of_source : TieDeltaV.delta_validate_model_is_translation.
Proof. exact TieDeltaV.delta_validate_model_is_translation_holds. Qed.
Print Assumptions C01_delta_builders_are_translation_of_source.
