(** C08 - bisync is crash-safe: the record never runs ahead of the data.
    Property theorems only.  Quantifiers: every key type, digest type, hash,
    digest order, conflict-name function, path order, every state, both values of
    [ae] (whether a file sits at the archive path) and EVERY crash point k.
    [crash s ae k] is the file system after the first k steps of the run. *)
From stdpp Require Import gmap.
From Copia Require Import Model.Bisync Model.BisyncSteps Proofs.BisyncStepsProofs.

Section C08.
Context `{Countable K} {D : Type} `{EqDecision D}.
Variable Hh : list Z -> D.
Variable dge : D -> D -> bool.
Variable cname : K -> D -> K.
Variable kle : K -> K -> bool.
Notation state := (@state K _ _ D).
Notation run := (bisync_run Hh dge cname kle).
Notation steps := (bisync_steps Hh dge cname kle).
Notation crash := (crash Hh dge cname kle).
(** the data steps (copies and unlinks of the apply loop) and the archive steps of a run *)
Notation data := (data_steps Hh dge cname kle).
Notation archp := (arch_part Hh dge cname kle).

(** 1. Executing ALL steps gives the result of the run model: both trees, the
    archive (the old one if the run stopped on an I/O error, else the new common
    map), no staging file, no archive staging file.  Premise: a conflict name
    differs from its path (see the example below the section: without it the step
    model and the run model differ). *)
Theorem C08_steps_agree : forall (s : state) (ae : bool),
  (forall p d, cname p d <> p) ->
  let s' := (run s).1.1 in
  let f := exec_all (fs_of s) (steps s ae) in
  fA f = tA s' /\ fB f = tB s' /\ farch f = arch s' /\ gA f = ∅ /\ gB f = ∅ /\ ftmp f = None.
Proof. intros s ae Hcn. exact (steps_agree_lemma Hh dge cname kle s ae Hcn). Qed.

(** The run model never stops on an I/O error (every source of a copy exists), so
    the archive save is always part of the step list and the new archive is [Some z]. *)
Theorem C08_run_never_io_error : forall (s : state),
  (run s).1.2 <> ExitIoError /\
  exists z, arch (run s).1.1 = Some z /\ forall ae, archp s ae = arch_steps ae z.
Proof. intros s. destruct (run_never_io_error Hh dge cname kle s) as (A & B & C). eauto. Qed.

(** 2. Ordering.  The step list is a sequence of whole-file blocks (each copy =
    stage, data, fsync, rename of one destination, nothing in between; or one
    unlink), then the archive save or nothing. *)
Theorem C08_steps_structure : forall (s : state) (ae : bool),
  steps s ae = data s ++ archp s ae /\ blocked (data s) /\
  Forall (fun st => is_data_step st = true) (data s) /\
  Forall (fun st => is_arch_step st = true) (archp s ae) /\
  (archp s ae = [] \/ exists z, archp s ae = arch_steps ae z).
Proof. intros s ae. destruct (steps_structure Hh dge cname kle s ae) as (A & B & C & E & [F|F]); eauto 10. Qed.

(** every rename is immediately preceded by the fsync of the same staging file,
    that by the data of the same copy, that by the open of the staging file *)
Theorem C08_renames_follow_fsync : forall (s : state) (ae : bool) i sd q,
  steps s ae !! i = Some (FRename sd q) ->
  exists j c, i = j + 3 /\ steps s ae !! (j + 2) = Some (FSync sd q) /\
              steps s ae !! (j + 1) = Some (FData sd q c) /\
              steps s ae !! j = Some (FStage sd q).
Proof. exact (renames_follow_fsync_lemma Hh dge cname kle). Qed.

(** every archive step comes after every data step *)
Theorem C08_archive_steps_last : forall (s : state) (ae : bool) i j st1 st2,
  steps s ae !! i = Some st1 -> steps s ae !! j = Some st2 ->
  is_arch_step st1 = true -> is_data_step st2 = true -> j < i.
Proof. exact (archive_steps_last_lemma Hh dge cname kle). Qed.

(** 3. In every crash state the archive path holds the old archive, nothing, or
    the archive of the completed run. *)
Theorem C08_crash_archive_old_absent_or_new : forall (s : state) (ae : bool) (k : nat),
  let f := crash s ae k in
  farch f = arch s \/ farch f = None \/ farch f = arch (run s).1.1.
Proof. exact (crash_archive_lemma Hh dge cname kle). Qed.

(** The new archive (when it differs from the old one) is there only after ALL
    data steps - every fsync and rename of every delivered file - and the archive
    steps up to its own rename: no staging file is left and (for conflict names
    distinct from their paths) both trees are the final ones. *)
Theorem C08_archive_after_data : forall (s : state) (ae : bool) (k : nat),
  let f := crash s ae k in
  let s' := (run s).1.1 in
  farch f = arch s' -> arch s' <> arch s ->
  length (data s) + (if ae then 5 else 4) <= k /\
  take (length (data s)) (steps s ae) = data s /\
  gA f = ∅ /\ gB f = ∅ /\
  ((forall p d, cname p d <> p) -> fA f = tA s' /\ fB f = tB s').
Proof. exact (archive_after_data_full Hh dge cname kle). Qed.

(** 4. In every crash state every live path on either side holds the complete
    bytes of a version that was at some path of A or B before the run; a staging
    file is empty or holds such a complete version. *)
Theorem C08_crash_paths_whole : forall (s : state) (ae : bool) (k : nat),
  let f := crash s ae k in
  let old c := exists p, tA s !! p = Some c \/ tB s !! p = Some c in
  (forall q c, fA f !! q = Some c -> old c) /\ (forall q c, fB f !! q = Some c -> old c) /\
  (forall q c, gA f !! q = Some c -> c = [] \/ old c) /\
  (forall q c, gB f !! q = Some c -> c = [] \/ old c).
Proof. exact (crash_paths_whole_lemma Hh dge cname kle). Qed.

(** Sharper, when conflict names are fresh (no path of either tree is a conflict
    name) and determine their path: every (side, path) is written at most once by
    the run, so in every crash state every live path holds on each side exactly
    what it held before the run or exactly what the completed run leaves there.
    There is no third, intermediate content - also not for a conflict path between
    the delivery of the conflict copies and the delivery of the winner. *)
Theorem C08_crash_paths_old_or_new : forall (s : state) (ae : bool) (k : nat) (x : K),
  (forall p d, tA s !! cname p d = None /\ tB s !! cname p d = None) ->
  (forall p d p' d', cname p d = cname p' d' -> p = p') ->
  let f := crash s ae k in
  let s' := (run s).1.1 in
  (fA f !! x = tA s !! x \/ fA f !! x = tA s' !! x) /\
  (fB f !! x = tB s !! x \/ fB f !! x = tB s' !! x).
Proof. intros s ae k x Hf Hi. exact (crash_cells_old_or_new Hh dge cname kle s ae k x Hf Hi). Qed.

(** For runs in which no path is a both-changed conflict (no premise on names):
    each path is - on both sides together - as before the run or as after it. *)
Theorem C08_crash_paths_old_or_new_both_sides : forall (s : state) (ae : bool) (k : nat) (x : K),
  (forall x, rpath (scan Hh (tA s) !! x) (scan Hh (tB s) !! x) (base_at (arch s) x) <> Some ConfBoth) ->
  let f := crash s ae k in
  let s' := (run s).1.1 in
  (fA f !! x, fB f !! x) = (tA s !! x, tB s !! x) \/ (fA f !! x, fB f !! x) = (tA s' !! x, tB s' !! x).
Proof. intros s ae k x Hcf. exact (crash_paths_old_or_new_nc Hh dge cname kle s ae k x Hcf). Qed.

(** 5. Recovery.  FULL STATEMENT (not proved in full): for every s, ae, k, with
    conflict names fresh and injective, iterating the run from the crash state
    (staging files seen as one-sided files; a run that stops on an I/O error
    because of a leftover staging file is repeated) reaches trees equal to those
    of the uninterrupted run on all non-staging paths, and no version is lost in
    the sense of C02.
    PROVED: for every run without a both-changed conflict (trusted archive or
    not), every ae and every k: one re-run from the recovered state (trees and
    archive of the crash state, staging files ignored) is again conflict free,
    ends with exit status 0 and reaches EXACTLY the state of the uninterrupted run:
    both trees and the archive. *)
Theorem C08_recovery_converges_partial : forall (s : state) (ae : bool) (k : nat),
  (forall x, rpath (scan Hh (tA s) !! x) (scan Hh (tB s) !! x) (base_at (arch s) x) <> Some ConfBoth) ->
  let r := recover (crash s ae k) in
  (run r).1.1 = (run s).1.1 /\ (run r).1.2 = ExitOk /\ (run s).1.2 = ExitOk.
Proof. intros s ae k Hcf. exact (proj2 (recovery_nc Hh dge cname kle s ae k Hcf)). Qed.
End C08.

Print Assumptions C08_steps_agree.
Print Assumptions C08_run_never_io_error.
Print Assumptions C08_steps_structure.
Print Assumptions C08_renames_follow_fsync.
Print Assumptions C08_archive_steps_last.
Print Assumptions C08_crash_archive_old_absent_or_new.
Print Assumptions C08_archive_after_data.
Print Assumptions C08_crash_paths_whole.
Print Assumptions C08_crash_paths_old_or_new.
Print Assumptions C08_crash_paths_old_or_new_both_sides.
Print Assumptions C08_recovery_converges_partial.

(** Non-vacuity.  K := nat, D := list Z, hash := identity.  Path 1 is new on A,
    path 2 was changed on B: two copies, then the archive save over an existing
    archive file. *)
Definition ex_s : @state nat _ _ (list Z) :=
  {| tA := {[ 1%nat := [1]%Z ; 2%nat := [5]%Z ]}; tB := {[ 2%nat := [6]%Z ]};
     arch := Some {[ 2%nat := [5]%Z ]} |}.
Definition ex_cname := fun (p : nat) (d : list Z) => (100 + p)%nat.
Definition ex_dge := fun (_ _ : list Z) => true.

(** maps are shown as association lists *)
Definition show_state (s : @state nat _ _ (list Z)) :=
  (map_to_list (tA s), map_to_list (tB s), map_to_list <$> arch s).

Example C08_nonvacuous_steps :
  exists z,
  bisync_steps (fun x => x) ex_dge ex_cname Nat.leb ex_s true =
  [ FStage SB 1%nat; FData SB 1%nat [1]%Z; FSync SB 1%nat; FRename SB 1%nat;
    FStage SA 2%nat; FData SA 2%nat [6]%Z; FSync SA 2%nat; FRename SA 2%nat;
    FArchStage; FArchWrite z; FArchSync; FArchBak; FArchRename; FArchDirSync ] /\
  map_to_list z = [ (1%nat, [1]%Z); (2%nat, [6]%Z) ].
Proof. eexists. split; vm_compute; reflexivity. Qed.

(** killed before the 7th step: the first copy is in place, the second is staged;
    a re-run from there reaches the state of the uninterrupted run *)
Example C08_nonvacuous_crash :
  let f := BisyncSteps.crash (fun x => x) ex_dge ex_cname Nat.leb ex_s true 6 in
  map_to_list (fA f) = [ (1%nat, [1]%Z); (2%nat, [5]%Z) ] /\
  map_to_list (fB f) = [ (1%nat, [1]%Z); (2%nat, [6]%Z) ] /\
  map_to_list (gA f) = [ (2%nat, [6]%Z) ] /\ map_to_list (gB f) = [] /\
  map_to_list <$> farch f = Some [ (2%nat, [5]%Z) ] /\
  show_state (bisync_run (fun x => x) ex_dge ex_cname Nat.leb (recover f)).1.1 =
  show_state (bisync_run (fun x => x) ex_dge ex_cname Nat.leb ex_s).1.1 /\
  show_state (bisync_run (fun x => x) ex_dge ex_cname Nat.leb ex_s).1.1 =
  ([ (1%nat, [1]%Z); (2%nat, [6]%Z) ], [ (1%nat, [1]%Z); (2%nat, [6]%Z) ], Some [ (1%nat, [1]%Z); (2%nat, [6]%Z) ]).
Proof. vm_compute. repeat split. Qed.

(** killed between the two archive renames: no archive, trees final *)
Example C08_nonvacuous_crash_archive :
  let f := BisyncSteps.crash (fun x => x) ex_dge ex_cname Nat.leb ex_s true 12 in
  farch f = None /\ map_to_list <$> fbak f = Some [ (2%nat, [5]%Z) ] /\
  map_to_list <$> ftmp f = Some [ (1%nat, [1]%Z); (2%nat, [6]%Z) ] /\
  map_to_list (fA f) = [ (1%nat, [1]%Z); (2%nat, [6]%Z) ] /\
  map_to_list (fB f) = [ (1%nat, [1]%Z); (2%nat, [6]%Z) ].
Proof. vm_compute. repeat split. Qed.

(** a both-changed conflict: the loser is copied to the conflict name on both
    sides, then the winner replaces it *)
Example C08_nonvacuous_conflict :
  let s : @state nat _ _ (list Z) := {| tA := {[ 1%nat := [1]%Z ]}; tB := {[ 1%nat := [2]%Z ]}; arch := None |} in
  exists z,
  bisync_steps (fun x => x) ex_dge ex_cname Nat.leb s false =
  copy_steps SB 101%nat [2]%Z ++ copy_steps SA 101%nat [2]%Z ++ copy_steps SB 1%nat [1]%Z ++
  arch_steps false z /\
  map_to_list z = [ (1%nat, [1]%Z); (101%nat, [2]%Z) ].
Proof. eexists. split; vm_compute; reflexivity. Qed.

(** the premise of C08_steps_agree is needed: with a conflict name equal to its
    path the step list ends with B holding [1] at path 1, the run model with [2] *)
Example C08_steps_agree_needs_premise :
  let s : @state nat _ _ (list Z) := {| tA := {[ 1%nat := [1]%Z ]}; tB := {[ 1%nat := [2]%Z ]}; arch := None |} in
  let cn := fun (p : nat) (_ : list Z) => p in
  fB (exec_all (fs_of s) (bisync_steps (fun x => x) ex_dge cn Nat.leb s false)) !! 1%nat = Some [1]%Z /\
  tB (bisync_run (fun x => x) ex_dge cn Nat.leb s).1.1 !! 1%nat = Some [2]%Z.
Proof. vm_compute. split; reflexivity. Qed.

(** Evidence (a finite sweep, not a theorem) for the part of recovery left
    unproved: a run WITH a both-changed conflict (path 1; A wins, the copy of B
    goes to 101), a propagated delete (path 2) and a propagation (path 3), killed
    at EVERY k = 0..23 of its 23 steps; one re-run from the recovered state reaches
    the trees and the archive of the uninterrupted run (the exit status may
    differ: a conflict already resolved before the crash is not counted again). *)
Definition ex_c : @state nat _ _ (list Z) :=
  {| tA := {[ 1%nat := [1]%Z ; 2%nat := [7]%Z ; 3%nat := [3]%Z ]};
     tB := {[ 1%nat := [2]%Z ; 3%nat := [4]%Z ]};
     arch := Some {[ 1%nat := [0]%Z ; 2%nat := [7]%Z ; 3%nat := [3]%Z ]} |}.

Example C08_conflict_recovery_sweep :
  length (bisync_steps (fun x => x) ex_dge ex_cname Nat.leb ex_c true) = 23%nat /\
  show_state (bisync_run (fun x => x) ex_dge ex_cname Nat.leb ex_c).1.1 =
    ([ (1%nat, [1]%Z); (3%nat, [4]%Z); (101%nat, [2]%Z) ], [ (1%nat, [1]%Z); (3%nat, [4]%Z); (101%nat, [2]%Z) ],
     Some [ (1%nat, [1]%Z); (3%nat, [4]%Z); (101%nat, [2]%Z) ]) /\
  forallb (fun k => bool_decide (
      show_state (bisync_run (fun x => x) ex_dge ex_cname Nat.leb
                    (recover (BisyncSteps.crash (fun x => x) ex_dge ex_cname Nat.leb ex_c true k))).1.1 =
      show_state (bisync_run (fun x => x) ex_dge ex_cname Nat.leb ex_c).1.1)) (seq 0 24) = true.
Proof. vm_compute. repeat split. Qed.
