(** C08 - bisync is crash-safe: the record never runs ahead of the data.
    Property theorems only.  Quantifiers: every key type, digest type, hash,
    digest order, conflict-name function, path order, every state, both values of
    [ae] (whether a file sits at the archive path) and EVERY crash point k.
    [crash s ae k] is the file system after the first k steps of the run. *)
From stdpp Require Import gmap.
From Copia Require Import Model.Bisync Model.BisyncSteps Proofs.BisyncStepsProofs Proofs.BisyncProofs
  Proofs.BisyncRecoveryProofs.

Section C08.
Context `{Countable K} {D : Type} `{EqDecision D}.
Variable Hh : list Z -> D.
Variable dge : D -> D -> bool.
Variable cname : K -> D -> K.
Variable kle : K -> K -> bool.
Notation state := (@state K _ _ D).
Notation run := (bisync_run Hh dge cname kle).
Notation steps := (bisync_steps Hh dge cname kle).
Notation crash := (crash Hh dge cname kle).
(** the data steps (copies and unlinks of the apply loop) and the archive steps of a run *)
Notation data := (data_steps Hh dge cname kle).
Notation archp := (arch_part Hh dge cname kle).

(** 1. Executing ALL steps gives the result of the run model: both trees, the
    archive (the old one if the run stopped on an I/O error, else the new common
    map), no staging file, no archive staging file.  Premise: a conflict name
    differs from its path (see the example below the section: without it the step
    model and the run model differ). *)
Theorem C08_steps_agree : forall (s : state) (ae : bool),
  (forall p d, cname p d <> p) ->
  let s' := (run s).1.1 in
  let f := exec_all (fs_of s) (steps s ae) in
  fA f = tA s' /\ fB f = tB s' /\ farch f = arch s' /\ gA f = ∅ /\ gB f = ∅ /\ ftmp f = None.
Proof. intros s ae Hcn. exact (steps_agree_lemma Hh dge cname kle s ae Hcn). Qed.

(** The run model never stops on an I/O error (every source of a copy exists), so
    the archive save is always part of the step list and the new archive is [Some z]. *)
Theorem C08_run_never_io_error : forall (s : state),
  (run s).1.2 <> ExitIoError /\
  exists z, arch (run s).1.1 = Some z /\ forall ae, archp s ae = arch_steps ae z.
Proof. intros s. destruct (run_never_io_error Hh dge cname kle s) as (A & B & C). eauto. Qed.

(** 2. Ordering.  The step list is a sequence of whole-file blocks (each copy =
    stage, data, fsync, rename of one destination, nothing in between; or one
    unlink), then the archive save or nothing. *)
Theorem C08_steps_structure : forall (s : state) (ae : bool),
  steps s ae = data s ++ archp s ae /\ blocked (data s) /\
  Forall (fun st => is_data_step st = true) (data s) /\
  Forall (fun st => is_arch_step st = true) (archp s ae) /\
  (archp s ae = [] \/ exists z, archp s ae = arch_steps ae z).
Proof. intros s ae. destruct (steps_structure Hh dge cname kle s ae) as (A & B & C & E & [F|F]); eauto 10. Qed.

(** every rename is immediately preceded by the fsync of the same staging file,
    that by the data of the same copy, that by the open of the staging file *)
Theorem C08_renames_follow_fsync : forall (s : state) (ae : bool) i sd q,
  steps s ae !! i = Some (FRename sd q) ->
  exists j c, i = j + 3 /\ steps s ae !! (j + 2) = Some (FSync sd q) /\
              steps s ae !! (j + 1) = Some (FData sd q c) /\
              steps s ae !! j = Some (FStage sd q).
Proof. exact (renames_follow_fsync_lemma Hh dge cname kle). Qed.

(** every archive step comes after every data step *)
Theorem C08_archive_steps_last : forall (s : state) (ae : bool) i j st1 st2,
  steps s ae !! i = Some st1 -> steps s ae !! j = Some st2 ->
  is_arch_step st1 = true -> is_data_step st2 = true -> j < i.
Proof. exact (archive_steps_last_lemma Hh dge cname kle). Qed.

(** 3. In every crash state the archive path holds the old archive, nothing, or
    the archive of the completed run. *)
Theorem C08_crash_archive_old_absent_or_new : forall (s : state) (ae : bool) (k : nat),
  let f := crash s ae k in
  farch f = arch s \/ farch f = None \/ farch f = arch (run s).1.1.
Proof. exact (crash_archive_lemma Hh dge cname kle). Qed.

(** The new archive (when it differs from the old one) is there only after ALL
    data steps - every fsync and rename of every delivered file - and the archive
    steps up to its own rename: no staging file is left and (for conflict names
    distinct from their paths) both trees are the final ones. *)
Theorem C08_archive_after_data : forall (s : state) (ae : bool) (k : nat),
  let f := crash s ae k in
  let s' := (run s).1.1 in
  farch f = arch s' -> arch s' <> arch s ->
  length (data s) + (if ae then 5 else 4) <= k /\
  take (length (data s)) (steps s ae) = data s /\
  gA f = ∅ /\ gB f = ∅ /\
  ((forall p d, cname p d <> p) -> fA f = tA s' /\ fB f = tB s').
Proof. exact (archive_after_data_full Hh dge cname kle). Qed.

(** 4. In every crash state every live path on either side holds the complete
    bytes of a version that was at some path of A or B before the run; a staging
    file is empty or holds such a complete version. *)
Theorem C08_crash_paths_whole : forall (s : state) (ae : bool) (k : nat),
  let f := crash s ae k in
  let old c := exists p, tA s !! p = Some c \/ tB s !! p = Some c in
  (forall q c, fA f !! q = Some c -> old c) /\ (forall q c, fB f !! q = Some c -> old c) /\
  (forall q c, gA f !! q = Some c -> c = [] \/ old c) /\
  (forall q c, gB f !! q = Some c -> c = [] \/ old c).
Proof. exact (crash_paths_whole_lemma Hh dge cname kle). Qed.

(** Sharper, when conflict names are fresh (no path of either tree is a conflict
    name) and determine their path: every (side, path) is written at most once by
    the run, so in every crash state every live path holds on each side exactly
    what it held before the run or exactly what the completed run leaves there.
    There is no third, intermediate content - also not for a conflict path between
    the delivery of the conflict copies and the delivery of the winner. *)
Theorem C08_crash_paths_old_or_new : forall (s : state) (ae : bool) (k : nat) (x : K),
  (forall p d, tA s !! cname p d = None /\ tB s !! cname p d = None) ->
  (forall p d p' d', cname p d = cname p' d' -> p = p') ->
  let f := crash s ae k in
  let s' := (run s).1.1 in
  (fA f !! x = tA s !! x \/ fA f !! x = tA s' !! x) /\
  (fB f !! x = tB s !! x \/ fB f !! x = tB s' !! x).
Proof. intros s ae k x Hf Hi. exact (crash_cells_old_or_new Hh dge cname kle s ae k x Hf Hi). Qed.

(** For runs in which no path is a both-changed conflict (no premise on names):
    each path is - on both sides together - as before the run or as after it. *)
Theorem C08_crash_paths_old_or_new_both_sides : forall (s : state) (ae : bool) (k : nat) (x : K),
  (forall x, rpath (scan Hh (tA s) !! x) (scan Hh (tB s) !! x) (base_at (arch s) x) <> Some ConfBoth) ->
  let f := crash s ae k in
  let s' := (run s).1.1 in
  (fA f !! x, fB f !! x) = (tA s !! x, tB s !! x) \/ (fA f !! x, fB f !! x) = (tA s' !! x, tB s' !! x).
Proof. intros s ae k x Hcf. exact (crash_paths_old_or_new_nc Hh dge cname kle s ae k x Hcf). Qed.

(** 5. Recovery, runs WITHOUT a both-changed conflict (no premise on names, trusted
    archive or not), every ae and every k: one re-run from the recovered state
    (trees and archive of the crash state; staging files are not part of [recover])
    is again conflict free, ends with exit status 0 and reaches EXACTLY the state of
    the uninterrupted run: both trees and the archive. *)
Theorem C08_recovery_converges_partial : forall (s : state) (ae : bool) (k : nat),
  (forall x, rpath (scan Hh (tA s) !! x) (scan Hh (tB s) !! x) (base_at (arch s) x) <> Some ConfBoth) ->
  let r := recover (crash s ae k) in
  (run r).1.1 = (run s).1.1 /\ (run r).1.2 = ExitOk /\ (run s).1.2 = ExitOk.
Proof. intros s ae k Hcf. exact (proj2 (recovery_nc Hh dge cname kle s ae k Hcf)). Qed.

(** 6. Recovery, runs WITH both-changed conflicts.  Premises: exactly those of the
    C02 / C06 theorems - [HashOk s] and [Fresh s] (the "no name clash" class, which
    includes crash leftovers: the loser at the conflict name on one side, unrecorded).
    Nothing else is assumed: not that conflict names are absent from the trees, not
    that they are injective beyond clause (2) of [Fresh], nothing about the order.

    FULL STATEMENT, PROVED for every s, ae and EVERY crash point k: the re-run from
    the recovered state never stops on an I/O error; TWO re-runs reach exactly the
    state of the uninterrupted run - both trees on all paths AND the archive - and
    the second one ends with exit status 0.
    Why two: (a) exit status - the first re-run legitimately exits non-zero whenever
    a both-changed conflict was still unresolved at the crash (k = 0 is the
    uninterrupted run itself); the second plans nothing new.  (b) trees - ONE re-run
    does not always reach the trees of the uninterrupted run: refuted below
    ([C08_recovery_one_rerun_refuted]); the exact shape of the gap is
    [C08_recovery_first_rerun], and [C08_recovery_one_rerun] gives the premise under
    which one re-run suffices.
    Staging files are not part of [recover] (the model's re-run starts from the live
    names and the archive file); leftover-staging re-runs are executed by the tie. *)
Notation HashOk := (HashOk Hh).
Notation Fresh := (Fresh Hh dge cname).
Notation conflict := (conflict Hh dge cname).

Theorem C08_recovery_converges_conflicts : forall (s : state) (ae : bool) (k : nat),
  HashOk s -> Fresh s ->
  let r := recover (crash s ae k) in
  let r1 := (run r).1.1 in
  let r2 := (run r1).1.1 in
  (run r).1.2 <> ExitIoError /\ r2 = (run s).1.1 /\ (run r1).1.2 = ExitOk.
Proof.
  intros s ae k Hok F. destruct (recovery_conflicts Hh dge cname kle s ae k Hok F) as (A & _ & B & C).
  exact (conj A (conj B C)).
Qed.

(** The state after the FIRST re-run: the state [t] of the uninterrupted run, or -
    only when the crash fell between the two deliveries of the conflict copy of a
    both-changed path [p] whose conflict name [q] is absent from both trees of [s]
    but still recorded with the loser's digest (a stale record entry: the copy of an
    earlier, identical conflict was deleted on both sides), and [q] follows [p] in
    plan order - [t] on every path but [q], with the conflict copy [l] present on
    ONE side only and not recorded (the planned "propagate the delete of [q]" has
    removed, on the side of the half-delivered copy, what the conflict step had just
    re-created there).  Nothing is lost; the second re-run copies it back. *)
Theorem C08_recovery_first_rerun : forall (s : state) (ae : bool) (k : nat),
  HashOk s -> Fresh s ->
  let r1 := (run (recover (crash s ae k))).1.1 in
  let t := (run s).1.1 in
  r1 = t \/
  exists sd p q l,
    (conflict s p = Some (q, l) /\ tA s !! q = None /\ tB s !! q = None /\ base_at (arch s) q = Some (Hh l)) /\
    (forall x, x <> q -> tA r1 !! x = tA t !! x /\ tB r1 !! x = tB t !! x /\
                         base_at (arch r1) x = base_at (arch t) x) /\
    tA t !! q = Some l /\ tB t !! q = Some l /\
    side_tree sd r1 !! q = None /\ side_tree (other sd) r1 !! q = Some l /\ base_at (arch r1) q = None.
Proof. intros s ae k Hok F. exact (proj1 (proj2 (recovery_conflicts Hh dge cname kle s ae k Hok F))). Qed.

(** ONE re-run suffices (trees and archive; the exit status is 0 iff no conflict
    was left unresolved) when the record holds no stale entry for a conflict name of
    this run.  The extra premise is forced exactly by the refuted case below; it
    holds whenever the record is the tree of a completed run and nobody deleted a
    conflict copy on both sides ([C08_one_rerun_premise_satisfiable]). *)
Theorem C08_recovery_one_rerun : forall (s : state) (ae : bool) (k : nat),
  HashOk s -> Fresh s ->
  (forall p q l, conflict s p = Some (q, l) -> tA s !! q = None -> tB s !! q = None ->
                 base_at (arch s) q <> Some (Hh l)) ->
  (run (recover (crash s ae k))).1.1 = (run s).1.1.
Proof. exact (recovery_conflicts_one Hh dge cname kle). Qed.

(** No version present when the interrupted run started is lost (C02's statement,
    with the state after the two re-runs in place of the state after the run): it
    is on BOTH sides - at its path or at the conflict name the run generates for it -
    unless it is the recorded version and the other side changed or deleted the
    path.  Already after the FIRST re-run it is on at least one side. *)
Theorem C08_recovery_no_loss : forall (s : state) (ae : bool) (k : nat),
  HashOk s -> Fresh s ->
  let r1 := (run (recover (crash s ae k))).1.1 in
  let r2 := (run r1).1.1 in
  forall sd p c, side_tree sd s !! p = Some c ->
    ((exists x, (x = p \/ conflict s p = Some (x, c)) /\ tA r2 !! x = Some c /\ tB r2 !! x = Some c) \/
     (exists z, arch s = Some z /\ z !! p = Some (Hh c) /\ side_tree (other sd) s !! p <> Some c)) /\
    ((exists x, (x = p \/ conflict s p = Some (x, c)) /\ (tA r1 !! x = Some c \/ tB r1 !! x = Some c)) \/
     (exists z, arch s = Some z /\ z !! p = Some (Hh c) /\ side_tree (other sd) s !! p <> Some c)).
Proof. exact (recovery_no_loss Hh dge cname kle). Qed.
End C08.

Print Assumptions C08_steps_agree.
Print Assumptions C08_run_never_io_error.
Print Assumptions C08_steps_structure.
Print Assumptions C08_renames_follow_fsync.
Print Assumptions C08_archive_steps_last.
Print Assumptions C08_crash_archive_old_absent_or_new.
Print Assumptions C08_archive_after_data.
Print Assumptions C08_crash_paths_whole.
Print Assumptions C08_crash_paths_old_or_new.
Print Assumptions C08_crash_paths_old_or_new_both_sides.
Print Assumptions C08_recovery_converges_partial.
Print Assumptions C08_recovery_converges_conflicts.
Print Assumptions C08_recovery_first_rerun.
Print Assumptions C08_recovery_one_rerun.
Print Assumptions C08_recovery_no_loss.

(** Non-vacuity.  K := nat, D := list Z, hash := identity.  Path 1 is new on A,
    path 2 was changed on B: two copies, then the archive save over an existing
    archive file. *)
Definition ex_s : @state nat _ _ (list Z) :=
  {| tA := {[ 1%nat := [1]%Z ; 2%nat := [5]%Z ]}; tB := {[ 2%nat := [6]%Z ]};
     arch := Some {[ 2%nat := [5]%Z ]} |}.
Definition ex_cname := fun (p : nat) (d : list Z) => (100 + p)%nat.
Definition ex_dge := fun (_ _ : list Z) => true.

(** maps are shown as association lists *)
Definition show_state (s : @state nat _ _ (list Z)) :=
  (map_to_list (tA s), map_to_list (tB s), map_to_list <$> arch s).

Example C08_nonvacuous_steps :
  exists z,
  bisync_steps (fun x => x) ex_dge ex_cname Nat.leb ex_s true =
  [ FStage SB 1%nat; FData SB 1%nat [1]%Z; FSync SB 1%nat; FRename SB 1%nat;
    FStage SA 2%nat; FData SA 2%nat [6]%Z; FSync SA 2%nat; FRename SA 2%nat;
    FArchStage; FArchWrite z; FArchSync; FArchBak; FArchRename; FArchDirSync ] /\
  map_to_list z = [ (1%nat, [1]%Z); (2%nat, [6]%Z) ].
Proof. eexists. split; vm_compute; reflexivity. Qed.

(** killed before the 7th step: the first copy is in place, the second is staged;
    a re-run from there reaches the state of the uninterrupted run *)
Example C08_nonvacuous_crash :
  let f := BisyncSteps.crash (fun x => x) ex_dge ex_cname Nat.leb ex_s true 6 in
  map_to_list (fA f) = [ (1%nat, [1]%Z); (2%nat, [5]%Z) ] /\
  map_to_list (fB f) = [ (1%nat, [1]%Z); (2%nat, [6]%Z) ] /\
  map_to_list (gA f) = [ (2%nat, [6]%Z) ] /\ map_to_list (gB f) = [] /\
  map_to_list <$> farch f = Some [ (2%nat, [5]%Z) ] /\
  show_state (bisync_run (fun x => x) ex_dge ex_cname Nat.leb (recover f)).1.1 =
  show_state (bisync_run (fun x => x) ex_dge ex_cname Nat.leb ex_s).1.1 /\
  show_state (bisync_run (fun x => x) ex_dge ex_cname Nat.leb ex_s).1.1 =
  ([ (1%nat, [1]%Z); (2%nat, [6]%Z) ], [ (1%nat, [1]%Z); (2%nat, [6]%Z) ], Some [ (1%nat, [1]%Z); (2%nat, [6]%Z) ]).
Proof. vm_compute. repeat split. Qed.

(** killed between the two archive renames: no archive, trees final *)
Example C08_nonvacuous_crash_archive :
  let f := BisyncSteps.crash (fun x => x) ex_dge ex_cname Nat.leb ex_s true 12 in
  farch f = None /\ map_to_list <$> fbak f = Some [ (2%nat, [5]%Z) ] /\
  map_to_list <$> ftmp f = Some [ (1%nat, [1]%Z); (2%nat, [6]%Z) ] /\
  map_to_list (fA f) = [ (1%nat, [1]%Z); (2%nat, [6]%Z) ] /\
  map_to_list (fB f) = [ (1%nat, [1]%Z); (2%nat, [6]%Z) ].
Proof. vm_compute. repeat split. Qed.

(** a both-changed conflict: the loser is copied to the conflict name on both
    sides, then the winner replaces it *)
Example C08_nonvacuous_conflict :
  let s : @state nat _ _ (list Z) := {| tA := {[ 1%nat := [1]%Z ]}; tB := {[ 1%nat := [2]%Z ]}; arch := None |} in
  exists z,
  bisync_steps (fun x => x) ex_dge ex_cname Nat.leb s false =
  copy_steps SB 101%nat [2]%Z ++ copy_steps SA 101%nat [2]%Z ++ copy_steps SB 1%nat [1]%Z ++
  arch_steps false z /\
  map_to_list z = [ (1%nat, [1]%Z); (101%nat, [2]%Z) ].
Proof. eexists. split; vm_compute; reflexivity. Qed.

(** the premise of C08_steps_agree is needed: with a conflict name equal to its
    path the step list ends with B holding [1] at path 1, the run model with [2] *)
Example C08_steps_agree_needs_premise :
  let s : @state nat _ _ (list Z) := {| tA := {[ 1%nat := [1]%Z ]}; tB := {[ 1%nat := [2]%Z ]}; arch := None |} in
  let cn := fun (p : nat) (_ : list Z) => p in
  fB (exec_all (fs_of s) (bisync_steps (fun x => x) ex_dge cn Nat.leb s false)) !! 1%nat = Some [1]%Z /\
  tB (bisync_run (fun x => x) ex_dge cn Nat.leb s).1.1 !! 1%nat = Some [2]%Z.
Proof. vm_compute. split; reflexivity. Qed.

(** Non-vacuity of 6: a run WITH a both-changed conflict (path 1; A wins, the copy
    of B goes to 101), a propagated delete (path 2) and a propagation (path 3),
    killed at EVERY k = 0..23 of its 23 steps; one re-run from the recovered state
    reaches the trees and the archive of the uninterrupted run (the exit status may
    differ: a conflict already resolved before the crash is not counted again). *)
Definition ex_c : @state nat _ _ (list Z) :=
  {| tA := {[ 1%nat := [1]%Z ; 2%nat := [7]%Z ; 3%nat := [3]%Z ]};
     tB := {[ 1%nat := [2]%Z ; 3%nat := [4]%Z ]};
     arch := Some {[ 1%nat := [0]%Z ; 2%nat := [7]%Z ; 3%nat := [3]%Z ]} |}.

Example C08_conflict_recovery_sweep :
  length (bisync_steps (fun x => x) ex_dge ex_cname Nat.leb ex_c true) = 23%nat /\
  show_state (bisync_run (fun x => x) ex_dge ex_cname Nat.leb ex_c).1.1 =
    ([ (1%nat, [1]%Z); (3%nat, [4]%Z); (101%nat, [2]%Z) ], [ (1%nat, [1]%Z); (3%nat, [4]%Z); (101%nat, [2]%Z) ],
     Some [ (1%nat, [1]%Z); (3%nat, [4]%Z); (101%nat, [2]%Z) ]) /\
  forallb (fun k => bool_decide (
      show_state (bisync_run (fun x => x) ex_dge ex_cname Nat.leb
                    (recover (BisyncSteps.crash (fun x => x) ex_dge ex_cname Nat.leb ex_c true k))).1.1 =
      show_state (bisync_run (fun x => x) ex_dge ex_cname Nat.leb ex_c).1.1)) (seq 0 24) = true.
Proof. vm_compute. repeat split. Qed.

(** [ex_c] meets the premises of [C08_recovery_converges_conflicts] AND the extra
    premise of [C08_recovery_one_rerun] (its record has no entry for 101).  Killed
    after the first delivery of the conflict copy (k = 4): B holds the loser [2] at
    101, A does not - a one-sided, unrecorded crash leftover, inside [Fresh]. *)
Example C08_one_rerun_premise_satisfiable :
  let Hh := fun c : list Z => c in
  BisyncProofs.HashOk Hh ex_c /\ BisyncProofs.Fresh Hh ex_dge ex_cname ex_c /\
  BisyncProofs.conflict Hh ex_dge ex_cname ex_c 1%nat = Some (101%nat, [2]%Z) /\
  (forall p q l, BisyncProofs.conflict Hh ex_dge ex_cname ex_c p = Some (q, l) ->
     tA ex_c !! q = None -> tB ex_c !! q = None -> base_at (arch ex_c) q <> Some (Hh l)) /\
  let f := BisyncSteps.crash Hh ex_dge ex_cname Nat.leb ex_c true 4 in
  fA f !! 101%nat = None /\ fB f !! 101%nat = Some [2]%Z /\ farch f = arch ex_c /\
  BisyncProofs.Fresh Hh ex_dge ex_cname (recover f).
Proof.
  cbv zeta. split; [intros p x y _ _ E; exact E|].
  split; [apply fresh_check_sound; vm_compute; reflexivity|]. split; [vm_compute; reflexivity|]. split.
  - intros p q l E _ _. apply (elem_of_conflicts (fun c : list Z => c) ex_dge ex_cname) in E. vm_compute in E.
    apply elem_of_list_singleton in E. injection E as -> -> ->. vm_compute. discriminate.
  - split; [vm_compute; reflexivity|]. split; [vm_compute; reflexivity|]. split; [vm_compute; reflexivity|].
    apply fresh_check_sound. vm_compute. reflexivity.
Qed.

(** the first re-run legitimately exits non-zero when a conflict was still
    unresolved at the crash (here k = 0: nothing done yet); the second exits 0 *)
Example C08_first_rerun_may_exit_nonzero :
  let run := bisync_run (fun x => x) ex_dge ex_cname Nat.leb in
  let r := recover (BisyncSteps.crash (fun x => x) ex_dge ex_cname Nat.leb ex_c true 0) in
  (run r).1.2 = ExitConflicts /\ (run (run r).1.1).1.2 = ExitOk.
Proof. vm_compute. split; reflexivity. Qed.

(** REFUTED: "one re-run from every crash state reaches the trees of the
    uninterrupted run" under [HashOk] and [Fresh] alone.  Path 1 is both-changed
    (A's [2] wins, B's [1] is the loser, conflict name 101); 101 is absent from both
    trees but the record still holds [1] for it (an earlier identical conflict whose
    copy was deleted on both sides).  The state is inside [Fresh].  Killed after the
    first delivery of the conflict copy (k = 4: B holds [1] at 101, A does not): the
    re-run plans [(1, ConfBoth); (101, DelB)]; the conflict step re-creates 101 on
    both sides and the planned delete removes it on B again.  After ONE re-run the
    trees differ at 101 (A holds the loser, B nothing; exit status non-zero); the
    SECOND re-run propagates it and reaches the state of the uninterrupted run with
    exit status 0 - as [C08_recovery_converges_conflicts] says of every state. *)
Definition ex_dge2 := fun a b : list Z => (default 0 (head b) <=? default 0 (head a))%Z.
Definition ex_stale : @state nat _ _ (list Z) :=
  {| tA := {[ 1%nat := [2]%Z ]}; tB := {[ 1%nat := [1]%Z ]}; arch := Some {[ 101%nat := [1]%Z ]} |}.

Theorem C08_recovery_one_rerun_refuted :
  exists (s : @state nat _ _ (list Z)) (ae : bool) (k : nat),
    let Hh := fun c : list Z => c in
    let run := bisync_run Hh ex_dge2 ex_cname Nat.leb in
    BisyncProofs.HashOk Hh s /\ BisyncProofs.Fresh Hh ex_dge2 ex_cname s /\
    let r := recover (BisyncSteps.crash Hh ex_dge2 ex_cname Nat.leb s ae k) in
    let r1 := (run r).1.1 in
    show_state r = ([ (1%nat, [2]%Z) ], [ (1%nat, [1]%Z); (101%nat, [1]%Z) ], Some [ (101%nat, [1]%Z) ]) /\
    (run r).2 = [ (1%nat, ConfBoth); (101%nat, DelB) ] /\ (run r).1.2 = ExitConflicts /\
    show_state (run s).1.1 =
      ([ (1%nat, [2]%Z); (101%nat, [1]%Z) ], [ (1%nat, [2]%Z); (101%nat, [1]%Z) ], Some [ (1%nat, [2]%Z); (101%nat, [1]%Z) ]) /\
    show_state r1 = ([ (1%nat, [2]%Z); (101%nat, [1]%Z) ], [ (1%nat, [2]%Z) ], Some [ (1%nat, [2]%Z) ]) /\
    r1 <> (run s).1.1 /\ tA r1 <> tB r1 /\
    show_state (run r1).1.1 = show_state (run s).1.1 /\ (run r1).1.2 = ExitOk.
Proof.
  exists ex_stale, true, 4. cbv zeta.
  split; [intros p x y _ _ E; exact E|]. split; [apply fresh_check_sound; vm_compute; reflexivity|].
  split; [vm_compute; reflexivity|]. split; [vm_compute; reflexivity|]. split; [vm_compute; reflexivity|].
  split; [vm_compute; reflexivity|]. split; [vm_compute; reflexivity|]. split; [|split].
  - intros E. apply (f_equal (fun t => tB t !! 101%nat)) in E. vm_compute in E. discriminate E.
  - intros E. apply (f_equal (fun t => t !! 101%nat)) in E. vm_compute in E. discriminate E.
  - vm_compute. split; reflexivity.
Qed.
Print Assumptions C08_recovery_one_rerun_refuted.

(** The model the theorems above are about is the translation of src/bin/copia/reconcile.rs (Fingerprint::same, reconcile_path) as it is now: the function
    generated from the source by tools/gen_logic.py (Gen/ReconcileGen.v) equals, on every input, Model/Reconcile.v reconcile_path
    (statement: Proofs/TieReconcile.v, [reconcile_model_is_translation]). *)
Require Copia.Proofs.TieReconcile.
Theorem C08_model_is_translation_of_source : TieReconcile.reconcile_model_is_translation.
Proof. exact TieReconcile.reconcile_model_is_translation_holds. Qed.
Print Assumptions C08_model_is_translation_of_source.

(** The bisync model's OWN per-path decision ([rpath], on digests of regular files, [None] = Noop) is the image of the
    function generated from the current source of reconcile.rs `reconcile_path` (Proofs/TieBisync.v), and its [apply]
    is the effect list generated from the current source of bidir.rs `apply`, run on the working state
    (Proofs/TieBisyncApply.v; premises: no failure so far, a conflict name differs from its path, the scanned files
    are still in the working trees - [tie_apply_vanished_source] shows the one place where the hand-written model and
    the source part ways without the last one). *)
Require Copia.Proofs.TieBisync Copia.Proofs.TieBisyncApply.
Theorem C08_decision_is_translation_of_source : TieBisync.bisync_decision_is_translation.
Proof. exact TieBisync.bisync_decision_is_translation_holds. Qed.
Print Assumptions C08_decision_is_translation_of_source.
Theorem C08_apply_is_translation_of_source : TieBisyncApply.bisync_apply_is_translation.
Proof. exact TieBisyncApply.bisync_apply_is_translation_holds. Qed.
Print Assumptions C08_apply_is_translation_of_source.

(** The four steps of one copy in the crash model ([copy_steps]: stage, data, fsync of the staging file, rename) are the
    file-system calls of bidir.rs `copy_atomic` as the source has them now, in that order and on those files
    (Gen/BisyncSysGen.v, Proofs/TieBisyncSys.v). *)
Require Copia.Proofs.TieBisyncSys.
Theorem C08_copy_steps_are_translation_of_source : TieBisyncSys.copy_atomic_is_translation.
Proof. exact TieBisyncSys.copy_atomic_is_translation_holds. Qed.
Print Assumptions C08_copy_steps_are_translation_of_source.

(** The archive steps of the crash model (stage, write, fsync, [.bak rotation iff an archive file exists], rename into
    place, fsync of the directory) are the file-system calls of archive.rs `Archive::save` as the source has them now
    (Gen/ArchiveSaveGen.v, Proofs/TieArchiveSave.v). *)
Require Copia.Proofs.TieArchiveSave.
Theorem C08_archive_steps_are_translation_of_source : TieArchiveSave.archive_save_is_translation.
Proof. exact TieArchiveSave.archive_save_is_translation_holds. Qed.
Print Assumptions C08_archive_steps_are_translation_of_source.

(** The ORDER the crash theorems above assume - every data step of the plan first, the record saved once after the last of
    them - is the translation of bidir.rs `run_bisync` as the source has it now: `apply(..)?` per plan entry in order, then
    one `arc.save(..)` (Gen/BisyncRunGen.v, Proofs/TieBisyncRun.v). *)
Require Copia.Proofs.TieBisyncRun.
Theorem C08_run_is_translation_of_source : TieBisyncRun.bisync_run_is_translation.
Proof. exact TieBisyncRun.bisync_run_is_translation_holds. Qed.
Print Assumptions C08_run_is_translation_of_source.
