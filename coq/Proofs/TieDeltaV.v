(** The model of Delta::validate IS the translation of the current source.

    Gen/DeltaVGen.v is regenerated from /repo's Rust source on every run by tools/gen_logic.py (construct by construct:
    match, if, let, early return, loops as LoopLib combinators).  Every lemma below states that a generated function
    equals, on ALL inputs, the function of the hand-written model about which the property theorems are proved.
    They are proved by case analysis / induction: when the source changes, the generated term changes and the
    lemma is re-checked against it. *)
From Coq Require Import ZArith List Bool Arith Lia.
From Copia Require Import Gen.Constants Model.LoopLib Model.Path Model.Checksum Model.Delta Gen.DeltaVGen.
Import ListNotations.
Open Scope Z_scope.

(** ** delta.rs: Delta::validate *)
Section DeltaValidate.
Variable digest : Type.
Lemma delta_validate_loop bsz ops :
  for_loop ops (fun (op : dop) (_ : unit) =>
                  match op with
                  | Copy offset len_ =>
                      let end_ := Z.min (offset + len_) 18446744073709551615 in
                      if end_ >? bsz then inr false else inl tt
                  | _ => inl tt
                  end) tt
  = if validate bsz ops then inl tt else inr false.
Proof.
  induction ops as [|op ops IH]; [reflexivity|].
  cbn [for_loop validate]. destruct op as [o l|d].
  - unfold sat_add64. change (P64 - 1) with 18446744073709551615. cbv zeta.
    rewrite Z.gtb_ltb, Z.ltb_antisym.
    destruct (Z.min (o + l) 18446744073709551615 <=? bsz); cbn [negb andb]; [exact IH|reflexivity].
  - exact IH.
Qed.
End DeltaValidate.

Lemma tie_delta_validate (digest : Type) (d : delta digest) :
  g_delta_validate digest d = validate (d_basis_size digest d) (d_ops digest d).
Proof.
  unfold g_delta_validate. rewrite delta_validate_loop.
  destruct (validate (d_basis_size digest d) (d_ops digest d)); reflexivity.
Qed.

(** ** delta.rs: Delta::push_copy / push_literal / push_literal_byte - how a delta is BUILT (both engines call them):
    a copy contiguous with the last copy extends it (unless the u32 length would overflow), a literal is appended to a
    last literal, anything else starts a new operation - with the offset and length it was given *)
Lemma tie_push_copy (ops : list dop) (off len : Z) : g_push_copy ops off len = push_copy ops off len.
Proof.
  unfold g_push_copy, push_copy. destruct ops as [|[o l|p] r]; try reflexivity.
  destruct (o + l =? off); cbn [andb]; [|reflexivity].
  destruct (Z.leb_spec (l + len) 4294967295) as [H1|H1], (Z.ltb_spec (l + len) P32) as [H2|H2]; unfold P32 in *; try reflexivity; lia.
Qed.
Lemma tie_push_literal (ops : list dop) (data : list Z) : g_push_literal ops data = push_lit ops data.
Proof. reflexivity. Qed.
Lemma tie_push_literal_byte (ops : list dop) (x : Z) : g_push_literal_byte ops x = push_lit_byte ops x.
Proof. reflexivity. Qed.

(** a new copy operation always carries exactly the offset and length of the call: what is appended to the output is
    the basis range [off, off+len) - never another range *)
Lemma push_copy_covers (ops : list dop) (off len : Z) :
  (exists r, g_push_copy ops off len = Copy off len :: r) \/
  (exists o l r, ops = Copy o l :: r /\ o + l = off /\ g_push_copy ops off len = Copy o (l + len) :: r).
Proof.
  unfold g_push_copy. destruct ops as [|[o l|p] r]; try (left; eexists; reflexivity).
  destruct (Z.eqb_spec (o + l) off) as [E|E]; [|left; eexists; reflexivity].
  destruct (l + len <=? 4294967295); [|left; eexists; reflexivity].
  right. exists o, l, r. split; [reflexivity|]. split; [exact E|reflexivity].
Qed.

Definition delta_validate_model_is_translation : Prop :=
  (forall (digest : Type) (d : delta digest), g_delta_validate digest d = validate (d_basis_size digest d) (d_ops digest d)) /\
  (forall ops off len, g_push_copy ops off len = push_copy ops off len) /\
  (forall ops data, g_push_literal ops data = push_lit ops data) /\
  (forall ops x, g_push_literal_byte ops x = push_lit_byte ops x).
Lemma delta_validate_model_is_translation_holds : delta_validate_model_is_translation.
Proof. split; [exact tie_delta_validate|]. split; [exact tie_push_copy|]. split; [exact tie_push_literal|exact tie_push_literal_byte]. Qed.
