(** The model of Delta::validate IS the translation of the current source.

    Gen/DeltaVGen.v is regenerated from /repo's Rust source on every run by tools/gen_logic.py (construct by construct:
    match, if, let, early return, loops as LoopLib combinators).  Every lemma below states that a generated function
    equals, on ALL inputs, the function of the hand-written model about which the property theorems are proved.
    They are proved by case analysis / induction: when the source changes, the generated term changes and the
    lemma is re-checked against it. *)
From Coq Require Import ZArith List Bool Arith Lia.
From Copia Require Import Gen.Constants Model.LoopLib Model.Path Model.Checksum Model.Delta Gen.DeltaVGen.
Import ListNotations.
Open Scope Z_scope.

(** ** delta.rs: Delta::validate *)
Section DeltaValidate.
Variable digest : Type.
Lemma delta_validate_loop bsz ops :
  for_loop ops (fun (op : dop) (_ : unit) =>
                  match op with
                  | Copy offset len_ =>
                      let end_ := Z.min (offset + len_) 18446744073709551615 in
                      if end_ >? bsz then inr false else inl tt
                  | _ => inl tt
                  end) tt
  = if validate bsz ops then inl tt else inr false.
Proof.
  induction ops as [|op ops IH]; [reflexivity|].
  cbn [for_loop validate]. destruct op as [o l|d].
  - unfold sat_add64. change (P64 - 1) with 18446744073709551615. cbv zeta.
    rewrite Z.gtb_ltb, Z.ltb_antisym.
    destruct (Z.min (o + l) 18446744073709551615 <=? bsz); cbn [negb andb]; [exact IH|reflexivity].
  - exact IH.
Qed.
End DeltaValidate.

Lemma tie_delta_validate (digest : Type) (d : delta digest) :
  g_delta_validate digest d = validate (d_basis_size digest d) (d_ops digest d).
Proof.
  unfold g_delta_validate. rewrite delta_validate_loop.
  destruct (validate (d_basis_size digest d) (d_ops digest d)); reflexivity.
Qed.

Definition delta_validate_model_is_translation : Prop :=
  forall (digest : Type) (d : delta digest), g_delta_validate digest d = validate (d_basis_size digest d) (d_ops digest d).
Lemma delta_validate_model_is_translation_holds : delta_validate_model_is_translation.
Proof. exact tie_delta_validate. Qed.
