(** The command a push runs on the remote side IS the translated source of transfer.rs `transfer_file_to_remote`:

      cat > $'<tmp>' && [ "$(wc -c < $'<tmp>')" -eq <size> ] && mv -f $'<tmp>' $'<dst>' [ && touch -d @<mtime> $'<dst>' ]

    where `$'<x>'` is [quoted_word x] of Model/ShellQuote.v - the two `replace` calls are [escape] - and `<tmp>` is the
    destination path with the staging suffix.  With the quoting theorem (unquote (quoted_word s) = s) every word of the
    command names the file the caller meant, whatever bytes its name contains; and the size compared is the size of the
    local file. *)
From Coq Require Import ZArith List Bool Lia.
From Copia Require Import Gen.Constants Model.LoopLib Model.Path Model.Glob Model.Plan Model.Listing Model.ShellQuote Gen.PushCommandGen.
Import ListNotations.
Open Scope Z_scope.

Lemma replace_bsl_no_sq (s : list Z) :
  replace_char 39 [92; 39] (replace_char 92 [92; 92] s) = escape s.
Proof.
  unfold replace_char. induction s as [|c s IH]; [reflexivity|].
  cbn [flat_map]. rewrite flat_map_app, IH. cbn [escape]. change BSL with 92. change SQ with 39.
  destruct (Z.eqb_spec c 92) as [E|E].
  - reflexivity.
  - cbn [flat_map app]. destruct (c =? 39); reflexivity.
Qed.

Definition staging_suffix : list Z := [46; 99; 111; 112; 105; 97; 45; 116; 109; 112].   (* ".copia-tmp" *)

Lemma escape_app (a b : list Z) : escape (a ++ b) = escape a ++ escape b.
Proof. induction a as [|c a IH]; [reflexivity|]. cbn [app escape]. destruct (c =? BSL); [|destruct (c =? SQ)]; cbn [app]; rewrite IH; reflexivity. Qed.
Lemma escape_suffix : escape staging_suffix = staging_suffix.
Proof. reflexivity. Qed.

Definition push_command (remote_path : list Z) (file_size : Z) (mtime : option Z) : list Z :=
  let tmp := quoted_word (remote_path ++ staging_suffix) in
  let dst := quoted_word remote_path in
  [99; 97; 116; 32; 62; 32] ++ tmp                                                         (* cat > T *)
  ++ [32; 38; 38; 32; 91; 32; 34; 36; 40; 119; 99; 32; 45; 99; 32; 60; 32] ++ tmp ++ [41; 34; 32; 45; 101; 113; 32] ++ dec_signed file_size ++ [32; 93]   (* && [ "$(wc -c < T)" -eq SIZE ] *)
  ++ [32; 38; 38; 32; 109; 118; 32; 45; 102; 32] ++ tmp ++ [32] ++ dst                      (* && mv -f T D *)
  ++ match mtime with
     | Some t => [32; 38; 38; 32; 116; 111; 117; 99; 104; 32; 45; 100; 32; 64] ++ dec_signed t ++ [32] ++ dst     (* && touch -d @MTIME D *)
     | None => []
     end.

Theorem tie_push_command (remote_path : list Z) (file_size : Z) (mtime : option Z) :
  g_push_command remote_path file_size mtime = push_command remote_path file_size mtime.
Proof.
  unfold g_push_command, push_command, quoted_word. cbv zeta. rewrite replace_bsl_no_sq.
  rewrite escape_app, escape_suffix. change SQ with 39. unfold staging_suffix.
  destruct mtime as [t|]; repeat rewrite <- app_assoc; cbn [app]; reflexivity.
Qed.

(** the pull streamer: `cat $'<path>'` *)
Theorem tie_pull_command (remote_path : list Z) : g_pull_command remote_path = [99; 97; 116; 32] ++ quoted_word remote_path.
Proof. unfold g_pull_command, quoted_word. cbv zeta. rewrite replace_bsl_no_sq. change SQ with 39. reflexivity. Qed.

(** the remote scan: `cd $'<root>' && find . -type f -printf '%s\t%T@\t%p\0'` - size TAB mtime TAB path NUL per regular file,
    the records [parse_listing] (tied to the source by Proofs/TieListing.v) takes apart *)
Definition find_printf : list Z :=
  [32; 38; 38; 32; 102; 105; 110; 100; 32; 46; 32; 45; 116; 121; 112; 101; 32; 102; 32; 45; 112; 114; 105; 110; 116; 102; 32;
   39; 37; 115; 92; 116; 37; 84; 64; 92; 116; 37; 112; 92; 48; 39].
Theorem tie_list_command (remote_root : list Z) : g_list_command remote_root = [99; 100; 32] ++ quoted_word remote_root ++ find_printf.
Proof. unfold g_list_command, quoted_word, find_printf. cbv zeta. rewrite replace_bsl_no_sq. change SQ with 39. repeat rewrite <- app_assoc. reflexivity. Qed.

(** the directories a push creates first: the root, then `<root>/<dir>` for every directory of the plan, NUL-terminated,
    handed to `xargs -0 mkdir -p` *)
Lemma mkdir_loop (remote_root : list Z) (dirs : list (list Z)) (acc : list Z) :
  for_loop dirs (fun dir => fun dir_list => let dir_list := dir_list ++ (remote_root ++ [47] ++ dir ++ [0]) in (inl dir_list : list Z + list Z)) acc
  = inl (acc ++ nul_list (map (fun d => remote_root ++ [47] ++ d) dirs)).
Proof.
  revert acc; induction dirs as [|d dirs IH]; intros acc; cbn [for_loop map nul_list flat_map]; [rewrite app_nil_r; reflexivity|].
  cbv zeta. rewrite IH. unfold nul_list. rewrite <- !app_assoc. reflexivity.
Qed.
Theorem tie_mkdir_list (remote_root : list Z) (dirs : list (list Z)) :
  g_mkdir_list remote_root dirs = nul_list (remote_root :: map (fun d => remote_root ++ [47] ++ d) dirs).
Proof. unfold g_mkdir_list. cbv zeta. rewrite mkdir_loop. reflexivity. Qed.

Definition push_command_is_translation : Prop :=
  (forall remote_path file_size mtime, g_push_command remote_path file_size mtime = push_command remote_path file_size mtime) /\
  (forall remote_path, g_pull_command remote_path = [99; 97; 116; 32] ++ quoted_word remote_path) /\
  (forall remote_root, g_list_command remote_root = [99; 100; 32] ++ quoted_word remote_root ++ find_printf) /\
  (forall remote_root dirs, g_mkdir_list remote_root dirs = nul_list (remote_root :: map (fun d => remote_root ++ [47] ++ d) dirs)).
Lemma push_command_is_translation_holds : push_command_is_translation.
Proof. split; [exact tie_push_command|]. split; [exact tie_pull_command|]. split; [exact tie_list_command|exact tie_mkdir_list]. Qed.

Example push_command_nonvacuous :
  firstn 12 (g_push_command [97; 39; 98] 3 None) = [99; 97; 116; 32; 62; 32; 36; 39; 97; 92; 39; 98].
Proof. vm_compute. reflexivity. Qed.
