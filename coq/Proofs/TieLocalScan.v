(** The local scan of Model/OneWay.v ([meta_of]) IS the translated source of meta.rs `mtime_secs` and
    `discover_local_with_meta`: every listed file that can be stat-ed enters the map with its size and its modification
    time in WHOLE seconds since the epoch (the sub-second part is dropped; a time before the epoch, or none, is 0); a file
    that cannot be stat-ed is skipped. *)
From Coq Require Import ZArith List Bool Lia Sorted.
From Copia Require Import Gen.Constants Model.LoopLib Model.Path Model.Glob Model.Plan Model.OneWay Proofs.PathProofs Proofs.OneWayProofs Gen.LocalScanGen.
Import ListNotations.
Open Scope Z_scope.

Definition NS : Z := 1000000000.
Definition I64MAX : Z := 9223372036854775807.

Lemma mtime_secs_spec (m : fmeta) :
  g_mtime_secs m = match modified_of m with
                   | Some ns => if 0 <=? ns then (if ns / NS <=? I64MAX then ns / NS else 0) else 0
                   | None => 0
                   end.
Proof.
  unfold g_mtime_secs, since_epoch, as_secs, NS, I64MAX. destruct (modified_of m) as [ns|]; [|reflexivity].
  destruct (0 <=? ns); [|reflexivity]. destruct (ns / 1000000000 <=? 9223372036854775807); reflexivity.
Qed.

(** whole seconds: the sub-second part never matters *)
Lemma mtime_secs_whole (sz secs frac : Z) :
  0 <= secs <= I64MAX -> 0 <= frac < NS ->
  g_mtime_secs {| size_of := sz; modified_of := Some (secs * NS + frac) |} = secs.
Proof.
  intros Hs Hf. rewrite mtime_secs_spec. cbn [modified_of]. unfold NS, I64MAX in *.
  assert (Hd : (secs * 1000000000 + frac) / 1000000000 = secs) by (rewrite Z.div_add_l by lia; rewrite Z.div_small by lia; lia).
  rewrite Hd. destruct (Z.leb_spec 0 (secs * 1000000000 + frac)); [|lia]. destruct (Z.leb_spec secs 9223372036854775807); [reflexivity|lia].
Qed.

(** ** the scan of a tree *)
Definition fm_of (frac : list Z -> Z) (p : list Z) (f : file) : fmeta :=
  {| size_of := Z.of_nat (length (f_bytes f)); modified_of := Some (f_mtime f * NS + frac p) |}.

Lemma al_insert_last {V} (k : list Z) (v : V) (m : list (list Z * V)) :
  Forall (fun a => klt path_cmp (fst a) k) m -> al_insert path_cmp k v m = m ++ [(k, v)].
Proof.
  induction m as [|[k0 v0] r IH]; intros HF; cbn [al_insert app]; [reflexivity|].
  inversion HF as [|a l Ha Hr]; subst. cbn [fst] in Ha. unfold klt in Ha.
  rewrite (law_sym _ path_cmp_lawful k k0) in Ha.
  destruct (path_cmp k k0) eqn:E; cbn [CompOpp] in Ha; try discriminate. rewrite IH by exact Hr. reflexivity.
Qed.

Lemma sorted_snoc_forall (t1 : tree) (p : list Z) (f : file) (t2 : tree) :
  tsorted (t1 ++ (p, f) :: t2) -> Forall (fun a => klt path_cmp (fst a) p) t1.
Proof.
  unfold tsorted, al_sorted. induction t1 as [|a t1 IH]; intros Hs; [constructor|].
  cbn [app] in Hs. inversion Hs as [|x l Hs' HF]; subst. constructor.
  - rewrite Forall_app in HF. destruct HF as [_ HF2]. inversion HF2; subst. assumption.
  - apply IH. exact Hs'.
Qed.

Theorem tie_discover_local_with_meta (frac : list Z -> Z) (t : tree) :
  tsorted t ->
  (forall p f, In (p, f) t -> 0 <= f_mtime f <= I64MAX /\ 0 <= frac p < NS) ->
  g_discover_local_with_meta (map fst t) (fun p => option_map (fm_of frac p) (t_get p t)) = meta_of t.
Proof.
  intros Hs Hr. unfold g_discover_local_with_meta. cbv zeta.
  assert (Hgen : forall t1 t2, t = t1 ++ t2 ->
            match for_loop (map fst t2) (fun rel => fun out =>
                    match option_map (fm_of frac rel) (t_get rel t) with
                    | Some meta0 => let out := mm_insert rel (Build_file_meta (size_of meta0) (g_mtime_secs meta0)) out in (inl out : metamap + metamap)
                    | _ => inl out
                    end) (meta_of t1) with
            | inl out => out | inr r => r end = meta_of t).
  { intros t1 t2; revert t1; induction t2 as [|[p f] t2 IH]; intros t1 Et.
    - cbn. rewrite Et, app_nil_r. reflexivity.
    - cbn [map fst for_loop].
      assert (Hin : In (p, f) t) by (rewrite Et; apply in_or_app; right; left; reflexivity).
      assert (Hg : t_get p t = Some f) by (unfold t_get; apply (al_get_in path_cmp path_cmp_lawful); [exact Hs|exact Hin]).
      rewrite Hg. cbn [option_map]. cbv zeta.
      destruct (Hr p f Hin) as [Hm Hf].
      assert (Hmt : g_mtime_secs (fm_of frac p f) = f_mtime f) by (unfold fm_of; apply mtime_secs_whole; assumption).
      rewrite Hmt. unfold fm_of. cbn [size_of].
      unfold mm_insert. rewrite al_insert_last.
      2:{ unfold meta_of. rewrite Forall_map. cbn [fst]. rewrite Et in Hs. eapply Forall_impl; [|apply (sorted_snoc_forall t1 p f t2 Hs)]. intros a Ha. exact Ha. }
      specialize (IH (t1 ++ [(p, f)])). rewrite <- app_assoc in IH. cbn [app] in IH. specialize (IH Et).
      unfold meta_of in IH at 1. rewrite map_app in IH. cbn [map fst snd] in IH. exact IH. }
  exact (Hgen [] t eq_refl).
Qed.

(** ** `set_local_mtime(path, secs)`: the file's modification time becomes exactly max(secs, 0) whole seconds after the
    epoch (when the file can be opened for writing and the time set), nothing otherwise - so a later scan reads [secs] back
    through `mtime_secs`, which is what keeps the quick check stable across runs *)
Lemma set_local_mtime_spec (o : option unit) (setm : Z -> option Z) (secs : Z) :
  g_set_local_mtime o setm secs = match o with Some _ => setm (Z.max secs 0 * NS) | None => None end.
Proof.
  unfold g_set_local_mtime, NS. cbv zeta. destruct (Z.leb_spec 0 (Z.max secs 0)) as [_|H]; [|lia].
  rewrite Z.add_0_l. destruct o; reflexivity.
Qed.

Lemma set_then_scan_reads_back (sz secs : Z) :
  0 <= secs <= I64MAX ->
  option_map (fun ns => g_mtime_secs {| size_of := sz; modified_of := Some ns |}) (g_set_local_mtime (Some tt) Some secs) = Some secs.
Proof.
  intros Hs. rewrite set_local_mtime_spec. cbn [option_map]. f_equal. rewrite Z.max_l by lia.
  rewrite <- (Z.add_0_r (secs * NS)). apply mtime_secs_whole; [exact Hs|unfold NS; lia].
Qed.

Definition local_scan_is_translation : Prop :=
  (forall sz secs frac, 0 <= secs <= I64MAX -> 0 <= frac < NS ->
     g_mtime_secs {| size_of := sz; modified_of := Some (secs * NS + frac) |} = secs) /\
  (forall m, modified_of m = None \/ (exists ns, modified_of m = Some ns /\ ns < 0) -> g_mtime_secs m = 0) /\
  (forall (frac : list Z -> Z) (t : tree), tsorted t ->
     (forall p f, In (p, f) t -> 0 <= f_mtime f <= I64MAX /\ 0 <= frac p < NS) ->
     g_discover_local_with_meta (map fst t) (fun p => option_map (fm_of frac p) (t_get p t)) = meta_of t) /\
  (forall o setm secs, g_set_local_mtime o setm secs = match o with Some _ => setm (Z.max secs 0 * NS) | None => None end) /\
  (forall sz secs, 0 <= secs <= I64MAX ->
     option_map (fun ns => g_mtime_secs {| size_of := sz; modified_of := Some ns |}) (g_set_local_mtime (Some tt) Some secs) = Some secs).
Lemma local_scan_is_translation_holds : local_scan_is_translation.
Proof.
  split; [exact mtime_secs_whole|]. split; [|split; [exact tie_discover_local_with_meta|split; [exact set_local_mtime_spec|exact set_then_scan_reads_back]]].
  intros m [Hn|(ns & Hs & Hneg)]; rewrite mtime_secs_spec; [rewrite Hn; reflexivity|].
  rewrite Hs. destruct (Z.leb_spec 0 ns); [lia|reflexivity].
Qed.
