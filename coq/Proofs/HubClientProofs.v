(** hub-sync alone lands the local tree and a second run sends nothing. *)
From stdpp Require Import gmap.
From Copia Require Import Model.Hub Model.HubClient Proofs.HubProofs.

Section P.
Context `{Countable K} {D : Type} `{EqDecision D}.
Variable Hh : list Z -> D.
Variable cname : K -> D -> K.
Variable hidden : K -> bool.
Notation content := (list Z).
Notation listing := (listing Hh hidden).
Notation sync_prog := (sync_prog Hh).
Notation seq_run := (seq_run Hh cname).
Notation hub_sync := (hub_sync Hh cname hidden).

Lemma listing_lookup t p : hidden p = false -> listing t !! p = cur_of Hh t p.
Proof. intros Hp. unfold HubClient.listing, cur_of. rewrite lookup_fmap.
  destruct (t !! p) as [c|] eqn:E.
  - rewrite (proj2 (map_filter_lookup_Some _ t p c)); [reflexivity|]. split; [assumption|exact Hp].
  - rewrite (proj2 (map_filter_lookup_None _ t p)); [reflexivity|]. left. assumption. Qed.

(** local tree as a function *)
Fixpoint lookup_local (local : list (K * content)) (p : K) : option content :=
  match local with
  | [] => None
  | (q, c) :: r => if decide (q = p) then Some c else lookup_local r p
  end.

(** Main lemma: executing the sync program from a tree [t] that agrees with the
    listed tree [t0] on all paths still to be processed commits every Put and
    yields [t] overridden by the local files. *)
Lemma sync_alone_gen (t0 : gmap K content) (local : list (K * content)) :
  NoDup (fst <$> local) -> Forall (fun kv => hidden (fst kv) = false) local ->
  (* BLAKE3 does not collide between a hub file and the local file of the same path *)
  (forall p c c', (p, c) ∈ local -> t0 !! p = Some c' -> Hh c' = Hh c -> c' = c) ->
  forall t, (forall p, p ∈ (fst <$> local) -> t !! p = t0 !! p) ->
  let '(t', rps) := seq_run t (sync_prog local (listing t0)) in
  Forall (fun rp => is_committed rp = true) rps /\
  forall p, t' !! p = match lookup_local local p with Some c => Some c | None => t !! p end.
Proof.
  induction local as [|[q c] local IH]; intros Hnd Hh' Hcf t Hag; simpl.
  - split; [constructor|reflexivity].
  - inversion Hnd as [|? ? Hq Hnd']; subst. inversion Hh' as [|? ? Hhq Hh'']; subst. simpl in Hhq.
    rewrite (listing_lookup t0 q Hhq).
    destruct (decide (cur_of Hh t0 q = Some (Hh c))) as [Eq|Ne].
    + (* skipped: the hub already holds a content with this digest *)
      specialize (IH Hnd' Hh'' ltac:(intros p c0 c' Hin; apply Hcf; set_solver) t ltac:(intros p Hp; apply Hag; simpl; set_solver)).
      destruct (seq_run t (sync_prog local (listing t0))) as [t' rps]. destruct IH as [Hc Hl].
      split; [assumption|]. intros p. rewrite Hl. destruct (decide (q = p)) as [->|Hne]; [|reflexivity].
      assert (Hnl : lookup_local local p = None).
      { clear -Hq. induction local as [|[q' c'] l IH]; simpl; [reflexivity|].
        destruct (decide (q' = p)) as [->|]; [exfalso; apply Hq; simpl; set_solver|]. apply IH. simpl in Hq. set_solver. }
      rewrite Hnl. rewrite (Hag p ltac:(simpl; set_solver)).
      unfold cur_of in Eq. destruct (t0 !! p) as [c'|] eqn:E0; [|discriminate]. simpl in Eq. injection Eq as Eq.
      f_equal. eapply Hcf; eauto. set_solver.
    + simpl. assert (Hcur : cur_of Hh t q = cur_of Hh t0 q).
      { unfold cur_of. rewrite (Hag q ltac:(simpl; set_solver)). reflexivity. }
      destruct (decide (cur_of Hh t q = cur_of Hh t0 q)) as [_|Hx]; [|contradiction].
      simpl. unfold body. cbn [concat]. rewrite !app_nil_r. specialize (IH Hnd' Hh'' ltac:(intros p c0 c' Hin; apply Hcf; set_solver) (<[q := c]> t)).
      assert (Hag' : forall p, p ∈ (fst <$> local) -> <[q := c]> t !! p = t0 !! p).
      { intros p Hp. rewrite lookup_insert_ne; [apply Hag; simpl; set_solver|]. intros ->. apply Hq. exact Hp. }
      specialize (IH Hag').
      destruct (seq_run (<[q := c]> t) (sync_prog local (listing t0))) as [t' rps]. destruct IH as [Hc Hl].
      split; [constructor; [reflexivity|assumption]|].
      intros p. rewrite Hl. destruct (decide (q = p)) as [->|Hne].
      * assert (Hnl : lookup_local local p = None).
        { clear -Hq. induction local as [|[q' c'] l IH]; simpl; [reflexivity|].
          destruct (decide (q' = p)) as [->|]; [exfalso; apply Hq; simpl; set_solver|]. apply IH. simpl in Hq. set_solver. }
        rewrite Hnl. rewrite lookup_insert. reflexivity.
      * destruct (lookup_local local p); [reflexivity|]. now rewrite lookup_insert_ne.
Qed.


Lemma lookup_local_in local p c : NoDup (fst <$> local) -> (p, c) ∈ local -> lookup_local local p = Some c.
Proof. induction local as [|[q c'] local IH]; intros Hnd Hin; [set_solver|]. simpl.
  inversion Hnd as [|? ? Hq Hnd']; subst.
  destruct (decide (q = p)) as [->|Hne].
  - apply elem_of_cons in Hin as [Heq|Hin]; [congruence|]. exfalso. apply Hq. apply elem_of_list_fmap. exists (p, c). auto.
  - apply IH; [assumption|]. set_solver. Qed.

Lemma lookup_local_none local p : p ∉ (fst <$> local) -> lookup_local local p = None.
Proof. induction local as [|[q c'] local IH]; intros Hn; simpl; [reflexivity|].
  destruct (decide (q = p)) as [->|]; [exfalso; apply Hn; simpl; set_solver|]. apply IH. simpl in Hn. set_solver. Qed.

Lemma seq_run_length t rs : length (snd (seq_run t rs)) = length rs.
Proof. revert t; induction rs as [|r rs IH]; intros t; simpl; [reflexivity|].
  destruct (spec Hh cname t r) as [t' rp]. specialize (IH t'). destruct (seq_run t' rs). simpl in *. lia. Qed.

(** hub-sync with nobody else writing *)
Theorem hubsync_alone (t : gmap K content) (local : list (K * content)) :
  NoDup (fst <$> local) -> Forall (fun kv => hidden (fst kv) = false) local ->
  (forall p c c', (p, c) ∈ local -> t !! p = Some c' -> Hh c' = Hh c -> c' = c) ->
  let r := hub_sync t local in
  exit_ok r = true /\
  (forall p c, (p, c) ∈ local -> sr_tree r !! p = Some c) /\
  (forall p, p ∉ (fst <$> local) -> sr_tree r !! p = t !! p) /\
  (sr_sent r + sr_skipped r = length local)%nat.
Proof. intros Hnd Hh' Hcf r. unfold r, HubClient.hub_sync, hub_sync_from.
  pose proof (sync_alone_gen t local Hnd Hh' Hcf t ltac:(auto)) as G.
  pose proof (seq_run_length t (sync_prog local (listing t))) as Hlen.
  destruct (seq_run t (sync_prog local (listing t))) as [t' rps]. destruct G as [Hc Hl]. simpl in Hlen.
  assert (Hall : length (filter (fun rp => is_committed rp = true) rps) = length rps).
  { clear -Hc. induction Hc as [|rp rps Hrp Hc IH]; [reflexivity|]. rewrite filter_cons. rewrite decide_True by assumption. simpl. lia. }
  assert (Hle : (length (sync_prog local (listing t)) <= length local)%nat).
  { unfold HubClient.sync_prog. clear. generalize (listing t) as L. intros L. induction local as [|[p c] l IH]; [simpl; lia|].
    cbn [omap list_omap]. destruct (decide (L !! p = Some (Hh c))); cbn [length]; lia. }
  simpl. repeat split.
  - unfold exit_ok. simpl. apply bool_decide_eq_true. lia.
  - intros p c Hin. rewrite Hl, (lookup_local_in local p c Hnd Hin). reflexivity.
  - intros p Hp. rewrite Hl, (lookup_local_none local p Hp). reflexivity.
  - lia. Qed.

(** an immediate second run sends nothing *)
Theorem hubsync_second_run_sends_nothing (t : gmap K content) (local : list (K * content)) :
  NoDup (fst <$> local) -> Forall (fun kv => hidden (fst kv) = false) local ->
  (forall p c c', (p, c) ∈ local -> t !! p = Some c' -> Hh c' = Hh c -> c' = c) ->
  sync_prog local (listing (sr_tree (hub_sync t local))) = [].
Proof. intros Hnd Hh' Hcf.
  destruct (hubsync_alone t local Hnd Hh' Hcf) as (_ & Hin & _ & _).
  set (t1 := sr_tree (hub_sync t local)) in *.
  assert (G : forall l, (forall p c, (p, c) ∈ l -> (p, c) ∈ local) -> sync_prog l (listing t1) = []).
  { induction l as [|[p c] l IH]; intros Hsub; [reflexivity|]. simpl.
    assert (Hpc : (p, c) ∈ local) by (apply Hsub; set_solver).
    assert (Hhp : hidden p = false).
    { rewrite Forall_forall in Hh'. apply (Hh' (p, c) Hpc). }
    rewrite (listing_lookup t1 p Hhp). unfold cur_of. rewrite (Hin p c Hpc). simpl.
    rewrite decide_True by reflexivity. apply IH. intros p' c' Hin'. apply Hsub. set_solver. }
  apply G. auto. Qed.

(** every request hub-sync issues is a Put whose delivered bytes match its
    declared hash and length: the hub never answers it with an Error, so under
    ANY interference each one is a logged CAS of Props/C03 *)
Theorem sync_prog_verified (local : list (K * content)) (L : gmap K D) :
  Forall (fun r => match r with
                   | Put p e d len ch => verified Hh d len (body ch) = true /\ e = L !! p /\ (exists c, (p, c) ∈ local /\ body ch = c)
                   | _ => False end) (sync_prog local L).
Proof. induction local as [|[p c] l IH]; simpl; [constructor|].
  destruct (decide (L !! p = Some (Hh c))).
  - eapply Forall_impl; [exact IH|]. intros [q e' d len ch| |]; auto. intros (A & B & c' & Hc & Hb). split; [assumption|]. split; [assumption|]. exists c'. split; [set_solver|assumption].
  - constructor.
    + unfold verified, body. cbn [concat]. rewrite app_nil_r. split; [|split; [reflexivity|exists c; split; [set_solver|reflexivity]]].
      apply andb_true_intro. split; apply bool_decide_eq_true; reflexivity.
    + eapply Forall_impl; [exact IH|]. intros [q e' d len ch| |]; auto. intros (A & B & c' & Hc & Hb). split; [assumption|]. split; [assumption|]. exists c'. split; [set_solver|assumption]. Qed.

End P.
