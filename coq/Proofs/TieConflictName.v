(** The conflict-copy name of the bisync model IS the translated source of bidir.rs: `short_hex` (and wire.rs
    `short_hash`) are the first six bytes of the digest as twelve lower-case hexadecimal digits, and the name built in
    `apply` is `<rel>.conflict-<host>-<those digits>` - [bi_cname] of Model/BisyncExec.v, the function the name-format
    theorem (C06_conflict_name_format_injective) and the executed model are about. *)
From stdpp Require Import gmap.
From Copia Require Import Model.LoopLib Model.Bisync Model.BisyncExec Model.SafeJoin Gen.ConflictNameGen.

Lemma hex2_is_model (b : Z) : hex2 b = [hexdigit (b / 16); hexdigit (b mod 16)]%Z.
Proof. reflexivity. Qed.

Lemma hex_loop (l acc : list Z) :
  for_loop l (fun b => fun out => let out := out ++ hex2 b in (inl out : list Z + list Z)) acc
  = inl (acc ++ flat_map (fun b => [hexdigit (b / 16); hexdigit (b mod 16)]%Z) l).
Proof.
  revert acc; induction l as [|b l IH]; intros acc; cbn [for_loop flat_map]; [rewrite app_nil_r; reflexivity|].
  cbv zeta. rewrite IH. rewrite <- app_assoc. reflexivity.
Qed.

Lemma tie_short_hex (h : list Z) : g_short_hex h = hex12 h.
Proof. unfold g_short_hex, hex12. cbv zeta. rewrite hex_loop. reflexivity. Qed.

Lemma tie_short_hash (h : list Z) : g_short_hash h = hex12 h.
Proof. unfold g_short_hash, hex12. cbv zeta. rewrite hex_loop. reflexivity. Qed.

Theorem tie_loser_name (rel host d : list Z) : g_loser_name rel host d = bi_cname host rel d.
Proof. unfold g_loser_name, bi_cname, conflict_infix. cbv zeta. rewrite tie_short_hex. reflexivity. Qed.

(** the hub's name for the loser of a compare-and-swap: `<dst>.conflict-<those digits>` - [conflict_name] of Model/SafeJoin.v *)
Theorem tie_hub_conflict_name (dst d : list Z) : g_hub_conflict_name dst d = SafeJoin.conflict_name dst (hex12 d).
Proof. unfold g_hub_conflict_name, SafeJoin.conflict_name, SafeJoin.conflict_infix. cbv zeta. rewrite tie_short_hash. reflexivity. Qed.

(** the hub's staging name: `<dst>.<pid>.<nanos in hex>.<seq>.copia-tmp` - the destination path followed by a suffix
    without a path separator, so a sibling of the destination, and ending in the reserved staging suffix *)
Definition staging_tail (pid nanos seq : Z) : list Z :=
  [46] ++ dec pid ++ [46] ++ hexz nanos ++ [46] ++ dec seq ++ SafeJoin.copia_tmp.

Theorem tie_staging_name (dst : list Z) (pid nanos seq : Z) :
  g_staging_name dst pid nanos seq = dst ++ staging_tail pid nanos seq.
Proof. reflexivity. Qed.

Lemma hexd_not_slash (n : Z) : 0 <= n < 16 -> hexd n <> 47.
Proof. intros Hn. unfold hexd. destruct (n <? 10) eqn:E; [apply Z.ltb_lt in E|apply Z.ltb_ge in E]; lia. Qed.

Lemma digits_no_slash (base : Z) (fuel : nat) : 2 <= base <= 16 -> forall (n : Z) (acc : list Z),
  ~ In 47 acc -> ~ In 47 (digits_aux base fuel n acc).
Proof.
  intros Hb. induction fuel as [|f IH]; intros n acc Ha; cbn [digits_aux]; [exact Ha|].
  assert (Hd : ~ In 47 (hexd (n mod base) :: acc)).
  { intros [E|E]; [|exact (Ha E)]. apply (hexd_not_slash (n mod base)); [|exact E]. pose proof (Z.mod_pos_bound n base); lia. }
  cbv zeta. destruct (n / base =? 0); [exact Hd|apply IH; exact Hd].
Qed.

Theorem staging_name_is_a_sibling (pid nanos seq : Z) : ~ In 47 (staging_tail pid nanos seq).
Proof.
  unfold staging_tail, dec, hexz, SafeJoin.copia_tmp. rewrite !in_app_iff.
  pose proof (digits_no_slash 10 (S (Z.to_nat (Z.log2 pid))) ltac:(lia) pid [] (fun x => x)) as H1.
  pose proof (digits_no_slash 16 (S (Z.to_nat (Z.log2 nanos))) ltac:(lia) nanos [] (fun x => x)) as H2.
  pose proof (digits_no_slash 10 (S (Z.to_nat (Z.log2 seq))) ltac:(lia) seq [] (fun x => x)) as H3.
  cbn [In]. intros [E|[E|[E|[E|[E|[E|E]]]]]]; try (destruct E as [E|E]; [discriminate|contradiction]); try contradiction.
  repeat (destruct E as [E|E]; [discriminate|]). contradiction.
Qed.

(** ** the create-new retry loop of `create_staging`: the staging file the server writes to was CREATED by this call
    (`create_new`: the name did not exist - a leftover of a killed server, or another server's live staging file, is
    never reused or truncated); every name tried before it existed; any other error ends the call with that error *)
Theorem create_staging_spec (fuel : nat) (open_new : list Z -> opened) (dst : list Z) (pid : Z) (nanos : Z -> Z) (seq : Z) (r : option (list Z)) :
  g_create_staging fuel open_new dst pid nanos seq = Some r ->
  exists k : nat,
    (forall j : nat, (j < k)%nat -> open_new (g_staging_name dst pid (nanos (seq + Z.of_nat j)) (seq + Z.of_nat j)) = AlreadyExists) /\
    let tmp := g_staging_name dst pid (nanos (seq + Z.of_nat k)) (seq + Z.of_nat k) in
    match r with
    | Some name => name = tmp /\ open_new tmp = Created
    | None => open_new tmp = OtherError
    end.
Proof.
  revert seq. induction fuel as [|f IH]; intros seq He; cbn [g_create_staging] in He; [discriminate|]. cbv zeta in He.
  destruct (open_new (g_staging_name dst pid (nanos seq) seq)) eqn:Eo.
  - exists O. split; [intros j Hj; lia|]. cbv zeta. rewrite Z.add_0_r. inversion He; subst. split; [reflexivity|exact Eo].
  - destruct (IH (seq + 1) He) as (k & Hbefore & Hat). exists (S k). split.
    + intros j Hj. destruct j as [|j]; [rewrite Z.add_0_r; exact Eo|].
      replace (seq + Z.of_nat (S j)) with (seq + 1 + Z.of_nat j) by lia. apply Hbefore. lia.
    + replace (seq + Z.of_nat (S k)) with (seq + 1 + Z.of_nat k) by lia. exact Hat.
  - exists O. split; [intros j Hj; lia|]. cbv zeta. rewrite Z.add_0_r. inversion He; subst. exact Eo.
Qed.

Corollary create_staging_never_reuses_a_name fuel open_new dst pid nanos seq name :
  g_create_staging fuel open_new dst pid nanos seq = Some (Some name) -> open_new name = Created.
Proof. intros He. destruct (create_staging_spec _ _ _ _ _ _ _ He) as (k & _ & Hat). cbv zeta in Hat. destruct Hat as [-> Hc]. exact Hc. Qed.

Definition conflict_name_is_translation : Prop :=
  (forall h, g_short_hex h = hex12 h) /\ (forall h, g_short_hash h = hex12 h) /\
  (forall rel host d, g_loser_name rel host d = bi_cname host rel d) /\
  (forall dst d, g_hub_conflict_name dst d = SafeJoin.conflict_name dst (hex12 d)) /\
  (forall dst pid nanos seq, exists tail, g_staging_name dst pid nanos seq = dst ++ tail /\ ~ In 47%Z tail /\
                                          exists pre, tail = pre ++ SafeJoin.copia_tmp) /\
  (forall fuel open_new dst pid nanos seq name, g_create_staging fuel open_new dst pid nanos seq = Some (Some name) ->
     open_new name = Created /\ exists k : nat, name = g_staging_name dst pid (nanos (seq + Z.of_nat k)) (seq + Z.of_nat k) /\
       forall j : nat, (j < k)%nat -> open_new (g_staging_name dst pid (nanos (seq + Z.of_nat j)) (seq + Z.of_nat j)) = AlreadyExists).
Lemma conflict_name_is_translation_holds : conflict_name_is_translation.
Proof.
  split; [exact tie_short_hex|]. split; [exact tie_short_hash|]. split; [exact tie_loser_name|]. split; [exact tie_hub_conflict_name|].
  split.
  2:{ intros fuel open_new dst pid nanos seq name He. split; [exact (create_staging_never_reuses_a_name _ _ _ _ _ _ _ He)|].
      destruct (create_staging_spec _ _ _ _ _ _ _ He) as (k & Hb & Hat). cbv zeta in Hat. destruct Hat as [Hn _]. exists k. split; [exact Hn|exact Hb]. }
  intros dst pid nanos seq. exists (staging_tail pid nanos seq). split; [apply tie_staging_name|]. split; [apply staging_name_is_a_sibling|].
  exists ([46] ++ dec pid ++ [46] ++ hexz nanos ++ [46] ++ dec seq)%Z. unfold staging_tail. rewrite <- !app_assoc. reflexivity.
Qed.

Example conflict_name_nonvacuous :
  g_loser_name [102] [104] [171; 205; 1; 35; 69; 103; 9; 9]
  = [102; 46; 99; 111; 110; 102; 108; 105; 99; 116; 45; 104; 45; 97; 98; 99; 100; 48; 49; 50; 51; 52; 53; 54; 55]%Z.
Proof. vm_compute. reflexivity. Qed.


(* a leftover under the first name: the loop moves on to the next sequence number *)
Example create_staging_nonvacuous :
  let first := g_staging_name [100] 7 5 0 in
  g_create_staging 3 (fun n => if decide (n = first) then AlreadyExists else Created) [100] 7 (fun _ => 5) 0
  = Some (Some (g_staging_name [100] 7 5 1)).
Proof. vm_compute. reflexivity. Qed.
