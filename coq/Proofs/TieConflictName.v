(** The conflict-copy name of the bisync model IS the translated source of bidir.rs: `short_hex` (and wire.rs
    `short_hash`) are the first six bytes of the digest as twelve lower-case hexadecimal digits, and the name built in
    `apply` is `<rel>.conflict-<host>-<those digits>` - [bi_cname] of Model/BisyncExec.v, the function the name-format
    theorem (C06_conflict_name_format_injective) and the executed model are about. *)
From stdpp Require Import gmap.
From Copia Require Import Model.LoopLib Model.Bisync Model.BisyncExec Model.SafeJoin Gen.ConflictNameGen.

Lemma hex2_is_model (b : Z) : hex2 b = [hexdigit (b / 16); hexdigit (b mod 16)]%Z.
Proof. reflexivity. Qed.

Lemma hex_loop (l acc : list Z) :
  for_loop l (fun b => fun out => let out := out ++ hex2 b in (inl out : list Z + list Z)) acc
  = inl (acc ++ flat_map (fun b => [hexdigit (b / 16); hexdigit (b mod 16)]%Z) l).
Proof.
  revert acc; induction l as [|b l IH]; intros acc; cbn [for_loop flat_map]; [rewrite app_nil_r; reflexivity|].
  cbv zeta. rewrite IH. rewrite <- app_assoc. reflexivity.
Qed.

Lemma tie_short_hex (h : list Z) : g_short_hex h = hex12 h.
Proof. unfold g_short_hex, hex12. cbv zeta. rewrite hex_loop. reflexivity. Qed.

Lemma tie_short_hash (h : list Z) : g_short_hash h = hex12 h.
Proof. unfold g_short_hash, hex12. cbv zeta. rewrite hex_loop. reflexivity. Qed.

Theorem tie_loser_name (rel host d : list Z) : g_loser_name rel host d = bi_cname host rel d.
Proof. unfold g_loser_name, bi_cname, conflict_infix. cbv zeta. rewrite tie_short_hex. reflexivity. Qed.

(** the hub's name for the loser of a compare-and-swap: `<dst>.conflict-<those digits>` - [conflict_name] of Model/SafeJoin.v *)
Theorem tie_hub_conflict_name (dst d : list Z) : g_hub_conflict_name dst d = SafeJoin.conflict_name dst (hex12 d).
Proof. unfold g_hub_conflict_name, SafeJoin.conflict_name, SafeJoin.conflict_infix. cbv zeta. rewrite tie_short_hash. reflexivity. Qed.

(** the hub's staging name: `<dst>.<pid>.<nanos in hex>.<seq>.copia-tmp` - the destination path followed by a suffix
    without a path separator, so a sibling of the destination, and ending in the reserved staging suffix *)
Definition staging_tail (pid nanos seq : Z) : list Z :=
  [46] ++ dec pid ++ [46] ++ hexz nanos ++ [46] ++ dec seq ++ SafeJoin.copia_tmp.

Theorem tie_staging_name (dst : list Z) (pid nanos seq : Z) :
  g_staging_name dst pid nanos seq = dst ++ staging_tail pid nanos seq.
Proof. reflexivity. Qed.

Lemma hexd_not_slash (n : Z) : 0 <= n < 16 -> hexd n <> 47.
Proof. intros Hn. unfold hexd. destruct (n <? 10) eqn:E; [apply Z.ltb_lt in E|apply Z.ltb_ge in E]; lia. Qed.

Lemma digits_no_slash (base : Z) (fuel : nat) : 2 <= base <= 16 -> forall (n : Z) (acc : list Z),
  ~ In 47 acc -> ~ In 47 (digits_aux base fuel n acc).
Proof.
  intros Hb. induction fuel as [|f IH]; intros n acc Ha; cbn [digits_aux]; [exact Ha|].
  assert (Hd : ~ In 47 (hexd (n mod base) :: acc)).
  { intros [E|E]; [|exact (Ha E)]. apply (hexd_not_slash (n mod base)); [|exact E]. pose proof (Z.mod_pos_bound n base); lia. }
  cbv zeta. destruct (n / base =? 0); [exact Hd|apply IH; exact Hd].
Qed.

Theorem staging_name_is_a_sibling (pid nanos seq : Z) : ~ In 47 (staging_tail pid nanos seq).
Proof.
  unfold staging_tail, dec, hexz, SafeJoin.copia_tmp. rewrite !in_app_iff.
  pose proof (digits_no_slash 10 (S (Z.to_nat (Z.log2 pid))) ltac:(lia) pid [] (fun x => x)) as H1.
  pose proof (digits_no_slash 16 (S (Z.to_nat (Z.log2 nanos))) ltac:(lia) nanos [] (fun x => x)) as H2.
  pose proof (digits_no_slash 10 (S (Z.to_nat (Z.log2 seq))) ltac:(lia) seq [] (fun x => x)) as H3.
  cbn [In]. intros [E|[E|[E|[E|[E|[E|E]]]]]]; try (destruct E as [E|E]; [discriminate|contradiction]); try contradiction.
  repeat (destruct E as [E|E]; [discriminate|]). contradiction.
Qed.

Definition conflict_name_is_translation : Prop :=
  (forall h, g_short_hex h = hex12 h) /\ (forall h, g_short_hash h = hex12 h) /\
  (forall rel host d, g_loser_name rel host d = bi_cname host rel d) /\
  (forall dst d, g_hub_conflict_name dst d = SafeJoin.conflict_name dst (hex12 d)) /\
  (forall dst pid nanos seq, exists tail, g_staging_name dst pid nanos seq = dst ++ tail /\ ~ In 47%Z tail /\
                                          exists pre, tail = pre ++ SafeJoin.copia_tmp).
Lemma conflict_name_is_translation_holds : conflict_name_is_translation.
Proof.
  split; [exact tie_short_hex|]. split; [exact tie_short_hash|]. split; [exact tie_loser_name|]. split; [exact tie_hub_conflict_name|].
  intros dst pid nanos seq. exists (staging_tail pid nanos seq). split; [apply tie_staging_name|]. split; [apply staging_name_is_a_sibling|].
  exists ([46] ++ dec pid ++ [46] ++ hexz nanos ++ [46] ++ dec seq)%Z. unfold staging_tail. rewrite <- !app_assoc. reflexivity.
Qed.

Example conflict_name_nonvacuous :
  g_loser_name [102] [104] [171; 205; 1; 35; 69; 103; 9; 9]
  = [102; 46; 99; 111; 110; 102; 108; 105; 99; 116; 45; 104; 45; 97; 98; 99; 100; 48; 49; 50; 51; 52; 53; 54; 55]%Z.
Proof. vm_compute. reflexivity. Qed.

