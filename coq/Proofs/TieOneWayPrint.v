(** What `sync -r --dry-run` prints, and the exit status of a run, ARE the translated source of incremental.rs
    `print_plan` / `report`: a dry run prints one `send` line per path of plan.transfer in plan order, then one `delete`
    line per path of plan.delete, and a real run prints neither; the exit status is ok exactly when no transfer failed -
    [r_exit_ok] of Model/OneWay.v. *)
From Coq Require Import ZArith List Bool Lia.
From Copia Require Import Gen.Constants Model.LoopLib Model.Path Model.Glob Model.Plan Model.OneWay Gen.OneWayPrintGen.
Import ListNotations.
Open Scope Z_scope.

Lemma tie_print_plan (plan : sync_plan) (dry : bool) :
  g_print_plan plan dry = if dry then map PSend (transfer plan) ++ map PDelete (sp_delete plan) else [].
Proof. unfold g_print_plan. destruct dry; reflexivity. Qed.

Lemma tie_report (failed : Z) (verbose : bool) : 0 <= failed -> g_report failed verbose = (failed =? 0).
Proof.
  intros Hf. unfold g_report. destruct (Z.gtb_spec failed 0) as [Hg|Hg]; symmetry; [apply Z.eqb_neq|apply Z.eqb_eq]; lia.
Qed.

(** the exit status of the model's run is the translated report on its failure count *)
Lemma report_is_model_exit (src dst : tree) (o : opts) (order : list (list Z)) (fail : list Z -> bool) (verbose : bool) :
  let r := run_oneway src dst o order fail in
  r_kind r = Ran -> r_exit_ok r = g_report (r_failed r) verbose.
Proof.
  cbv zeta. unfold run_oneway.
  destruct src as [|s0 ss]; [destruct (o_delete o); [|discriminate]|];
    (destruct (o_dry_run o); [discriminate|]);
    match goal with |- context [plan_of ?s dst o] => destruct (transfer (plan_of s dst o)); destruct (sp_delete (plan_of s dst o)) end;
    try discriminate; intros _; cbn [r_exit_ok r_failed]; rewrite tie_report by lia; reflexivity.
Qed.

Definition oneway_print_is_translation : Prop :=
  (forall plan dry, g_print_plan plan dry = if dry then map PSend (transfer plan) ++ map PDelete (sp_delete plan) else []) /\
  (forall failed verbose, 0 <= failed -> g_report failed verbose = (failed =? 0)) /\
  (forall src dst o order fail verbose, let r := run_oneway src dst o order fail in r_kind r = Ran -> r_exit_ok r = g_report (r_failed r) verbose).
Lemma oneway_print_is_translation_holds : oneway_print_is_translation.
Proof. split; [exact tie_print_plan|]. split; [exact tie_report|exact report_is_model_exit]. Qed.
