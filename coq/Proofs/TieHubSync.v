(** The client model of Model/HubClient.v IS the translated source of hub.rs `hub_sync`.

    Gen/HubSyncGen.v (regenerated on every run) is `hub_sync` read as a function of the List reply [L], the hub tree
    [t] its Puts act on (each Put goes through the CAS specification [spec] of Model/Hub.v, which Proofs/TieHubDelete.v
    ties to the translated `handle_put`), and the local fingerprints in path order.  [hub_sync_from] - the function the
    C13 theorems are about - computes the same final tree, the same three counters and the same exit status, for every
    listing (fresh or stale), tree and local tree.  In particular the listing is consulted as it was RECEIVED for every
    path: a client that refreshes it in the middle of the loop is a different function. *)
From stdpp Require Import gmap.
From Copia Require Import Model.LoopLib Model.Hub Model.HubClient Gen.HubSyncGen.

Section Tie.
Context `{Countable K} {D : Type} `{EqDecision D}.
Variable Hh : list Z -> D.
Variable cname : K -> D -> K.
Variable hidden : K -> bool.
Variable lfile : K -> list Z.
Notation content := (list Z).
Notation tree := (gmap K content).

Definition fps (l : list (K * content)) : list (K * D) := map (fun pc => (fst pc, Hh (snd pc))) l.

(** what the model's run adds to the counters *)
Definition n_sent (rps : list (@reply D)) : nat := length (filter (fun rp => is_committed rp = true) rps).

Lemma quad_eq {R : Type} (a a' : Z) (b : tree) (c c' d d' : Z) :
  a = a' -> c = c' -> d = d' -> (inl (a, b, c, d) : (Z * tree * Z * Z) + R) = inl (a', b, c', d').
Proof. intros -> -> ->. reflexivity. Qed.

Lemma loop_spec (L : gmap K D) (l : list (K * content)) :
  (forall p c, In (p, c) l -> lfile p = c) ->
  forall (t : tree) (sk se cf : Z),
  for_loop (fps l)
    (fun '(rel, fp) => fun '(skipped, t, sent, conflicts) =>
       let rel_s := rel in
       let expected := match L !! rel_s with Some f => Some f | None => None end in
       if deq_ob expected (Some fp) then (let skipped := (skipped + 1)%Z in inl (skipped, t, sent, conflicts))
       else (let '(t, committed) := cput Hh cname t rel_s expected (lfile rel) fp in
             if committed then (let sent := (sent + 1)%Z in inl (skipped, t, sent, conflicts))
             else (let conflicts := (conflicts + 1)%Z in inl (skipped, t, sent, conflicts))))
    (sk, t, se, cf)
  = (inl (let prog := sync_prog Hh l L in
          let r := seq_run Hh cname t prog in
          ((sk + Z.of_nat (length l - length prog))%Z, fst r, (se + Z.of_nat (n_sent (snd r)))%Z,
           (cf + Z.of_nat (length (snd r) - n_sent (snd r)))%Z))
     : (Z * tree * Z * Z) + (tree * (Z * Z * Z) * bool)).
Proof.
  induction l as [|[p c] l IH]; intros Hf t sk se cf.
  - cbn. rewrite !Z.add_0_r. reflexivity.
  - assert (Hp : lfile p = c) by (apply Hf; left; reflexivity).
    assert (Hf' : forall p c, In (p, c) l -> lfile p = c) by (intros q d Hq; apply Hf; right; exact Hq).
    specialize (IH Hf').
    assert (Hle : forall l', (length (sync_prog Hh l' L) <= length l')%nat).
    { intros l'. unfold sync_prog. induction l' as [|[q d] l' IHl]; cbn; [lia|]. destruct (decide _); cbn; lia. }
    unfold fps. cbn [map for_loop fst snd]. fold (fps l).
    assert (Hexp : match L !! p with Some f => Some f | None => None end = L !! p) by (destruct (L !! p); reflexivity).
    rewrite Hexp. unfold deq_ob.
    destruct (decide (L !! p = Some (Hh c))) as [Eq|Ne].
    + assert (Hs : sync_prog Hh ((p, c) :: l) L = sync_prog Hh l L).
      { unfold sync_prog. cbn [omap list_omap]. rewrite decide_True by exact Eq. reflexivity. }
      rewrite Hs. rewrite bool_decide_eq_true_2 by exact Eq. cbv zeta. rewrite IH. cbv zeta.
      specialize (Hle l). cbn [length]. apply quad_eq; lia.
    + assert (Hs : sync_prog Hh ((p, c) :: l) L = Put p (L !! p) (Hh c) (Z.of_nat (length c)) [c] :: sync_prog Hh l L).
      { unfold sync_prog. cbn [omap list_omap]. rewrite decide_False by exact Ne. reflexivity. }
      rewrite Hs. rewrite bool_decide_eq_false_2 by exact Ne.
      unfold cput. rewrite Hp. cbn [seq_run].
      destruct (spec Hh cname t (Put p (L !! p) (Hh c) (Z.of_nat (length c)) [c])) as [t1 rp] eqn:Es.
      destruct (seq_run Hh cname t1 (sync_prog Hh l L)) as [t2 rps] eqn:Er.
      cbn [fst snd length]. unfold n_sent. rewrite filter_cons.
      assert (Hn : (length (filter (fun rp => is_committed rp = true) rps) <= length rps)%nat) by apply filter_length.
      specialize (Hle l).
      destruct (is_committed rp) eqn:Ec.
      * cbv zeta. rewrite IH. cbv zeta. rewrite Er. cbn [fst snd].
        rewrite decide_True by reflexivity. cbn [length]. unfold n_sent.
        apply quad_eq; lia.
      * cbv zeta. rewrite IH. cbv zeta. rewrite Er. cbn [fst snd].
        rewrite decide_False by discriminate. unfold n_sent.
        apply quad_eq; lia.
Qed.

Theorem tie_hub_sync (tl t : tree) (l : list (K * content)) :
  (forall p c, In (p, c) l -> lfile p = c) ->
  g_hub_sync Hh cname lfile (listing Hh hidden tl) t (fps l)
  = let r := hub_sync_from Hh cname hidden tl t l in
    (sr_tree r, (Z.of_nat (sr_sent r), Z.of_nat (sr_skipped r), Z.of_nat (sr_conflicts r)), exit_ok r).
Proof.
  intros Hf. unfold g_hub_sync.
  pose proof (loop_spec (listing Hh hidden tl) l Hf t 0 0 0) as HL. cbv zeta in HL. cbv zeta. rewrite HL. clear HL.
  unfold hub_sync_from, exit_ok.
  destruct (seq_run Hh cname t (sync_prog Hh l (listing Hh hidden tl))) as [t' rps] eqn:Er.
  cbn [fst snd sr_tree sr_sent sr_skipped sr_conflicts]. fold (n_sent rps). rewrite !Z.add_0_l.
  destruct (Z.eqb_spec (Z.of_nat (length rps - n_sent rps)) 0) as [E0|E0].
  - rewrite bool_decide_eq_true_2 by lia. reflexivity.
  - rewrite bool_decide_eq_false_2 by lia. reflexivity.
Qed.

End Tie.

Definition hub_sync_is_translation : Prop :=
  forall (K : Type) (EqK : EqDecision K) (CK : Countable K) (D : Type) (EqD : EqDecision D)
         (Hh : list Z -> D) (cname : K -> D -> K) (hidden : K -> bool) (lfile : K -> list Z)
         (tl t : gmap K (list Z)) (l : list (K * list Z)),
    (forall p c, In (p, c) l -> lfile p = c) ->
    g_hub_sync Hh cname lfile (listing Hh hidden tl) t (fps Hh l)
    = let r := hub_sync_from Hh cname hidden tl t l in
      (sr_tree r, (Z.of_nat (sr_sent r), Z.of_nat (sr_skipped r), Z.of_nat (sr_conflicts r)), exit_ok r).
Lemma hub_sync_is_translation_holds : hub_sync_is_translation.
Proof. unfold hub_sync_is_translation. intros. apply tie_hub_sync. assumption. Qed.

(** the premise is satisfiable and the statement says something: a stale listing, two paths, one lost CAS *)
Example hub_sync_tie_nonvacuous :
  let cname := fun (p : nat) (d : list Z) => (100 + p)%nat in
  let lfile := fun p : nat => if Nat.eqb p 1 then [8]%Z else [3]%Z in
  let tl : gmap nat (list Z) := {[ 1%nat := [7]%Z ]} in
  let t : gmap nat (list Z) := {[ 1%nat := [6]%Z ; 2%nat := [5]%Z ]} in
  let l := [(1%nat, [8]%Z); (2%nat, [3]%Z)] in
  (forall p c, In (p, c) l -> lfile p = c) /\
  let r := g_hub_sync (fun x => x) cname lfile (listing (fun x => x) (fun _ => false) tl) t (fps (fun x => x) l) in
  (fst (fst r) !! 1%nat, fst (fst r) !! 2%nat, fst (fst r) !! 101%nat, fst (fst r) !! 102%nat, snd (fst r), snd r)
  = (Some [6]%Z, Some [5]%Z, Some [8]%Z, Some [3]%Z, (0, 0, 2)%Z, false).
Proof.
  split.
  - intros p c [E|[E|[]]]; inversion E; reflexivity.
  - vm_compute. reflexivity.
Qed.
