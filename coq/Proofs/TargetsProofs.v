(** Model/Targets.v characterised, and tied to the source: `host:path` splits at the FIRST colon; the host part is
    never empty (hub targets) / longer than one character (sync arguments) and has no slash (nor backslash). *)
From Coq Require Import ZArith List Bool Lia.
From Copia Require Import Model.LoopLib Model.Targets Gen.TargetsGen.
Import ListNotations.
Open Scope Z_scope.

Lemma findZ_some s c i : findZ s c = Some i ->
  0 <= i /\ s = firstn (Z.to_nat i) s ++ c :: skipn (Z.to_nat (i + 1)) s /\ ~ In c (firstn (Z.to_nat i) s).
Proof.
  revert i; induction s as [|x r IH]; intros i Hf; cbn [findZ] in Hf; [discriminate|].
  destruct (Z.eqb_spec x c) as [->|Hne].
  - inversion Hf; subst i. cbn. repeat split; [lia|tauto].
  - destruct (findZ r c) as [j|] eqn:Ej; [|discriminate]. inversion Hf; subst i.
    destruct (IH j eq_refl) as (Hj & Hs & Hn).
    replace (Z.to_nat (j + 1)) with (S (Z.to_nat j)) by lia.
    replace (Z.to_nat (j + 1 + 1)) with (S (Z.to_nat (j + 1))) by lia.
    cbn [firstn skipn app]. split; [lia|]. split; [f_equal; exact Hs|].
    intros [E|E]; [congruence|tauto].
Qed.

Lemma findZ_app h c r : ~ In c h -> findZ (h ++ c :: r) c = Some (Z.of_nat (length h)).
Proof.
  induction h as [|x h IH]; intros Hn; cbn [app findZ length].
  - rewrite Z.eqb_refl. reflexivity.
  - destruct (Z.eqb_spec x c) as [->|Hne]; [exfalso; apply Hn; left; reflexivity|].
    rewrite IH by (intros E; apply Hn; right; exact E). f_equal. lia.
Qed.

Lemma containsZ_false s c : containsZ s c = false <-> ~ In c s.
Proof.
  unfold containsZ. split.
  - intros Hf Hin. assert (existsb (fun x => x =? c) s = true) as Ht; [|congruence].
    apply existsb_exists. exists c. split; [exact Hin|apply Z.eqb_refl].
  - intros Hn. destruct (existsb (fun x => x =? c) s) eqn:E; [|reflexivity].
    apply existsb_exists in E as (x & Hin & Hx). apply Z.eqb_eq in Hx. subst x. contradiction.
Qed.

Lemma firstn_skipn_app_len {A} (h : list A) c r :
  firstn (length h) (h ++ c :: r) = h /\ skipn (S (length h)) (h ++ c :: r) = r.
Proof. induction h as [|x h [IH1 IH2]]; cbn [length firstn skipn app]; [tauto|]. rewrite IH1. split; [reflexivity|exact IH2]. Qed.

Theorem split_target_spec t h r :
  split_target t = Some (h, r) <-> t = h ++ COLON :: r /\ h <> [] /\ ~ In COLON h /\ ~ In SLASH h.
Proof.
  unfold split_target. split.
  - destruct (findZ t COLON) as [i|] eqn:Ef; [|discriminate].
    destruct (findZ_some _ _ _ Ef) as (Hi & Hs & Hn).
    destruct (lenZ (firstn (Z.to_nat i) t) =? 0) eqn:El; [discriminate|].
    destruct (containsZ (firstn (Z.to_nat i) t) SLASH) eqn:Ec; [discriminate|].
    cbn [orb]. intros E. inversion E; subst h r.
    split; [exact Hs|]. split; [|split; [exact Hn|apply containsZ_false; exact Ec]].
    intros E0. rewrite E0 in El. discriminate.
  - intros (-> & Hne & Hnc & Hns). rewrite findZ_app by exact Hnc.
    rewrite Nat2Z.id. replace (Z.to_nat (Z.of_nat (length h) + 1)) with (S (length h)) by lia.
    destruct (firstn_skipn_app_len h COLON r) as [-> ->].
    assert (El : (lenZ h =? 0) = false) by (unfold lenZ; apply Z.eqb_neq; destruct h; [contradiction|cbn [length]; lia]).
    rewrite El. rewrite (proj2 (containsZ_false h SLASH) Hns). reflexivity.
Qed.

Theorem parse_location_remote_spec s h p :
  parse_location s = LRemote h p <->
  s = h ++ COLON :: p /\ 1 < Z.of_nat (length h) /\ ~ In COLON h /\ ~ In SLASH h /\ ~ In BACKSLASH h.
Proof.
  unfold parse_location. split.
  - destruct (findZ s COLON) as [i|] eqn:Ef; [|discriminate].
    destruct (findZ_some _ _ _ Ef) as (Hi & Hs & Hn).
    destruct (1 <? lenZ (firstn (Z.to_nat i) s)) eqn:El; [|discriminate].
    destruct (containsZ (firstn (Z.to_nat i) s) SLASH) eqn:Ec; [discriminate|].
    destruct (containsZ (firstn (Z.to_nat i) s) BACKSLASH) eqn:Eb; [discriminate|].
    cbn [andb negb]. intros E. inversion E; subst h p.
    split; [exact Hs|]. split; [apply Z.ltb_lt in El; exact El|].
    split; [exact Hn|]. split; apply containsZ_false; assumption.
  - intros (-> & Hl & Hnc & Hns & Hnb). rewrite findZ_app by exact Hnc.
    rewrite Nat2Z.id. replace (Z.to_nat (Z.of_nat (length h) + 1)) with (S (length h)) by lia.
    destruct (firstn_skipn_app_len h COLON p) as [-> ->].
    unfold lenZ. rewrite (proj2 (Z.ltb_lt _ _) Hl).
    rewrite (proj2 (containsZ_false h SLASH) Hns), (proj2 (containsZ_false h BACKSLASH) Hnb). reflexivity.
Qed.

(** everything that is not remote is the argument itself, as a local path *)
Theorem parse_location_local s : (forall h p, parse_location s <> LRemote h p) -> parse_location s = LLocal s.
Proof.
  intros Hn. destruct (parse_location s) as [q|h p] eqn:E.
  - revert E. unfold parse_location. destruct (findZ s COLON) as [i|]; [|congruence].
    destruct (_ && _ && _); congruence.
  - exfalso. eapply Hn. reflexivity.
Qed.

(** ** the models are the translated source *)
Lemma tie_split_target t : g_split_target t = split_target t.
Proof. reflexivity. Qed.
Lemma tie_parse_location s : g_parse_location s = parse_location s.
Proof. unfold g_parse_location, parse_location, COLON, SLASH, BACKSLASH. destruct (findZ s 58); [|reflexivity]. rewrite Z.gtb_ltb. reflexivity. Qed.

Definition targets_model_is_translation : Prop :=
  (forall t, g_split_target t = split_target t) /\ (forall s, g_parse_location s = parse_location s).
Lemma targets_model_is_translation_holds : targets_model_is_translation.
Proof. split; [exact tie_split_target|exact tie_parse_location]. Qed.
