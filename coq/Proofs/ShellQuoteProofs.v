(** Proofs about Model/ShellQuote.v: every name survives the remote shell
    ($'..' quoting with [escape], decoded by bash's ANSI-C rules), NUL-terminated
    lists survive `xargs -0`, and the push command publishes only a complete
    staging file. *)
From Coq Require Import ZArith List Bool Lia.
From Copia Require Import Gen.Constants Model.ShellQuote.
Import ListNotations.
Local Open Scope Z_scope.

(** the body of the word: decoding the escaped string up to the closing quote
    gives back the string, for EVERY string (NUL or not) and every continuation *)
Lemma ansi_c_body_escape s rest : ansi_c_body (escape s ++ SQ :: rest) = Some (s, rest).
Proof. induction s as [|c r IH]; cbn [escape app].
  - cbn [ansi_c_body]. rewrite Z.eqb_refl. reflexivity.
  - destruct (c =? BSL) eqn:E1; [|destruct (c =? SQ) eqn:E2].
    + apply Z.eqb_eq in E1. subst c. cbn [app ansi_c_body].
      change (BSL =? SQ) with false. cbn match. rewrite !Z.eqb_refl. cbn [orb]. now rewrite IH.
    + apply Z.eqb_eq in E2. subst c. cbn [app ansi_c_body].
      change (BSL =? SQ) with false. cbn match. rewrite !Z.eqb_refl. change (SQ =? BSL) with false. cbn [orb]. now rewrite IH.
    + cbn [app ansi_c_body]. rewrite E1, E2. now rewrite IH.
Qed.

Lemma unquote_escape_lemma s rest : unquote_word (quoted_word s ++ rest) = Some (s, rest).
Proof. unfold quoted_word. rewrite <- !app_assoc. cbn [app]. unfold unquote_word.
  rewrite Z.eqb_refl. apply ansi_c_body_escape. Qed.

(** `xargs -0` *)
Definition nul_free (p : list Z) : Prop := ~ In 0 p.

Lemma split_nul_aux_item p : forall cur s, nul_free p ->
  split_nul_aux cur (p ++ 0 :: s) = (rev cur ++ p) :: split_nul_aux [] s.
Proof. induction p as [|c r IH]; intros cur s Hp; cbn [app split_nul_aux].
  - rewrite Z.eqb_refl, app_nil_r. reflexivity.
  - assert (E : c =? 0 = false). { apply Z.eqb_neq. intros ->. apply Hp. now left. }
    rewrite E, IH by (intros H; apply Hp; now right).
    cbn [rev]. now rewrite <- app_assoc. Qed.

Lemma xargs0_nul_list_lemma ps : Forall nul_free ps -> xargs0 (nul_list ps) = ps.
Proof. unfold xargs0, nul_list. induction 1 as [|p ps Hp _ IH]; cbn [flat_map]; [reflexivity|].
  rewrite <- app_assoc. cbn [app]. rewrite split_nul_aux_item by exact Hp. cbn [rev app]. now rewrite IH. Qed.

(** a name containing a NUL would be split - such names do not exist on Unix *)
Lemma xargs0_splits_at_nul : xargs0 (nul_list [[97; 0; 98]]) = [[97]; [98]].
Proof. vm_compute. reflexivity. Qed.

Lemma remote_push_iff size arrived : remote_push size arrived = true <-> Z.of_nat (length arrived) = size.
Proof. unfold remote_push. change (PUSH_FILE_VERIFIES_COUNT =? 1) with true. cbv iota. apply Z.eqb_eq. Qed.

(** ** The delete list of a push under a crash: only a list that arrived in full is acted upon *)
Lemma remote_delete_prefix_lemma ps arrived rest :
  Forall nul_free ps -> nul_list ps = arrived ++ rest ->
  remote_delete (Z.of_nat (length (nul_list ps))) arrived = match rest with [] => ps | _ => [] end.
Proof.
  intros Hnf Heq. unfold remote_delete. change (PUSH_DELETE_VERIFIES_COUNT =? 1) with true. cbv iota. rewrite Heq, app_length.
  destruct rest as [|c rest'].
  - rewrite app_nil_r in *. rewrite Nat.add_0_r, Z.eqb_refl, <- Heq. apply xargs0_nul_list_lemma. exact Hnf.
  - cbn [length]. destruct (Z.eqb_spec (Z.of_nat (length arrived)) (Z.of_nat (length arrived + S (length rest')))) as [E|E]; [lia|reflexivity].
Qed.

Lemma remote_delete_unchecked_counterexample :
  let ps := [[97; 98]] in
  Forall nul_free ps /\ nul_list ps = [97] ++ [98; 0] /\
  In [97] (remote_delete_unchecked [97]) /\ ~ In [97] ps.
Proof.
  cbv zeta. split; [|split; [reflexivity|split]].
  - constructor; [|constructor]. unfold nul_free. cbn. intros [H|[H|[]]]; discriminate.
  - left. reflexivity.
  - cbn. intros [H|[]]. discriminate.
Qed.
