(** Model/Bisync.v [apply] IS the translated source of bidir.rs `apply`.

    Gen/BisyncApplyGen.v is regenerated on every run: for one planned action, the list of effects the source performs
    in program order (copy_atomic / remove_file / common.insert / common.remove / conflicts.push).  Running that list
    on the model's working state (Model/BisyncEffects.v [run_effs], where a failed copy stops everything after it, as
    `?` does) gives exactly what the hand-written [apply] computes - for every action, every pair of scans and every
    working state.  So the order of the three copies of a both-changed conflict, which side's scan entry is recorded,
    the record being written AFTER the copy it describes, and deletes being applied in place are what the source says
    now. *)
From stdpp Require Import gmap.
From Copia Require Import Model.Reconcile Model.Bisync Model.BisyncEffects Gen.BisyncApplyGen.

Section Tie.
Context `{Countable K} {D : Type} `{EqDecision D}.
Variable Hh : list Z -> D.
Variable dge : D -> D -> bool.
Variable cname : K -> D -> K.

(** the bisync model's action as reconcile.rs's *)
Definition ract (x : Bisync.action) : Reconcile.action :=
  match x with
  | PropAB => PropagateAtoB | PropBA => PropagateBtoA | Converge => ConvergeIdentical
  | DelA => DeleteA | DelB => DeleteB | ConfBoth => Conflict BothChanged | ConfDelMod => Conflict DeleteVsModify
  end.

Lemma g_apply_noop p (a b : gmap K D) : g_apply dge cname p Noop a b = [].
Proof. reflexivity. Qed.

Lemma run_effs_nil (w : @work K _ _ D) : run_effs w [] = w. Proof. reflexivity. Qed.
Lemma run_effs_cons (w : @work K _ _ D) e es : run_effs w (e :: es) = run_effs (run_eff w e) es. Proof. reflexivity. Qed.

(** one effect on a literal working state *)
Lemma run_eff_err A B (C : gmap K D) n e : run_eff ({| wA := A; wB := B; wC := C; wConf := n; wErr := true |}) e = {| wA := A; wB := B; wC := C; wConf := n; wErr := true |}.
Proof. reflexivity. Qed.
Lemma run_eff_copy A B (C : gmap K D) n (fs ts : side) fp tp :
  run_eff ({| wA := A; wB := B; wC := C; wConf := n; wErr := false |}) (ECopy (fs, fp) (ts, tp)) =
  match (match fs with SA => A | SB => B end) !! fp with
  | Some c => match ts with
              | SA => {| wA := (<[tp := c]> A); wB := B; wC := C; wConf := n; wErr := false |}
              | SB => {| wA := A; wB := (<[tp := c]> B); wC := C; wConf := n; wErr := false |}
              end
  | None => {| wA := A; wB := B; wC := C; wConf := n; wErr := true |}
  end.
Proof. unfold run_eff, copy, tree_of, set_tree, fail. cbn [wErr wA wB wC wConf]. destruct fs, ts; cbn [wErr wA wB wC wConf]; destruct (_ !! fp); reflexivity. Qed.
Lemma run_eff_remove A B (C : gmap K D) n (s : side) p :
  run_eff ({| wA := A; wB := B; wC := C; wConf := n; wErr := false |}) (ERemove (s, p)) =
  match s with SA => {| wA := (delete p A); wB := B; wC := C; wConf := n; wErr := false |} | SB => {| wA := A; wB := (delete p B); wC := C; wConf := n; wErr := false |} end.
Proof. destruct s; reflexivity. Qed.
Lemma run_eff_record A B (C : gmap K D) n p d :
  run_eff ({| wA := A; wB := B; wC := C; wConf := n; wErr := false |}) (ERecord p d) = {| wA := A; wB := B; wC := (<[p := d]> C); wConf := n; wErr := false |}.
Proof. reflexivity. Qed.
Lemma run_eff_forget A B (C : gmap K D) n p :
  run_eff ({| wA := A; wB := B; wC := C; wConf := n; wErr := false |}) (EForget p) = {| wA := A; wB := B; wC := (delete p C); wConf := n; wErr := false |}.
Proof. reflexivity. Qed.
Lemma run_eff_conflict A B (C : gmap K D) n p :
  run_eff ({| wA := A; wB := B; wC := C; wConf := n; wErr := false |}) (EConflict p) = {| wA := A; wB := B; wC := C; wConf := (S n); wErr := false |}.
Proof. reflexivity. Qed.

Ltac eff_step :=
  first [ rewrite run_eff_err | rewrite run_eff_copy | rewrite run_eff_remove | rewrite run_eff_record
        | rewrite run_eff_forget | rewrite run_eff_conflict ]; cbv beta iota.
Ltac case_lookup :=
  match goal with
  | |- context [match ?m !! ?k with _ => _ end] => destruct (m !! k) eqn:?
  end; cbv beta iota.
Ltac run_all := rewrite ?run_effs_cons, ?run_effs_nil; repeat (first [eff_step | case_lookup]);
                unfold copy, fail, set_opt; cbn [wErr wA wB wC wConf]; repeat case_lookup; try reflexivity; try congruence.

(** Premises: the run has not failed so far; a conflict name differs from the path it is derived from (the real name
    appends a non-empty suffix); and the files the scans saw are still in the working trees (true throughout
    [bisync_run], whose scans are taken from the very trees it works on: a path is written, never removed, by the
    actions of OTHER paths).  The last premise matters in one place only - see [tie_apply_vanished_source] below. *)
Lemma tie_apply (a b : gmap K D) (w : work) (p : K) (act : Bisync.action) :
  wErr w = false ->
  (forall d, cname p d <> p) ->
  (is_Some (a !! p) -> is_Some (wA w !! p)) -> (is_Some (b !! p) -> is_Some (wB w !! p)) ->
  run_effs w (g_apply dge cname p (ract act) a b) = apply dge cname a b w (p, act).
Proof.
  intros Hok Hcn HA HB. destruct w as [wa wb wc wn we]. cbn in Hok. subst we. cbn [wA wB] in HA, HB.
  unfold apply. cbn [wErr].
  destruct act; cbn [ract]; unfold g_apply.
  - (* PropAB *) destruct (a !! p) eqn:Ea; cbn [app]; timeout 60 run_all.
  - (* PropBA *) destruct (b !! p) eqn:Eb; cbn [app]; timeout 60 run_all.
  - (* Converge *) destruct (a !! p) eqn:Ea; cbn [app]; timeout 60 run_all.
  - (* DelA *) cbn [app]; timeout 60 run_all.
  - (* DelB *) cbn [app]; timeout 60 run_all.
  - (* ConfBoth *)
    destruct (a !! p) as [fa|] eqn:Ea; [destruct (b !! p) as [fb|] eqn:Eb|].
    + destruct HA as [ca Hca]; [eauto|]. destruct HB as [cb Hcb]; [eauto|].
      destruct (dge fa fb) eqn:Eg; cbn [app]; rewrite ?run_effs_cons, ?run_effs_nil;
        unfold copy; cbn [wErr wA wB wC wConf];
        timeout 120 (repeat (first [eff_step | rewrite Hca | rewrite Hcb | rewrite lookup_insert_ne by apply Hcn]; cbv beta iota));
        reflexivity.
    + timeout 20 reflexivity.
    + timeout 20 (destruct (b !! p); reflexivity).
  - (* ConfDelMod *)
    destruct (a !! p) as [fa|] eqn:Ea.
    + rewrite bool_decide_eq_true_2 by eauto. cbn [app]. timeout 60 run_all.
    + rewrite (bool_decide_eq_false_2 (is_Some None)) by (intros [? ?]; discriminate).
      destruct (b !! p) as [fb|] eqn:Eb.
      * rewrite bool_decide_eq_true_2 by eauto. cbn [app]. timeout 60 run_all.
      * rewrite (bool_decide_eq_false_2 (is_Some None)) by (intros [? ?]; discriminate). reflexivity.
Qed.

(** Without the third premise the hand-written [apply] is NOT the source: when the loser's file is there but the
    winner's file has vanished from its working tree (a file removed by someone else during the run - outside the
    model's world), the source has already written the two conflict copies when the third copy fails, while
    Model/Bisync.v's [apply] reports the failure with the trees untouched.  Found by this tie; the theorems of
    C02 / C06 / C08 are about runs in which no copy fails. *)
Lemma tie_apply_vanished_source (p q : K) (fa fb : D) (l : list Z) :
  q <> p -> dge fa fb = true -> cname p fb = q ->
  let a : gmap K D := {[p := fa]} in let b : gmap K D := {[p := fb]} in
  let w := {| wA := (∅ : gmap K (list Z)); wB := {[p := l]}; wC := (∅ : gmap K D); wConf := 0; wErr := false |} in
  wB (run_effs w (g_apply dge cname p (Conflict BothChanged) a b)) !! q = Some l /\
  wB (apply dge cname a b w (p, ConfBoth)) !! q = None.
Proof.
  intros Hne Hg Hq a b w. subst a b w. unfold g_apply, apply. cbn [wErr].
  rewrite !lookup_singleton, Hg, Hq. cbn [app]. rewrite ?run_effs_cons, ?run_effs_nil. unfold copy. cbn [wErr wA wB wC wConf].
  repeat (first [eff_step | rewrite lookup_singleton | rewrite lookup_insert_ne by (intros E; apply Hne; exact E) | rewrite lookup_empty]; cbv beta iota).
  cbn [wB fail wA wC wConf]. split.
  - apply lookup_insert.
  - apply lookup_singleton_ne. intros E. apply Hne. symmetry. exact E.
Qed.
End Tie.

Definition bisync_apply_is_translation : Prop :=
  forall (K : Type) (EqK : EqDecision K) (CK : Countable K) (D : Type) (EqD : EqDecision D)
         (dge : D -> D -> bool) (cname : K -> D -> K) (a b : gmap K D) (w : work) (p : K) (act : Bisync.action),
    wErr w = false -> (forall d, cname p d <> p) ->
    (is_Some (a !! p) -> is_Some (wA w !! p)) -> (is_Some (b !! p) -> is_Some (wB w !! p)) ->
    run_effs w (g_apply dge cname p (ract act) a b) = apply dge cname a b w (p, act).
Lemma bisync_apply_is_translation_holds : bisync_apply_is_translation.
Proof. unfold bisync_apply_is_translation. intros K EqK CK D EqD dge cname a b w p act H1 H2 H3 H4. apply tie_apply; assumption. Qed.
