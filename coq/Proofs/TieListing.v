(** The listing parser of Model/Listing.v IS the translated source of meta.rs `parse_remote_meta_output`.

    Gen/ListingParseGen.v (regenerated on every run): the records between NUL bytes; an empty record is skipped; a
    record is cut at its first two TABs (the rest - the path - may contain TABs), fewer than two: skipped; the size must
    parse as a u64, else skipped; the mtime is the text before the first `.` parsed as an i64, else 0; ONE leading `./`
    is removed from the path; an empty path is skipped; a later record for the same path replaces an earlier one.
    [parse_listing] - the function the C04 / C14 theorems about remote listings use - computes the same map for every
    byte string. *)
From Coq Require Import ZArith List Bool Lia.
From Copia Require Import Gen.Constants Model.LoopLib Model.Path Model.Glob Model.Plan Model.Listing Gen.ListingParseGen.
Import ListNotations.
Open Scope Z_scope.

Lemma strip_prefix_lit_dot_slash (p : list Z) :
  match strip_prefix_lit [46; 47] p with Some v => v | None => p end = strip_dot_slash p.
Proof.
  unfold strip_dot_slash. change DOT with 46. change SLASH with 47.
  destruct p as [|a [|b r]]; cbn [strip_prefix_lit]; try reflexivity.
  - destruct (a =? 46); reflexivity.
  - destruct (a =? 46); cbn [andb]; [|reflexivity]. destruct (b =? 47); reflexivity.
Qed.

Lemma lenZ_nil {A} (l : list A) : (lenZ l =? 0) = match l with [] => true | _ => false end.
Proof. destruct l; [reflexivity|]. unfold lenZ. cbn [length]. apply Z.eqb_neq. lia. Qed.

Lemma step_spec (out : metamap) (e : list Z) :
  (if lenZ e =? 0 then (inl out : metamap + metamap)
   else let s := e in
        match splitn3 TAB s with
        | Some (size, mtime, path) =>
            match parse_u64 size with
            | Some size =>
                let mtime := match match Some (before_sep 46 mtime) with Some s => parse_i64 s | None => None end with Some v => v | None => 0 end in
                let rel := match strip_prefix_lit [46; 47] path with Some v => v | None => path end in
                if negb (lenZ rel =? 0) then (let out := mm_insert rel (Build_file_meta size mtime) out in inl out) else inl out
            | _ => inl out
            end
        | _ => inl out
        end)
  = inl (parse_step out e).
Proof.
  rewrite lenZ_nil. unfold parse_step, parse_record, splitn3. destruct e as [|x e']; [reflexivity|].
  cbv zeta. destruct (split_first TAB (x :: e')) as [[a r]|]; [|reflexivity].
  destruct (split_first TAB r) as [[b c]|]; [|reflexivity].
  destruct (parse_u64 a) as [sz|]; [|reflexivity].
  rewrite strip_prefix_lit_dot_slash. rewrite lenZ_nil. change FRAC with 46.
  destruct (strip_dot_slash c); reflexivity.
Qed.

Theorem tie_parse_listing (stdout : list Z) : g_parse_listing stdout = parse_listing stdout.
Proof.
  unfold g_parse_listing, parse_listing. change NUL with 0.
  generalize (split_on 0 stdout) as es. generalize (@nil (list Z * file_meta)) as out.
  intros out es. revert out. induction es as [|e es IH]; intros out; [reflexivity|].
  cbn [for_loop fold_left]. rewrite step_spec. apply IH.
Qed.

Definition listing_parser_is_translation : Prop := forall stdout : list Z, g_parse_listing stdout = parse_listing stdout.
Lemma listing_parser_is_translation_holds : listing_parser_is_translation.
Proof. exact tie_parse_listing. Qed.

(** both sides compute: "3\t1700000000.5\t./a\tb" NUL, a malformed record, a duplicate path *)
Example listing_tie_nonvacuous :
  g_parse_listing [51; 9; 49; 55; 46; 53; 9; 46; 47; 97; 9; 98; 0; 120; 0; 55; 9; 50; 9; 97; 9; 98; 0]
  = [([97; 9; 98], {| fm_size := 7; fm_mtime := 2 |})].
Proof. vm_compute. reflexivity. Qed.
