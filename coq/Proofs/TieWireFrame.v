(** The framing of the hub's read loop IS the translated source of wire.rs `read_frame`.

    Gen/WireFrameGen.v (regenerated on every run) is `read_frame` read as a function of the input bytes: four bytes of
    big-endian length (fewer left = clean end, nothing consumed), the MAX_FRAME test BEFORE the buffer is reserved, then
    exactly that many payload bytes (fewer = error), then the decoder on the whole payload.  One iteration of
    [Wire.loop] - the function the C12 theorems are about - is that function followed by the dispatch: the same
    bytes consumed, the same buffers reserved, the same exit. *)
From Coq Require Import ZArith List Bool Lia.
From Copia Require Import Gen.Constants Model.LoopLib Model.Wire Gen.WireFrameGen.
Import ListNotations.
Open Scope Z_scope.

Section Tie.
Variables (T request R : Type) (decode : list Z -> option request) (is_bye : request -> bool)
          (content_len : request -> Z) (handle : T -> request -> list Z -> option (T * R)).
Notation loop := (Wire.loop T request R decode is_bye content_len handle).
Notation outcome := (Wire.outcome T R).
Notation mk := (Wire.Build_outcome T R).

Definition dispatch (f : nat) (t : T) (out : list R) (allocs : list Z) (fr : fres request) : outcome :=
  match fr with
  | FEnd _ rest => mk Exit0 t out allocs rest
  | FTooBig _ rest => mk ExitError t out allocs rest
  | FShort _ a rest => mk ExitError t out (allocs ++ [a]) rest
  | FBad _ a rest => mk ExitError t out (allocs ++ [a]) rest
  | FOk _ a rq rest' =>
      if is_bye rq then mk Exit0 t out (allocs ++ [a]) rest'
      else
        let n := Z.to_nat (Z.min (Z.max 0 (content_len rq)) (Z.of_nat (length rest'))) in
        match handle t rq (firstn n rest') with
        | None => mk ExitError t out (allocs ++ [a]) (skipn n rest')
        | Some (t', reply) => loop f (skipn n rest') t' (out ++ [reply]) (allocs ++ [a])
        end
  end.


Theorem tie_read_frame (f : nat) (inp : list Z) (t : T) (out : list R) (allocs : list Z) :
  loop (S f) inp t out allocs = dispatch f t out allocs (g_read_frame request decode inp).
Proof.
  cbn [Wire.loop]. unfold g_read_frame, take_exact, lenZ.
  destruct (Z.of_nat (length inp) <? 4) eqn:E4; [reflexivity|].
  change (Z.to_nat 4) with 4%nat. cbv zeta.
  rewrite Z.gtb_ltb.
  destruct (MAX_FRAME <? be32 (firstn 4 inp)) eqn:Em; [reflexivity|].
  destruct (Z.of_nat (length (skipn 4 inp)) <? be32 (firstn 4 inp)) eqn:Es; [reflexivity|].
  destruct (decode (firstn (Z.to_nat (be32 (firstn 4 inp))) (skipn 4 inp))) as [rq|]; [|reflexivity].
  cbn [dispatch]. destruct (is_bye rq); reflexivity.
Qed.
End Tie.

Definition wire_frame_is_translation : Prop :=
  forall (T request R : Type) (decode : list Z -> option request) (is_bye : request -> bool)
         (content_len : request -> Z) (handle : T -> request -> list Z -> option (T * R))
         (f : nat) (inp : list Z) (t : T) (out : list R) (allocs : list Z),
    Wire.loop T request R decode is_bye content_len handle (S f) inp t out allocs
    = dispatch T request R decode is_bye content_len handle f t out allocs (g_read_frame request decode inp).
Lemma wire_frame_is_translation_holds : wire_frame_is_translation.
Proof. unfold wire_frame_is_translation. intros. apply tie_read_frame. Qed.

(** nothing is reserved for an oversize prefix, and never more than MAX_FRAME *)
Lemma read_frame_alloc_bounded (request : Type) (decode : list Z -> option request) (inp : list Z) :
  match g_read_frame request decode inp with
  | FShort _ a _ | FBad _ a _ | FOk _ a _ _ => a <= MAX_FRAME
  | _ => True
  end.
Proof.
  unfold g_read_frame, take_exact. destruct (lenZ inp <? 4); [exact I|]. cbv zeta. rewrite Z.gtb_ltb.
  destruct (Z.ltb_spec MAX_FRAME (be32 (firstn (Z.to_nat 4) inp))) as [Hgt|Hle]; [exact I|].
  destruct (lenZ (skipn (Z.to_nat 4) inp) <? be32 (firstn (Z.to_nat 4) inp)); [exact Hle|].
  destruct (decode _); exact Hle.
Qed.

Example read_frame_nonvacuous :
  g_read_frame (list Z) (fun p => Some p) [0; 0; 0; 2; 7; 8; 9] = FOk _ 2 [7; 8] [9] /\
  g_read_frame (list Z) (fun p => Some p) [0; 16; 0; 1; 7] = FTooBig _ [7] /\
  g_read_frame (list Z) (fun p => Some p) [0; 0; 0] = FEnd _ [0; 0; 0].
Proof. vm_compute. repeat split. Qed.
