(** Confinement lemmas for Model/SafeJoin.v. *)
From Coq Require Import ZArith List Bool Lia.
From Copia Require Import Model.SafeJoin.
Import ListNotations.
Open Scope Z_scope.

Definition noslash (s : list Z) : Prop := Forall (fun c => c <> slash) s.

Lemma split_nonempty l : split_slash l <> [].
Proof. destruct l as [|c r]; cbn [split_slash]; [discriminate|].
  destruct (c =? slash); [discriminate|]. destruct (split_slash r); discriminate. Qed.

Lemma split_app_slash a b : split_slash (a ++ slash :: b) = split_slash a ++ split_slash b.
Proof. induction a as [|c a IH]; cbn [app split_slash].
  - rewrite Z.eqb_refl. reflexivity.
  - destruct (c =? slash); [now rewrite IH|]. rewrite IH.
    pose proof (split_nonempty a) as Hn. destruct (split_slash a) as [|p ps]; [congruence|]. reflexivity. Qed.

Lemma split_noslash s : noslash s -> split_slash s = [s].
Proof. induction 1 as [|c r Hc Hr IH]; cbn [split_slash]; [reflexivity|].
  apply Z.eqb_neq in Hc. rewrite Hc, IH. reflexivity. Qed.

Lemma split_app_noslash a s : noslash s ->
  split_slash (a ++ s) = removelast (split_slash a) ++ [last (split_slash a) [] ++ s].
Proof. intros Hs. induction a as [|c a IH]; cbn [app].
  - rewrite (split_noslash s Hs). reflexivity.
  - cbn [split_slash]. destruct (c =? slash) eqn:E.
    + rewrite IH. pose proof (split_nonempty a) as Hn.
      destruct (split_slash a) as [|p ps] eqn:Ea; [congruence|]. reflexivity.
    + rewrite IH. pose proof (split_nonempty a) as Hn.
      destruct (split_slash a) as [|p ps] eqn:Ea; [congruence|].
      destruct ps as [|p2 ps2]; cbn [removelast last app]; reflexivity. Qed.

Lemma walk_app st p1 p2 : walk st (p1 ++ p2) = walk (walk st p1) p2.
Proof. revert st; induction p1 as [|p r IH]; intros st; cbn [app walk]; [reflexivity|].
  destruct (is_empty p); [apply IH|]. destruct (is_dot p); [apply IH|].
  destruct (is_dotdot p); apply IH. Qed.

Lemma walk_no_dotdot st parts : existsb is_dotdot parts = false -> exists below, walk st parts = st ++ below.
Proof. revert st; induction parts as [|p r IH]; intros st; cbn [existsb walk].
  - exists []. now rewrite app_nil_r.
  - intros Hn. apply orb_false_iff in Hn as [Hp Hr]. rewrite Hp.
    destruct (is_empty p); [now apply IH|]. destruct (is_dot p); [now apply IH|].
    destruct (IH (st ++ [p]) Hr) as [below Hb]. exists (p :: below). rewrite Hb, <- app_assoc. reflexivity. Qed.

Lemma dotdot_not_dot p : is_dotdot p = true -> is_dot p = false /\ is_empty p = false.
Proof. destruct p as [|a [|b [|c r]]]; cbn; try discriminate; auto. Qed.

Lemma comps_tail_bad parts : existsb bad_comp (comps_tail parts) = existsb is_dotdot parts.
Proof. induction parts as [|p r IH]; cbn [comps_tail existsb]; [reflexivity|].
  destruct (is_dotdot p) eqn:Edd.
  - destruct (dotdot_not_dot p Edd) as [Hd He]. rewrite He, Hd. reflexivity.
  - destruct (is_empty p); [exact IH|]. destruct (is_dot p); [exact IH|]. cbn [existsb bad_comp orb]. exact IH. Qed.

Lemma components_bad rel : is_absolute rel = false ->
  existsb bad_comp (components rel) = existsb is_dotdot (split_slash rel).
Proof. intros Ha. unfold components. rewrite Ha.
  pose proof (split_nonempty rel) as Hn. destruct (split_slash rel) as [|first r]; [congruence|].
  destruct (is_dot first) eqn:Ed.
  - cbn [app existsb bad_comp orb]. rewrite comps_tail_bad.
    assert (is_dotdot first = false) by (destruct first as [|a [|b [|c t]]]; cbn in *; try reflexivity; discriminate).
    rewrite H. reflexivity.
  - cbn [app]. rewrite comps_tail_bad. reflexivity. Qed.

(** resolution of a joined path continues from the resolution of the root *)
Lemma resolve_join root x : resolve (join root x) = walk (resolve root) (split_slash x).
Proof. unfold resolve, join. destruct (ends_with_slash root) eqn:Ee.
  - unfold ends_with_slash in Ee. destruct (rev root) as [|c r] eqn:Er; [discriminate|].
    apply Z.eqb_eq in Ee. subst c.
    assert (root = rev r ++ [slash]) by (rewrite <- (rev_involutive root), Er; reflexivity).
    rewrite H. rewrite <- !app_assoc. cbn [app].
    rewrite !split_app_slash. cbn [split_slash]. rewrite !walk_app. cbn [walk is_empty]. reflexivity.
  - cbn [app]. rewrite split_app_slash, walk_app. reflexivity. Qed.

Theorem join_confined root x : existsb is_dotdot (split_slash x) = false ->
  inside (resolve root) (resolve (join root x)).
Proof. intros Hn. rewrite resolve_join. apply walk_no_dotdot. exact Hn. Qed.

Lemma join_app root x s : join root x ++ s = join root (x ++ s).
Proof. unfold join. destruct (ends_with_slash root); rewrite <- ?app_assoc; reflexivity. Qed.

Lemma existsb_removelast {A} (f : A -> bool) l : existsb f l = false -> existsb f (removelast l) = false.
Proof. induction l as [|a l IH]; cbn [removelast existsb]; [auto|].
  intros H. apply orb_false_iff in H as [Ha Hl]. destruct l as [|b l']; [reflexivity|].
  cbn [existsb]. rewrite Ha. cbn [orb]. apply IH. exact Hl. Qed.

Lemma dotdot_len p : is_dotdot p = true -> length p = 2%nat.
Proof. destruct p as [|a [|b [|c r]]]; cbn; try discriminate; auto. Qed.

(** ** The statements of Props/C11.v *)
Lemma safe_join_refuses root rel :
  is_absolute rel = true \/ existsb is_dotdot (split_slash rel) = true -> safe_join root rel = None.
Proof. unfold safe_join. intros [Ha|Hd]; [now rewrite Ha|].
  destruct (is_absolute rel) eqn:Ea; [reflexivity|]. rewrite (components_bad rel Ea), Hd. reflexivity. Qed.

Lemma safe_join_some root rel d : safe_join root rel = Some d ->
  is_absolute rel = false /\ existsb is_dotdot (split_slash rel) = false /\ d = join root rel.
Proof. unfold safe_join. destruct (is_absolute rel) eqn:Ea; [discriminate|].
  rewrite (components_bad rel Ea). destruct (existsb is_dotdot (split_slash rel)); [discriminate|].
  intros [= <-]. auto. Qed.

Lemma safe_join_confined root rel d : safe_join root rel = Some d -> inside (resolve root) (resolve d).
Proof. intros Hs. apply safe_join_some in Hs as (_ & Hn & ->). now apply join_confined. Qed.

Lemma derived_confined root rel d s : safe_join root rel = Some d -> noslash s -> (3 <= length s)%nat ->
  inside (resolve root) (resolve (d ++ s)).
Proof. intros Hs Hns Hl. apply safe_join_some in Hs as (_ & Hn & ->).
  rewrite join_app. apply join_confined. rewrite (split_app_noslash rel s Hns).
  rewrite existsb_app. rewrite (existsb_removelast _ _ Hn). cbn [existsb orb].
  destruct (is_dotdot (last (split_slash rel) [] ++ s)) eqn:E; [|reflexivity].
  apply dotdot_len in E. rewrite app_length in E. lia. Qed.

Lemma noslash_app a b : noslash a -> noslash b -> noslash (a ++ b).
Proof. intros; apply Forall_app; auto. Qed.
Lemma noslash_copia_tmp : noslash copia_tmp.
Proof. repeat constructor; discriminate. Qed.
Lemma noslash_conflict_infix : noslash conflict_infix.
Proof. repeat constructor; discriminate. Qed.

Lemma stage_confined root rel d pid : safe_join root rel = Some d -> noslash pid ->
  inside (resolve root) (resolve (stage_name d pid)).
Proof. intros Hs Hp. unfold stage_name. apply (derived_confined root rel d _ Hs).
  - apply noslash_app; [repeat constructor; discriminate|]. apply noslash_app; [assumption|apply noslash_copia_tmp].
  - rewrite !app_length. cbn [length copia_tmp]. lia. Qed.

Lemma conflict_confined root rel d hex : safe_join root rel = Some d -> noslash hex ->
  inside (resolve root) (resolve (conflict_name d hex)).
Proof. intros Hs Hp. unfold conflict_name. apply (derived_confined root rel d _ Hs).
  - apply noslash_app; [apply noslash_conflict_infix|assumption].
  - rewrite !app_length. cbn [length conflict_infix]. lia. Qed.

(** every ancestor-or-self of a confined location is an ancestor-or-self of the root
    (which exists) or lies inside the root: create_dir_all can only create inside *)
Lemma prefix_cases (rt below x rest : list (list Z)) : rt ++ below = x ++ rest ->
  (exists r2, rt = x ++ r2) \/ inside rt x.
Proof. revert x. induction rt as [|a rt IH]; intros x Hx.
  - right. exists x. reflexivity.
  - destruct x as [|b x]; [left; eexists; reflexivity|].
    cbn [app] in Hx. injection Hx as <- Hx. destruct (IH x Hx) as [(r2 & ->)|(bl & ->)].
    + left. exists r2. reflexivity.
    + right. exists bl. reflexivity. Qed.
