(** The model of the delta scan IS the translation of src/sync.rs `CopiaSync::delta` (and of the textually identical
    `AsyncCopiaSync::delta` of src/async_sync.rs) as the source has them now.

    Gen/ScanGen.v (regenerated on every run) is `delta` read as a function of the signature and the source bytes: the
    index-based `while pos + block_size <= len` loop with its rolling checksum, the weak-then-strong lookup, the
    `continue` after a match, the literal byte and roll otherwise, and the literal tail.  [compute_delta] of
    Model/Delta.v - the list-walking function C01 / C16 are about - computes the same delta for every signature whose
    block size is the (positive) block size of the model and every source, given fuel for one iteration per source byte. *)
From Coq Require Import ZArith List Bool Arith Lia.
From Copia Require Import Gen.Constants Model.LoopLib Model.Checksum Model.Delta Gen.SigTableGen Proofs.TieSigTable Gen.ScanGen.
Import ListNotations.
Open Scope Z_scope.

Section Tie.
Variable digest : Type.
Variable H : list Z -> digest.
Variable deq : forall x y : digest, {x = y} + {x <> y}.
Variable bs : nat.
Hypothesis bs_pos : (0 < bs)%nat.
Notation bsz := (Delta.bsz bs).
Notation ddelta := (Delta.delta digest).

(** ** list facts *)
Lemma skipn_nth_cons (l : list Z) (p : nat) : (p < length l)%nat -> skipn p l = nth p l 0 :: skipn (S p) l.
Proof.
  revert p; induction l as [|x l IH]; intros p Hp; [cbn in Hp; lia|].
  destruct p as [|p]; [reflexivity|]. cbn [skipn nth]. apply IH. cbn in Hp. lia.
Qed.
Lemma tl_skipn (l : list Z) (p : nat) : tl (skipn p l) = skipn (S p) l.
Proof.
  revert p; induction l as [|x l IH]; intros p; [destruct p; reflexivity|].
  destruct p as [|p]; [reflexivity|]. cbn [skipn]. rewrite IH. reflexivity.
Qed.
Lemma skipn_skipn' (l : list Z) (a b : nat) : skipn a (skipn b l) = skipn (b + a) l.
Proof.
  revert l; induction b as [|b IH]; intros l; [reflexivity|].
  destruct l as [|x l]; [destruct a; reflexivity|]. cbn [skipn Nat.add]. apply IH.
Qed.
Lemma firstn_min (l : list Z) : firstn (Z.to_nat (Z.min bsz (lenZ l))) l = firstn bs l.
Proof.
  unfold Delta.bsz, lenZ. destruct (Z.min_spec (Z.of_nat bs) (Z.of_nat (length l))) as [[Hlt ->]|[Hge ->]].
  - rewrite Nat2Z.id. reflexivity.
  - rewrite Nat2Z.id. rewrite firstn_all. symmetry. apply firstn_all2. lia.
Qed.

(** ** one iteration, on the model's side, as a function of the position *)
Definition mstep (sg : list (bsig digest)) (src : list Z) (r : list dop) (p : nat) (st : frc) : list dop * nat * frc :=
  match lookup digest H deq bs sg st (skipn p src) with
  | Some b => (push_copy r (b_idx _ b * bsz) (w32 bsz), (p + bs)%nat,
               if Z.of_nat (p + bs) + bsz <=? lenZ src then frc_new (firstn bs (skipn (p + bs) src)) else st)
  | None => (push_lit_byte r (nth p src 0), S p,
             if Z.of_nat p + bsz <? lenZ src then frc_roll st (nth p src 0) (nth (p + bs) src 0) else st)
  end.

Definition scan_at (f : nat) (sg : list (bsig digest)) (src : list Z) (r : list dop) (p : nat) (st : frc) : list dop :=
  scan digest H deq bs f sg (skipn p src) (skipn (p + bs) src) (lenZ src - Z.of_nat p) st r.

Lemma scan_at_step f sg src r p st :
  Z.of_nat p + bsz <= lenZ src ->
  scan_at (S f) sg src r p st = let '(r', p', st') := mstep sg src r p st in scan_at f sg src r' p' st'.
Proof.
  intros Hc. unfold scan_at, mstep. cbn [scan]. unfold Delta.bsz, lenZ in *.
  assert (Hle : (Z.of_nat bs <=? Z.of_nat (length src) - Z.of_nat p) = true) by (apply Z.leb_le; lia).
  change (Delta.bsz bs) with (Z.of_nat bs). rewrite Hle.
  destruct (lookup digest H deq bs sg st (skipn p src)) as [b|].
  - cbv zeta. rewrite skipn_skipn'.
    replace (Z.of_nat (length src) - Z.of_nat p - Z.of_nat bs) with (Z.of_nat (length src) - Z.of_nat (p + bs)) by lia.
    replace (Z.of_nat bs <=? Z.of_nat (length src) - Z.of_nat (p + bs)) with (Z.of_nat (p + bs) + Z.of_nat bs <=? Z.of_nat (length src)).
    2:{ destruct (Z.leb_spec (Z.of_nat (p + bs) + Z.of_nat bs) (Z.of_nat (length src))); symmetry; [apply Z.leb_le|apply Z.leb_gt]; lia. }
    reflexivity.
  - assert (Hp : (p < length src)%nat) by lia.
    rewrite (skipn_nth_cons src p Hp). cbv zeta. rewrite tl_skipn.
    replace (Z.of_nat (length src) - Z.of_nat p - 1) with (Z.of_nat (length src) - Z.of_nat (S p)) by lia.
    replace (S p + bs)%nat with (S (p + bs)) by lia.
    destruct (Z.ltb_spec (Z.of_nat p + Z.of_nat bs) (Z.of_nat (length src))) as [Hlt|Hge].
    + rewrite (skipn_nth_cons src (p + bs)) by lia. reflexivity.
    + rewrite (skipn_all2 src (n := (p + bs)%nat)) by lia. reflexivity.
Qed.

Lemma scan_at_exit f sg src r p st :
  ~ (Z.of_nat p + bsz <= lenZ src) -> scan_at (S f) sg src r p st = push_lit r (skipn p src).
Proof.
  intros Hc. unfold scan_at. cbn [scan]. unfold Delta.bsz, lenZ in *. change (Delta.bsz bs) with (Z.of_nat bs).
  assert (Hle : (Z.of_nat bs <=? Z.of_nat (length src) - Z.of_nat p) = false) by (apply Z.leb_gt; lia).
  rewrite Hle. reflexivity.
Qed.

Lemma mstep_progress sg src r p st : let '(_, p', _) := mstep sg src r p st in (p < p')%nat.
Proof. unfold mstep. destruct (lookup _ _ _ _ _ _ _); lia. Qed.

(** ** the translated loop, generically: any condition / body that behave like [mstep] at every position *)
Section Loop.
Variable d0 : ddelta.
Variable sg : list (bsig digest).
Variable src : list Z.
Variable cond : ddelta * Z * frc -> bool.
Variable body : ddelta * Z * frc -> (ddelta * Z * frc) + ddelta.
Hypothesis cond_spec : forall r p st, cond (dset digest d0 r, Z.of_nat p, st) = (Z.of_nat p + bsz <=? lenZ src).
Hypothesis body_spec : forall r p st, Z.of_nat p + bsz <= lenZ src ->
  body (dset digest d0 r, Z.of_nat p, st) = let '(r', p', st') := mstep sg src r p st in inl (dset digest d0 r', Z.of_nat p', st').

Definition post (s : ddelta * Z * frc) : option ddelta :=
  let '(delta, pos, rolling) := s in
  if pos <? lenZ src then (let delta := dpush_lit digest delta (skipn (Z.to_nat pos) src) in Some (dfinish digest delta))
  else Some (dfinish digest delta).

Lemma loop_spec : forall f r p st, (length src - p < f)%nat ->
  match while_loop f cond body (dset digest d0 r, Z.of_nat p, st) with
  | Some (inl s) => post s
  | Some (inr x) => Some x
  | None => None
  end = Some (dset digest d0 (rev (scan_at f sg src r p st))).
Proof.
  induction f as [|f IH]; intros r p st Hf; [lia|].
  cbn [while_loop]. rewrite cond_spec.
  destruct (Z.leb_spec (Z.of_nat p + bsz) (lenZ src)) as [Hc|Hc].
  - rewrite body_spec by exact Hc. rewrite scan_at_step by exact Hc.
    pose proof (mstep_progress sg src r p st) as Hpr.
    destruct (mstep sg src r p st) as [[r' p'] st'].
    apply IH. unfold lenZ, Delta.bsz in *. lia.
  - rewrite scan_at_exit by lia. unfold post.
    unfold dpush_lit, dfinish, dset. cbn [d_ops d_block_size d_source_size d_basis_size d_checksum]. rewrite Nat2Z.id.
    destruct (Z.ltb_spec (Z.of_nat p) (lenZ src)) as [Hlt|Hge]; [reflexivity|].
    rewrite skipn_all2 by (unfold lenZ in Hge; lia). reflexivity.
Qed.
End Loop.

(** ** the translated function *)
Theorem tie_delta (sg : signature digest) (src : list Z) :
  s_block_size _ sg = bsz ->
  g_delta digest H deq (S (length src)) sg src = Some (compute_delta digest H deq bs sg src).
Proof.
  intros Hbs. set (fuel := S (length src)). unfold g_delta, compute_delta. cbv zeta. rewrite Hbs.
  destruct src as [|x0 src0] eqn:Esrc; [reflexivity|]. rewrite <- Esrc.
  assert (Hl : (lenZ src =? 0) = false) by (apply Z.eqb_neq; rewrite Esrc; unfold lenZ; cbn [length]; lia).
  rewrite Hl.
  (* the lookup table is an index of the block list (Proofs/TieSigTable.v) *)
  pose proof (fun w data => tie_table digest H deq sg w data) as HT. unfold table_of in HT.
  rewrite (proj2 (proj2 (HT 0 []))).
  destruct (s_blocks digest sg) as [|b0 bl] eqn:Esg.
  { cbn. unfold dfinish, dpush_lit, dset. cbn. rewrite Esrc. reflexivity. }
  rewrite <- Esg.
  assert (Ht : (lenZ (s_blocks digest sg) =? 0) = false) by (apply Z.eqb_neq; rewrite Esg; unfold lenZ; cbn [length]; lia).
  rewrite <- Esg in HT. rewrite Ht. rewrite firstn_min.
  set (d0 := Build_delta digest (w32 bsz) (lenZ src) (s_file_size digest sg) [] (H src)).
  match goal with
  | |- match while_loop fuel ?c ?b ?s with _ => _ end = _ =>
      pose proof (loop_spec d0 (s_blocks digest sg) src c b) as HL
  end.
  cbv beta in HL.
  assert (HL' := fun Hc Hb => HL Hc Hb fuel [] 0%nat (frc_new (firstn bs src))). clear HL.
  unfold post in HL'. cbn [Z.of_nat] in HL'. change (dset digest d0 []) with d0 in HL'.
  unfold scan_at in HL'. cbn [skipn Nat.add] in HL'. rewrite Z.sub_0_r in HL'.
  rewrite HL'; clear HL'.
  - unfold dset, d0. cbn [d_block_size d_source_size d_basis_size d_checksum]. unfold lenZ.
    rewrite Esrc. reflexivity.
  - intros r p st. reflexivity.
  - intros r p st Hc. unfold mstep, lookup.
    replace (Z.to_nat (Z.of_nat p + bsz - Z.of_nat p)) with bs by (unfold Delta.bsz; lia).
    rewrite Nat2Z.id.
    rewrite (proj1 (HT (frc_digest st) [])), (proj1 (proj2 (HT (frc_digest st) (firstn bs (skipn p src))))).
    destruct (has_weak digest (s_blocks digest sg) (frc_digest st)).
    + destruct (find_match digest H deq (s_blocks digest sg) (frc_digest st) (firstn bs (skipn p src))) as [b|].
      * unfold dpush_copy, dset. cbn [d_ops d_block_size d_source_size d_basis_size d_checksum].
        replace (Z.of_nat p + bsz) with (Z.of_nat (p + bs)) by (unfold Delta.bsz; lia).
        replace (Z.to_nat (Z.of_nat (p + bs) + bsz - Z.of_nat (p + bs))) with bs by (unfold Delta.bsz; lia).
        rewrite Nat2Z.id.
        destruct (Z.of_nat (p + bs) + bsz <=? lenZ src); reflexivity.
      * unfold dpush_lit_byte, dset, nthZ. cbn [d_ops d_block_size d_source_size d_basis_size d_checksum].
        replace (Z.of_nat p + bsz) with (Z.of_nat (p + bs)) by (unfold Delta.bsz; lia).
        rewrite !Nat2Z.id. replace (Z.of_nat p + 1) with (Z.of_nat (S p)) by lia.
        destruct (Z.of_nat (p + bs) <? lenZ src); reflexivity.
    + unfold dpush_lit_byte, dset, nthZ. cbn [d_ops d_block_size d_source_size d_basis_size d_checksum].
      replace (Z.of_nat p + bsz) with (Z.of_nat (p + bs)) by (unfold Delta.bsz; lia).
      rewrite !Nat2Z.id. replace (Z.of_nat p + 1) with (Z.of_nat (S p)) by lia.
      destruct (Z.of_nat (p + bs) <? lenZ src); reflexivity.
  - unfold fuel. rewrite Esrc. lia.
Qed.
End Tie.

(** AsyncCopiaSync::delta (the engine of `copia delta`) is, statement for statement, the same function *)
Lemma async_delta_same (digest : Type) (H : list Z -> digest) (deq : forall x y : digest, {x = y} + {x <> y})
      (fuel : nat) (sg : signature digest) (src : list Z) :
  g_async_delta digest H deq fuel sg src = g_delta digest H deq fuel sg src.
Proof. reflexivity. Qed.

Definition scan_model_is_translation : Prop :=
  forall (digest : Type) (H : list Z -> digest) (deq : forall x y : digest, {x = y} + {x <> y}) (bs : nat)
         (sg : signature digest) (src : list Z),
    (0 < bs)%nat -> s_block_size _ sg = Delta.bsz bs ->
    g_delta digest H deq (S (length src)) sg src = Some (compute_delta digest H deq bs sg src) /\
    g_async_delta digest H deq (S (length src)) sg src = Some (compute_delta digest H deq bs sg src).
Lemma scan_model_is_translation_holds : scan_model_is_translation.
Proof.
  unfold scan_model_is_translation. intros digest H deq bs sg src Hpos Hbs. split.
  - apply tie_delta; assumption.
  - rewrite async_delta_same. apply tie_delta; assumption.
Qed.

(** premises satisfiable, both sides compute: block size 2, basis "abab" (two equal blocks), source "xabab" *)
Example scan_tie_nonvacuous :
  let Hd := fun x : list Z => x in
  let dq := list_eq_dec Z.eq_dec in
  let sg := gen_signature (list Z) Hd 2 [97; 98; 97; 98] in
  (0 < 2)%nat /\ s_block_size _ sg = Delta.bsz 2 /\
  option_map (d_ops _) (g_delta (list Z) Hd dq 6 sg [120; 97; 98; 97; 98]) = Some [Lit [120]; Copy 0 2; Copy 0 2].
Proof. vm_compute. repeat split; auto. Qed.
