(** wire.rs cas_decide, translated from the current source, commits exactly when current = expected.

    Gen/CasGen.v is regenerated from /repo's Rust source on every run by tools/gen_logic.py (construct by construct:
    match, if, let, early return, loops as LoopLib combinators).  Every lemma below states that a generated function
    equals, on ALL inputs, the function of the hand-written model about which the property theorems are proved.
    They are proved by case analysis / induction: when the source changes, the generated term changes and the
    lemma is re-checked against it. *)
From Coq Require Import ZArith List Bool Arith Lia.
From Copia Require Import Gen.Constants Model.LoopLib Model.Path Gen.CasGen.
Import ListNotations.
Open Scope Z_scope.

Section WithDigest.
Variable digest : Type.
Variable deq : forall x y : digest, {x = y} + {x <> y}.

(** ** wire.rs: cas_decide commits exactly when the current hash is the expected one *)
Lemma digest_eqb_spec x y : digest_eqb digest deq x y = true <-> x = y.
Proof. unfold digest_eqb. destruct (deq x y); split; congruence. Qed.

Lemma tie_cas_decide current expected :
  g_cas_decide digest deq current expected = GCommit <-> current = expected.
Proof.
  unfold g_cas_decide, opt_eqb.
  destruct current as [c|], expected as [e|]; cbn.
  - destruct (digest_eqb digest deq c e) eqn:E.
    + apply digest_eqb_spec in E. subst. split; reflexivity.
    + split; [discriminate|]. intros Heq. inversion Heq as [Hce]. apply digest_eqb_spec in Hce. congruence.
  - split; discriminate.
  - split; discriminate.
  - split; reflexivity.
Qed.
Lemma tie_cas_decide_conflict current expected :
  g_cas_decide digest deq current expected = GConflict <-> current <> expected.
Proof.
  pose proof (tie_cas_decide current expected) as Hc.
  destruct (g_cas_decide digest deq current expected); split; intros Hx; try reflexivity; try discriminate.
  - exfalso. apply Hx. apply Hc. reflexivity.
  - intros Heq. apply Hc in Heq. discriminate.
Qed.
End WithDigest.


Definition cas_model_is_translation : Prop :=
  forall (digest : Type) (deq : forall x y : digest, {x = y} + {x <> y}) (current expected : option digest),
    (g_cas_decide digest deq current expected = GCommit <-> current = expected) /\
    (g_cas_decide digest deq current expected = GConflict <-> current <> expected).
Lemma cas_model_is_translation_holds : cas_model_is_translation.
Proof. intros digest deq c e. split; [apply tie_cas_decide|apply tie_cas_decide_conflict]. Qed.
