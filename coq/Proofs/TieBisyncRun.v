(** The run of Model/Bisync.v IS the translated source of bidir.rs `run_bisync`.

    Gen/BisyncRunGen.v (regenerated on every run) is `run_bisync` read as a function of the two trees and the recorded
    state: scan both sides, load the record, `trust_base` = a record was loaded, `base` = its entries or empty, the plan
    from `reconcile`, the dry-run exit BEFORE anything is touched (printing exactly the plan), the base pruned to paths
    present on a side, `apply(..)?` for every plan entry in order (the first I/O error leaves the function: nothing is
    saved), then the new record saved with the common map, and the exit status from the conflict count.
    [bisync_run] / [bisync_dry] - the functions C02 / C06 / C07 / C15 are about - compute the same trees, the same saved
    record, the same printed plan and the same exit status, for every state. *)
From stdpp Require Import gmap.
From Copia Require Import Model.LoopLib Model.Bisync Gen.BisyncRunGen.

Section Tie.
Context `{Countable K} {D : Type} `{EqDecision D}.
Variable Hh : list Z -> D.
Variable kle : K -> K -> bool.
Variable dge : D -> D -> bool.
Variable cname : K -> D -> K.
Notation state := (@Bisync.state K _ _ D).
Notation work := (@Bisync.work K _ _ D).
Notation apply := (Bisync.apply dge cname).

Lemma apply_sticky (a b : gmap K D) (w : work) pa : wErr w = true -> apply a b w pa = w.
Proof. intros He. unfold Bisync.apply. rewrite He. reflexivity. Qed.

Lemma foldl_sticky (a b : gmap K D) (pl : list (K * action)) (w : work) : wErr w = true -> foldl (apply a b) w pl = w.
Proof. revert w; induction pl as [|pa pl IH]; intros w He; [reflexivity|]. cbn [foldl]. rewrite apply_sticky by exact He. apply IH, He. Qed.

Lemma length_repeat_tt n : length (repeat tt n) = n.
Proof. apply repeat_length. Qed.

Definition st_of (w : work) : fs * gmap K D * list unit := ((wA w, wB w, wErr w), wC w, repeat tt (wConf w)).

Lemma apply_st_spec (a b : gmap K D) (w : work) (p : K) (act : action) :
  apply_st dge cname a b (wA w, wB w, wErr w) (wC w) (repeat tt (wConf w)) p act = st_of (apply a b w (p, act)).
Proof.
  unfold apply_st, st_of. cbn [fst snd]. rewrite length_repeat_tt. destruct w; reflexivity.
Qed.

Lemma loop_spec (a b : gmap K D) (saved : option (gmap K D)) (printed : list (K * action)) (pl : list (K * action)) :
  forall w : work, wErr w = false ->
  for_loop pl
    (fun '(path, act) => fun '(w, common, conflict_paths) =>
       let '(w, common, conflict_paths) := apply_st dge cname a b w common conflict_paths path act in
       if failed w then inr (w, saved, printed, GIoErr) else inl (w, common, conflict_paths))
    (st_of w)
  = let w' := foldl (apply a b) w pl in
    if wErr w' then inr ((wA w', wB w', true), saved, printed, GIoErr) else inl (st_of w').
Proof.
  induction pl as [|[p act] pl IH]; intros w He.
  - cbn. rewrite He. reflexivity.
  - cbn [for_loop foldl]. unfold st_of at 1. rewrite apply_st_spec. unfold st_of at 1. unfold failed. cbn [snd fst].
    destruct (wErr (apply a b w (p, act))) eqn:E1.
    + cbv zeta. rewrite foldl_sticky by exact E1. rewrite E1. reflexivity.
    + specialize (IH (apply a b w (p, act)) E1). unfold st_of in IH at 1. rewrite E1 in IH. unfold failed in IH. exact IH.
Qed.

Definition gres_of (e : Bisync.exit) : gres :=
  match e with ExitOk => GOk | ExitConflicts => GConflicts | ExitIoError => GIoErr end.

Theorem tie_run_bisync (s : state) (dry_run verbose : bool) :
  g_run_bisync Hh kle dge cname s dry_run verbose =
  if dry_run then ((tA s, tB s, false), None, snd (bisync_dry Hh kle s), GOk)
  else let '(s', e, _) := bisync_run Hh dge cname kle s in
       ((tA s', tB s', match e with ExitIoError => true | _ => false end),
        match e with ExitIoError => None | _ => arch s' end, [], gres_of e).
Proof.
  unfold g_run_bisync, bisync_dry, bisync_run, w_of, scan_of, plan_tb. cbv zeta.
  assert (Hplan : (if match arch s with Some _ => true | None => false end
                   then Some match arch s with Some z => z | None => ∅ end else None) = arch s) by (destruct (arch s); reflexivity).
  rewrite Hplan.
  destruct dry_run; [reflexivity|].
  set (a := scan Hh (tA s)). set (b := scan Hh (tB s)). set (pl := plan kle a b (arch s)).
  set (c0 := prune match arch s with Some z => z | None => ∅ end a b).
  assert (Hc0 : c0 = match arch s with Some z => prune z a b | None => ∅ end).
  { unfold c0. destruct (arch s); [reflexivity|]. unfold prune. apply map_filter_empty. }
  set (w0 := {| wA := tA s; wB := tB s; wC := c0; wConf := 0; wErr := false |}).
  change ((tA s, tB s, false), c0, @nil unit) with (st_of w0).
  pose proof (loop_spec a b None [] pl w0 eq_refl) as HL. cbv zeta in HL. rewrite HL. clear HL.
  rewrite <- Hc0. fold w0.
  destruct (wErr (foldl (apply a b) w0 pl)) eqn:Ee.
  - reflexivity.
  - unfold st_of. cbn [tA tB arch]. unfold lenZ. rewrite length_repeat_tt.
    destruct (decide (wConf (foldl (apply a b) w0 pl) = 0%nat)) as [E0|E0].
    + rewrite E0, Ee. reflexivity.
    + rewrite Ee. destruct (Z.eqb_spec (Z.of_nat (wConf (foldl (apply a b) w0 pl))) 0%Z) as [Ez|Ez]; [lia|reflexivity].
Qed.
End Tie.

Definition bisync_run_is_translation : Prop :=
  forall (K : Type) (EqK : EqDecision K) (CK : Countable K) (D : Type) (EqD : EqDecision D)
         (Hh : list Z -> D) (kle : K -> K -> bool) (dge : D -> D -> bool) (cname : K -> D -> K)
         (s : @Bisync.state K _ _ D) (dry_run verbose : bool),
    g_run_bisync Hh kle dge cname s dry_run verbose =
    if dry_run then ((tA s, tB s, false), None, snd (bisync_dry Hh kle s), GOk)
    else let '(s', e, _) := bisync_run Hh dge cname kle s in
         ((tA s', tB s', match e with ExitIoError => true | _ => false end),
          match e with ExitIoError => None | _ => arch s' end, [], gres_of e).
Lemma bisync_run_is_translation_holds : bisync_run_is_translation.
Proof. unfold bisync_run_is_translation. intros. apply tie_run_bisync. Qed.

(** both sides compute: no record, a one-sided file and a divergent one -> a copy and a conflict; a dry run prints that plan *)
Example bisync_run_tie_nonvacuous :
  let s : @Bisync.state nat _ _ (list Z) :=
    {| tA := {[ 1%nat := [7]%Z ; 2%nat := [5]%Z ]}; tB := {[ 2%nat := [6]%Z ]}; arch := None |} in
  let r := g_run_bisync (fun x => x) Nat.leb (fun x y => bool_decide (x = y) || true) (fun p _ => (100 + p)%nat) s false false in
  let d := g_run_bisync (fun x => x) Nat.leb (fun x y => true) (fun p _ => (100 + p)%nat) s true false in
  let w := fst (fst (fst r)) in
  (fst (fst w) !! 102%nat, snd (fst w) !! 1%nat, snd r, snd (fst d))
  = (Some [6]%Z, Some [7]%Z, GConflicts, [(1%nat, PropAB); (2%nat, ConfBoth)]).
Proof. vm_compute. reflexivity. Qed.
