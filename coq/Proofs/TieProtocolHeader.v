(** The frame header of Model/Protocol.v IS the translated source of src/protocol.rs `FrameHeader::{new, encode, decode,
    read_from}`: the twelve bytes in their order (magic, little-endian length, type code, version, little-endian flags),
    the conversion of the type byte BEFORE the other fields are looked at, `validate` on the assembled header, the read
    of exactly twelve bytes and the magic pre-check. *)
From Coq Require Import ZArith List Bool Lia.
From Copia Require Import Gen.Constants Model.LoopLib Model.Checksum Model.Delta Model.Bincode Model.Protocol Proofs.BincodeProofs Gen.ProtocolGen Proofs.TieProtocol Gen.ProtocolHeaderGen.
Import ListNotations.
Open Scope Z_scope.

Lemma tie_header_new t len : g_header_new t len = header_new t len.
Proof. reflexivity. Qed.

Lemma tie_header_encode checked h : g_header_encode checked h = header_encode_ck checked h.
Proof.
  unfold g_header_encode, header_encode_ck, header_encode, put_u32, put_u16. cbv zeta. cbv [put_le nthZ nth Z.to_nat Pos.to_nat Pos.iter_op Nat.add app].
  destruct checked; [|reflexivity]. cbn [andb]. destruct (h_m0 h =? 67); reflexivity.
Qed.

Lemma tie_header_decode (buf : list Z) : length buf = 12%nat -> g_header_decode buf = header_decode buf.
Proof.
  intros Hl. do 12 (destruct buf as [|? buf]; [discriminate|]). destruct buf; [|discriminate].
  unfold g_header_decode, header_decode. cbv zeta. cbv [nthZ nth Z.to_nat Pos.to_nat Pos.iter_op Nat.add le_bytes].
  rewrite tie_from_u8. destruct (from_u8 z7) as [t|]; [|reflexivity].
  rewrite tie_hvalidate. unfold mk_header. cbv [nthZ nth Z.to_nat Pos.to_nat Pos.iter_op Nat.add].
  rewrite !Z.mul_0_r, !Z.add_0_r.
  match goal with |- match hvalidate ?a with _ => _ end = match hvalidate ?b with _ => _ end => replace a with b by reflexivity end.
  destruct (hvalidate _); reflexivity.
Qed.

Lemma take_exact_get_raw (n : nat) (l : list Z) : take_exact (Z.of_nat n) l = get_raw n l.
Proof.
  unfold take_exact, lenZ. rewrite Nat2Z.id. revert l; induction n as [|n IH]; intros l.
  - cbn. destruct (Z.ltb_spec (Z.of_nat (length l)) 0); [lia|reflexivity].
  - destruct l as [|x l]; cbn [get_raw length].
    + destruct (Z.ltb_spec (Z.of_nat 0) (Z.of_nat (S n))); [reflexivity|lia].
    + rewrite <- IH. cbn [firstn skipn].
      destruct (Z.ltb_spec (Z.of_nat (S (length l))) (Z.of_nat (S n))); destruct (Z.ltb_spec (Z.of_nat (length l)) (Z.of_nat n)); try lia; reflexivity.
Qed.

Lemma get_raw_length n l b r : get_raw n l = Some (b, r) -> length b = n.
Proof.
  revert l b r; induction n as [|n IH]; intros l b r Hg; cbn [get_raw] in Hg; [inversion Hg; reflexivity|].
  destruct l as [|x l]; [discriminate|]. destruct (get_raw n l) as [[xs r']|] eqn:E; cbn in Hg; [|discriminate].
  inversion Hg; subst. cbn [length]. f_equal. eapply IH. exact E.
Qed.

Lemma tie_header_read_from (inp : list Z) : g_header_read_from inp = read_from inp.
Proof.
  unfold g_header_read_from, read_from. change HEADER_SIZE with (Z.of_nat 12). rewrite take_exact_get_raw. rewrite Nat2Z.id.
  destruct (get_raw 12 inp) as [[buf rest]|] eqn:Eg; [|reflexivity].
  pose proof (get_raw_length _ _ _ _ Eg) as Hl.
  do 12 (destruct buf as [|? buf]; [discriminate|]). destruct buf; [|discriminate].
  cbv zeta. cbv [nthZ nth Z.to_nat Pos.to_nat Pos.iter_op Nat.add].
  unfold magic_ok. cbn [list_eqb]. rewrite andb_true_r, !andb_assoc.
  match goal with |- (if negb ?c then _ else _) = _ => destruct c eqn:Em end; cbn [negb]; [|reflexivity].
  rewrite tie_header_decode by reflexivity. unfold with_rest.
  match goal with |- match ?a with _ => _ end = match ?b with _ => _ end => destruct a; reflexivity end.
Qed.

(** ** Codec::read_message *)
Lemma get_seq_u8_take (l : list Z) : forall (fuel : nat) (n : Z), (length l <= fuel)%nat ->
  get_seq get_u8 fuel n l = take_exact n l.
Proof.
  unfold take_exact, lenZ. induction l as [|x l IH]; intros fuel n Hf.
  - destruct fuel as [|f]; cbn [get_seq length Z.of_nat].
    + destruct (Z.leb_spec n 0); destruct (Z.ltb_spec 0 n); try lia; [|reflexivity].
      replace (Z.to_nat n) with 0%nat by lia. reflexivity.
    + destruct (Z.leb_spec n 0); destruct (Z.ltb_spec 0 n); try lia; [|reflexivity].
      replace (Z.to_nat n) with 0%nat by lia. reflexivity.
  - destruct fuel as [|f]; [cbn in Hf; lia|]. cbn [get_seq].
    destruct (Z.leb_spec n 0) as [Hn|Hn].
    + destruct (Z.ltb_spec (Z.of_nat (length (x :: l))) n); [cbn [length] in *; lia|].
      replace (Z.to_nat n) with 0%nat by lia. reflexivity.
    + cbn [get_u8]. cbn [length] in Hf. rewrite (IH f (n - 1)) by lia. cbn [length].
      destruct (Z.ltb_spec (Z.of_nat (length l)) (n - 1)); destruct (Z.ltb_spec (Z.of_nat (S (length l))) n); try lia; [reflexivity|].
      replace (Z.to_nat n) with (S (Z.to_nat (n - 1))) by lia. reflexivity.
Qed.

Lemma tie_read_message (utf8 : list Z -> bool) (inp : list Z) :
  g_read_message (decode_message utf8) inp = read_message utf8 inp.
Proof.
  unfold g_read_message, read_message. cbv zeta. rewrite tie_header_read_from.
  destruct (read_from inp) as [[h rest]|e]; [|reflexivity].
  rewrite tie_hvalidate. destruct (hvalidate h); [|reflexivity].
  rewrite get_seq_u8_take by lia. destruct (take_exact (h_length h) rest) as [[payload rest']|]; reflexivity.
Qed.

(** ** Codec::write_message: the payload length must fit 32 bits and the bound, then header and payload *)
Lemma tie_write_message (decode_message : list Z -> option (message * list Z)) (m : message) :
  g_write_message m = write_message m.
Proof.
  unfold g_write_message, write_message, lenZ. cbv zeta. rewrite zlen_spec. change P32 with 4294967296.
  destruct (Z.of_nat (length (encode_message m)) >=? 4294967296); cbn [orb]; [reflexivity|].
  destruct (Z.of_nat (length (encode_message m)) >? MAX_PAYLOAD_SIZE); [reflexivity|].
  rewrite tie_header_new. reflexivity.
Qed.

Definition protocol_header_is_translation : Prop :=
  (forall t len, g_header_new t len = header_new t len) /\
  (forall checked h, g_header_encode checked h = header_encode_ck checked h) /\
  (forall buf, length buf = 12%nat -> g_header_decode buf = header_decode buf) /\
  (forall inp, g_header_read_from inp = read_from inp) /\
  (forall utf8 inp, g_read_message (decode_message utf8) inp = read_message utf8 inp) /\
  (forall m, g_write_message m = write_message m).
Lemma protocol_header_is_translation_holds : protocol_header_is_translation.
Proof. split; [exact tie_header_new|]. split; [exact tie_header_encode|]. split; [exact tie_header_decode|]. split; [exact tie_header_read_from|]. split; [exact tie_read_message|exact (tie_write_message (fun _ => None))]. Qed.

Example protocol_header_nonvacuous :
  g_header_encode true (g_header_new TDeltaData 258) = Some [67; 79; 80; 65; 2; 1; 0; 0; 3; 1; 0; 0] /\
  g_header_read_from [67; 79; 80; 65; 2; 1; 0; 0; 3; 1; 0; 0; 9] = ROk (g_header_new TDeltaData 258, [9]).
Proof. vm_compute. split; reflexivity. Qed.
