(** The per-delivery step sequence of Model/OneWaySteps.v IS the translated source of incremental.rs
    deliver_local / deliver_pull.

    [pc_next] is the program-counter transition [OneWaySteps.step] performs for one delivery ([step_pc]); [pc_kind]
    names the file-system call each transition stands for; [pc_trace] is the resulting sequence of calls of one
    delivery from start to finish: open the staging file, one write per chunk, rename, set the mtime
    ([pc_trace_full]).  The call lists generated from the CURRENT source (Gen/OneWaySysGen.v), read by
    Model/OneWaySys.v [kinds_of_osys], are exactly that sequence: data goes into the staging name of the destination,
    the rename publishes that staging file onto the destination, the mtime is set on the destination afterwards. *)
From Coq Require Import ZArith List Bool Lia.
From Copia Require Import Model.OneWaySteps Model.OneWaySys Gen.OneWaySysGen.
Import ListNotations.

Section Tie.
Variable K : Type.
Variable keqb : K -> K -> bool.
Hypothesis keqb_refl : forall x, keqb x x = true.

Definition pc_next (d : delivery K) (pc : dpc) : dpc :=
  match pc with
  | NotStarted => Staging (d_chunks K d) []
  | Staging (c :: cs) acc => Staging cs (acc ++ c)
  | Staging [] _ => Renamed
  | Renamed => Finished
  | Finished => Finished
  end.

Definition pc_kind (d : delivery K) (pc : dpc) : option okind :=
  match pc with
  | NotStarted => Some KOpenStaging
  | Staging (_ :: _) _ => Some KWrite
  | Staging [] _ => Some KRename
  | Renamed => Some (KSetMtime (d_mtime K d))
  | Finished => None
  end.

Lemma nth_error_set_nth {A} (l : list A) i x y : nth_error l i = Some y -> nth_error (set_nth i x l) i = Some x.
Proof. revert i; induction l as [|a l IH]; intros [|i] Hn; cbn in *; try discriminate; [reflexivity|]. apply IH. exact Hn. Qed.

(** [step] moves the scheduled delivery's program counter by [pc_next] *)
Lemma step_pc (ds : list (delivery K)) (s : sys K) i d pc :
  nth_error ds i = Some d -> nth_error (s_pcs K s) i = Some pc ->
  nth_error (s_pcs K (step K keqb ds s i)) i = Some (pc_next d pc).
Proof.
  intros Hd Hpc. unfold step. rewrite Hd, Hpc.
  destruct pc as [|[|c cs] acc| |]; cbn [s_pcs pc_next]; try (eapply nth_error_set_nth; exact Hpc). exact Hpc.
Qed.

Fixpoint pc_trace (fuel : nat) (d : delivery K) (pc : dpc) : list okind :=
  match fuel with
  | O => []
  | S f => match pc_kind d pc with Some k => k :: pc_trace f d (pc_next d pc) | None => [] end
  end.

Lemma pc_trace_finished d f : pc_trace f d Finished = [].
Proof. destruct f; reflexivity. Qed.

Lemma pc_trace_writes d : forall cs acc f, (length cs + 2 <= f)%nat ->
  pc_trace f d (Staging cs acc) = repeat KWrite (length cs) ++ [KRename; KSetMtime (d_mtime K d)].
Proof.
  induction cs as [|c cs IH]; intros acc f Hf.
  - destruct f as [|[|f]]; cbn in Hf; try lia. cbn [pc_trace pc_kind pc_next length repeat app]. rewrite pc_trace_finished. reflexivity.
  - destruct f as [|f]; cbn in Hf; [lia|]. cbn [pc_trace pc_kind pc_next length repeat app]. rewrite IH by lia. reflexivity.
Qed.

Lemma pc_trace_full d f : (length (d_chunks K d) + 3 <= f)%nat ->
  pc_trace f d NotStarted = KOpenStaging :: repeat KWrite (length (d_chunks K d)) ++ [KRename; KSetMtime (d_mtime K d)].
Proof. intros Hf. destruct f as [|f]; [lia|]. cbn [pc_trace pc_kind pc_next]. rewrite pc_trace_writes by lia. reflexivity. Qed.

Lemma tie_tmp_path (p : K) : g_tmp_path (OLive p) = OStaging p.
Proof. reflexivity. Qed.

Lemma tie_deliver_local (src : opath) (d : delivery K) f : (length (d_chunks K d) + 3 <= f)%nat ->
  kinds_of_osys keqb (d_path K d) (length (d_chunks K d)) (g_deliver_local src (OLive (d_path K d)) (Some (d_mtime K d)))
  = Some (pc_trace f d NotStarted).
Proof.
  intros Hf. rewrite pc_trace_full by exact Hf. unfold g_deliver_local. rewrite tie_tmp_path. cbn [app kinds_of_osys].
  rewrite !keqb_refl. reflexivity.
Qed.

Lemma tie_deliver_pull (host remote : list Z) (d : delivery K) f : (length (d_chunks K d) + 3 <= f)%nat ->
  kinds_of_osys keqb (d_path K d) (length (d_chunks K d)) (g_deliver_pull host remote (OLive (d_path K d)) (Some (d_mtime K d)))
  = Some (pc_trace f d NotStarted).
Proof.
  intros Hf. rewrite pc_trace_full by exact Hf. unfold g_deliver_pull. rewrite tie_tmp_path. cbn [app kinds_of_osys].
  rewrite !keqb_refl. reflexivity.
Qed.
End Tie.

Definition oneway_delivery_is_translation : Prop :=
  forall (K : Type) (keqb : K -> K -> bool), (forall x, keqb x x = true) ->
  (forall (ds : list (delivery K)) (s : sys K) i d pc, nth_error ds i = Some d -> nth_error (s_pcs K s) i = Some pc ->
     nth_error (s_pcs K (step K keqb ds s i)) i = Some (pc_next K d pc)) /\
  (forall (src : opath) (host remote : list Z) (d : delivery K) f, (length (d_chunks K d) + 3 <= f)%nat ->
     kinds_of_osys keqb (d_path K d) (length (d_chunks K d)) (g_deliver_local src (OLive (d_path K d)) (Some (d_mtime K d))) = Some (pc_trace K f d NotStarted) /\
     kinds_of_osys keqb (d_path K d) (length (d_chunks K d)) (g_deliver_pull host remote (OLive (d_path K d)) (Some (d_mtime K d))) = Some (pc_trace K f d NotStarted)).
Lemma oneway_delivery_is_translation_holds : oneway_delivery_is_translation.
Proof.
  intros K keqb Hr. split.
  - intros ds s i d pc. apply step_pc.
  - intros src host remote d f Hf. split; [apply tie_deliver_local|apply tie_deliver_pull]; assumption.
Qed.
