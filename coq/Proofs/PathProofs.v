(** Proofs about Model/Path.v: [path_cmp] is a lawful comparison (a strict weak
    order whose equivalence is "same components"), and the generic facts about
    sorted association lists, the stable sort and dedup used by the planner, the
    listing parser and the reconciler. *)
From Coq Require Import ZArith List Bool Lia Sorted Permutation.
From Copia Require Import Model.Path.
Import ListNotations.

(** ** Lawful comparisons *)
Record lawful {K : Type} (cmp : K -> K -> comparison) : Prop := {
  law_refl : forall x, cmp x x = Eq;
  law_sym : forall x y, cmp y x = CompOpp (cmp x y);
  law_trans : forall x y z, cmp x y = Lt -> cmp y z = Lt -> cmp x z = Lt;
  law_eq : forall x y z, cmp x y = Eq -> cmp x z = cmp y z
}.

Section Laws.
Context {K : Type} (cmp : K -> K -> comparison) (L : lawful cmp).

Definition klt (x y : K) : Prop := cmp x y = Lt.
Definition kle (x y : K) : Prop := cmp x y <> Gt.

Lemma cmp_eq_sym x y : cmp x y = Eq -> cmp y x = Eq.
Proof. intros H. rewrite (law_sym _ L x y), H. reflexivity. Qed.
Lemma cmp_eq_r x y z : cmp y z = Eq -> cmp x y = cmp x z.
Proof. intros H. rewrite (law_sym _ L y x), (law_sym _ L z x). f_equal. now apply (law_eq _ L). Qed.
Lemma cmp_gt_lt x y : cmp x y = Gt <-> cmp y x = Lt.
Proof. rewrite (law_sym _ L x y). destruct (cmp x y); simpl; split; congruence. Qed.
Lemma klt_irrefl x : ~ klt x x.
Proof. unfold klt. rewrite (law_refl _ L). discriminate. Qed.
Lemma kle_trans x y z : kle x y -> kle y z -> kle x z.
Proof. unfold kle. intros H1 H2.
  destruct (cmp x y) eqn:E1; [| |congruence].
  - rewrite (law_eq _ L x y z E1). exact H2.
  - destruct (cmp y z) eqn:E2; [| |congruence].
    + rewrite <- (cmp_eq_r x y z E2), E1. discriminate.
    + rewrite (law_trans _ L x y z E1 E2). discriminate.
Qed.
Lemma klt_le_trans x y z : klt x y -> kle y z -> klt x z.
Proof. unfold klt, kle. intros H1 H2. destruct (cmp y z) eqn:E2; [| |congruence].
  - now rewrite <- (cmp_eq_r x y z E2).
  - now apply (law_trans _ L x y z).
Qed.
Lemma keq_true x y : keq cmp x y = true <-> cmp x y = Eq.
Proof. unfold keq. destruct (cmp x y); split; congruence. Qed.
Lemma keq_refl x : keq cmp x x = true.
Proof. apply keq_true, (law_refl _ L). Qed.

(** ** The stable sort *)
Lemma sort_insert_perm k l : Permutation (sort_insert cmp k l) (k :: l).
Proof. induction l as [|k' r IH]; cbn [sort_insert]; [reflexivity|].
  destruct (cmp k k'); try reflexivity.
  rewrite IH. apply perm_swap. Qed.
Lemma sort_keys_perm l : Permutation (sort_keys cmp l) l.
Proof. induction l as [|k l IH]; cbn [sort_keys fold_right]; [reflexivity|].
  fold (sort_keys cmp l). rewrite sort_insert_perm. now constructor. Qed.
Lemma sort_keys_in x l : In x (sort_keys cmp l) <-> In x l.
Proof. split; apply Permutation_in; [|symmetry]; apply sort_keys_perm. Qed.

Lemma sort_insert_sorted_id k l : StronglySorted klt (k :: l) -> sort_insert cmp k l = k :: l.
Proof. intros H. destruct l as [|k' r]; [reflexivity|]. cbn [sort_insert].
  inversion H as [|? ? _ HF]; subst. inversion HF as [|? ? Hk _]; subst. unfold klt in Hk. now rewrite Hk. Qed.
(** [sort()] on an already strictly sorted vector changes nothing. *)
Lemma sort_keys_sorted_id l : StronglySorted klt l -> sort_keys cmp l = l.
Proof. induction l as [|k l IH]; intros H; [reflexivity|].
  cbn [sort_keys fold_right]. fold (sort_keys cmp l).
  inversion H; subst. rewrite IH by assumption. now apply sort_insert_sorted_id. Qed.

Lemma sort_insert_sorted k l : StronglySorted kle l -> StronglySorted kle (sort_insert cmp k l).
Proof. induction l as [|k' r IH]; intros H; cbn [sort_insert].
  - constructor; constructor.
  - inversion H as [|? ? Hr HF]; subst.
    assert (Hcons : kle k k' -> StronglySorted kle (k :: k' :: r)).
    { intros Hle. constructor; [exact H|]. constructor; [exact Hle|].
      eapply Forall_impl; [|exact HF]. intros z Hz. eapply kle_trans; eauto. }
    destruct (cmp k k') eqn:E.
    + apply Hcons. unfold kle. rewrite E. discriminate.
    + apply Hcons. unfold kle. rewrite E. discriminate.
    + constructor; [now apply IH|].
      eapply Permutation_Forall; [symmetry; apply sort_insert_perm|].
      constructor; [|exact HF]. unfold kle. apply cmp_gt_lt in E. rewrite E. discriminate.
Qed.
Lemma sort_keys_sorted l : StronglySorted kle (sort_keys cmp l).
Proof. induction l as [|k l IH]; cbn [sort_keys fold_right]; [constructor|]. now apply sort_insert_sorted. Qed.

(** ** dedup after sort: strictly sorted, same keys up to equivalence *)
Lemma dedup_from_sorted l : forall prev, StronglySorted kle (prev :: l) ->
  StronglySorted klt (prev :: dedup_from cmp prev l).
Proof. induction l as [|y r IH]; intros prev H; cbn [dedup_from].
  - constructor; constructor.
  - inversion H as [|? ? Hyr HF]; subst. inversion HF as [|? ? Hpy HFr]; subst.
    destruct (keq cmp prev y) eqn:E.
    + apply IH. constructor; [now inversion Hyr|exact HFr].
    + assert (Hlt : klt prev y).
      { unfold klt, kle in *. destruct (cmp prev y) eqn:E2; [|reflexivity|congruence].
        apply keq_true in E2. congruence. }
      specialize (IH y Hyr). constructor; [exact IH|].
      constructor; [exact Hlt|]. inversion IH as [|? ? _ HF2]; subst.
      eapply Forall_impl; [|exact HF2]. intros z Hz. unfold klt in *. eapply (law_trans _ L); eauto.
Qed.
Lemma dedup_keys_sorted l : StronglySorted kle l -> StronglySorted klt (dedup_keys cmp l).
Proof. destruct l as [|x r]; intros H; [constructor|]. now apply dedup_from_sorted. Qed.

Lemma dedup_from_in l : forall prev x, In x (dedup_from cmp prev l) -> In x l.
Proof. induction l as [|y r IH]; intros prev x; cbn [dedup_from]; [tauto|].
  destruct (keq cmp prev y).
  - intros H. right. eapply IH; eauto.
  - intros [H|H]; [left; exact H|right; eapply IH; eauto]. Qed.
Lemma dedup_keys_in x l : In x (dedup_keys cmp l) -> In x l.
Proof. destruct l as [|y r]; [tauto|]. intros [H|H]; [left; exact H|right; eapply dedup_from_in; eauto]. Qed.

Lemma dedup_from_covers l : forall prev x, In x l ->
  exists y, In y (prev :: dedup_from cmp prev l) /\ cmp x y = Eq.
Proof. induction l as [|y0 r IH]; intros prev x; [intros []|].
  intros [Hx|Hx]; cbn [dedup_from].
  - subst y0. destruct (keq cmp prev x) eqn:E.
    + exists prev. split; [left; reflexivity|]. apply cmp_eq_sym. now apply keq_true.
    + exists x. split; [right; left; reflexivity|apply (law_refl _ L)].
  - destruct (keq cmp prev y0) eqn:E.
    + apply IH. exact Hx.
    + destruct (IH y0 x Hx) as (y & Hy & He). exists y. split; [right; exact Hy|exact He].
Qed.
Lemma dedup_keys_covers x l : In x l -> exists y, In y (dedup_keys cmp l) /\ cmp x y = Eq.
Proof. destruct l as [|y0 r]; [intros []|]. intros [Hx|Hx].
  - subst. exists x. split; [left; reflexivity|apply (law_refl _ L)].
  - now apply dedup_from_covers. Qed.

Lemma klt_sorted_nodup l : StronglySorted klt l -> NoDup l.
Proof. induction 1 as [|x l Hs IH HF]; constructor; [|exact IH].
  intros Hin. rewrite Forall_forall in HF. apply (klt_irrefl x). now apply HF. Qed.

(** ** Association lists *)
Section Alist.
Context {V : Type}.
Definition al_sorted (m : list (K * V)) : Prop := StronglySorted (fun a b => klt (fst a) (fst b)) m.

Lemma al_sorted_keys (m : list (K * V)) : al_sorted m -> StronglySorted klt (map fst m).
Proof. induction 1 as [|a m Hs IH HF]; cbn [map]; constructor; [exact IH|].
  rewrite Forall_map. exact HF. Qed.

Lemma al_get_some k (m : list (K * V)) v : al_get cmp k m = Some v -> exists k', In (k', v) m /\ cmp k k' = Eq.
Proof. induction m as [|[k0 v0] r IH]; cbn [al_get]; [discriminate|].
  destruct (keq cmp k k0) eqn:E.
  - intros H. inversion H; subst. exists k0. split; [left; reflexivity|now apply keq_true].
  - intros H. destruct (IH H) as (k' & Hin & He). exists k'. split; [right; exact Hin|exact He]. Qed.
Lemma al_get_none k (m : list (K * V)) : al_get cmp k m = None <-> forall k' v, In (k', v) m -> cmp k k' <> Eq.
Proof. induction m as [|[k0 v0] r IH]; cbn [al_get].
  - split; [intros _ k' v []|reflexivity].
  - destruct (keq cmp k k0) eqn:E.
    + split; [discriminate|]. intros H. exfalso. apply (H k0 v0); [left; reflexivity|now apply keq_true].
    + rewrite IH. split.
      * intros H k' v [Hin|Hin]; [inversion Hin; subst; intros He; apply keq_true in He; congruence|eapply H; eauto].
      * intros H k' v Hin. eapply H. right. exact Hin. Qed.
Lemma al_get_in k v (m : list (K * V)) : al_sorted m -> In (k, v) m -> al_get cmp k m = Some v.
Proof. induction 1 as [|[k0 v0] r Hs IH HF]; [intros []|]. cbn [al_get]. intros [Hin|Hin].
  - inversion Hin; subst. now rewrite keq_refl.
  - rewrite Forall_forall in HF. specialize (HF _ Hin). cbn [fst] in HF. unfold klt in HF.
    assert (E : keq cmp k k0 = false).
    { unfold keq. apply cmp_gt_lt in HF. now rewrite HF. }
    rewrite E. now apply IH. Qed.
Lemma al_get_eqkey k k' (m : list (K * V)) : cmp k k' = Eq -> al_get cmp k m = al_get cmp k' m.
Proof. intros He. induction m as [|[k0 v0] r IH]; cbn [al_get]; [reflexivity|].
  unfold keq. rewrite (law_eq _ L k k' k0 He). now rewrite IH. Qed.
Lemma al_mem_false k (m : list (K * V)) : al_mem cmp k m = false <-> al_get cmp k m = None.
Proof. unfold al_mem. destruct (al_get cmp k m); split; congruence. Qed.

Lemma al_insert_get k k' (v : V) m :
  al_get cmp k (al_insert cmp k' v m) = if keq cmp k k' then Some v else al_get cmp k m.
Proof. induction m as [|[k0 v0] r IH]; cbn [al_insert al_get]; [reflexivity|].
  destruct (cmp k' k0) eqn:E; cbn [al_get].
  - unfold keq. rewrite (cmp_eq_r k k' k0 E). destruct (cmp k k0); reflexivity.
  - reflexivity.
  - rewrite IH. destruct (keq cmp k k0) eqn:E0; [|reflexivity].
    destruct (keq cmp k k') eqn:E1; [|reflexivity]. exfalso.
    apply keq_true in E0, E1. rewrite <- (law_eq _ L k k' k0 E1), E0 in E. discriminate. Qed.

Lemma al_insert_keys_lb x k (v : V) m : klt x k -> Forall (fun a => klt x (fst a)) m ->
  Forall (fun a => klt x (fst a)) (al_insert cmp k v m).
Proof. intros Hk. induction m as [|[k0 v0] r IH]; intros HF; cbn [al_insert].
  - constructor; [exact Hk|constructor].
  - inversion HF; subst. destruct (cmp k k0); constructor; auto. Qed.
Lemma al_insert_sorted k (v : V) m : al_sorted m -> al_sorted (al_insert cmp k v m).
Proof. induction 1 as [|[k0 v0] r Hs IH HF]; cbn [al_insert].
  - constructor; constructor.
  - destruct (cmp k k0) eqn:E.
    + constructor; [exact Hs|exact HF].
    + constructor; [constructor; [exact Hs|exact HF]|].
      constructor; [exact E|]. eapply Forall_impl; [|exact HF]. intros a Ha. cbn [fst] in *.
      unfold klt in *. eapply (law_trans _ L); eauto.
    + constructor; [exact IH|]. apply al_insert_keys_lb; [|exact HF]. cbn [fst]. now apply cmp_gt_lt. Qed.
End Alist.
End Laws.
Arguments al_sorted {K} cmp {V} m.

(** ** Lexicographic lifting *)
Section Lex.
Context {A : Type} (c : A -> A -> comparison) (LA : lawful c).
Fixpoint lex (a b : list A) : comparison :=
  match a, b with
  | [], [] => Eq
  | [], _ :: _ => Lt
  | _ :: _, [] => Gt
  | x :: a', y :: b' => match c x y with Eq => lex a' b' | r => r end
  end.
Lemma lex_lawful : lawful lex.
Proof. split.
  - induction x as [|x a IH]; cbn [lex]; [reflexivity|]. now rewrite (law_refl _ LA).
  - induction x as [|x a IH]; destruct y as [|y b]; cbn [lex]; try reflexivity.
    rewrite (law_sym _ LA x y). destruct (c x y); cbn [CompOpp]; auto.
  - induction x as [|x a IH]; destruct y as [|y b]; destruct z as [|z d]; cbn [lex]; try congruence.
    destruct (c x y) eqn:E1; try congruence.
    + rewrite (law_eq _ LA x y z E1). destruct (c y z); try congruence. apply IH.
    + intros _. destruct (c y z) eqn:E2; try congruence.
      * intros _. now rewrite <- (cmp_eq_r c LA x y z E2), E1.
      * intros _. now rewrite (law_trans _ LA x y z E1 E2).
  - induction x as [|x a IH]; destruct y as [|y b]; cbn [lex]; try congruence.
    intros z. destruct (c x y) eqn:E1; try congruence. intros H.
    destruct z as [|z d]; cbn [lex]; [reflexivity|]. rewrite (law_eq _ LA x y z E1).
    destruct (c y z); auto.
Qed.
Lemma lex_eq a b : (forall x y, c x y = Eq -> x = y) -> lex a b = Eq -> a = b.
Proof. intros Hc. revert b. induction a as [|x a IH]; destruct b as [|y b]; cbn [lex]; try congruence.
  destruct (c x y) eqn:E; try congruence. intros H. f_equal; auto. Qed.
End Lex.

Lemma Zcompare_lawful : lawful Z.compare.
Proof. split.
  - apply Z.compare_refl.
  - intros x y. apply Z.compare_antisym.
  - intros x y z. rewrite !Z.compare_lt_iff. lia.
  - intros x y z H. apply Z.compare_eq in H. now subst. Qed.

Lemma bytes_cmp_lex a b : bytes_cmp a b = lex Z.compare a b.
Proof. revert b. induction a as [|x a IH]; destruct b as [|y b]; cbn [bytes_cmp lex]; try reflexivity; now rewrite IH. Qed.
Lemma bytes_cmp_lawful : lawful bytes_cmp.
Proof. pose proof (lex_lawful Z.compare Zcompare_lawful) as [R S T E].
  split; intros; rewrite ?bytes_cmp_lex in *; eauto. Qed.
Lemma bytes_cmp_eq a b : bytes_cmp a b = Eq -> a = b.
Proof. rewrite bytes_cmp_lex. apply lex_eq. apply Z.compare_eq. Qed.

Lemma comp_cmp_lawful : lawful comp_cmp.
Proof. pose proof bytes_cmp_lawful as [R S T E]. split.
  - intros [| | |s]; cbn; auto.
  - intros [| | |s] [| | |s']; cbn; auto.
  - intros [| | |s] [| | |s'] [| | |s'']; cbn; try congruence. apply T.
  - intros [| | |s] [| | |s'] [| | |s'']; cbn; try congruence. apply E.
Qed.
Lemma comp_cmp_eq a b : comp_cmp a b = Eq -> a = b.
Proof. destruct a as [| | |s], b as [| | |s']; cbn; try congruence. intros H. f_equal. now apply bytes_cmp_eq. Qed.

Lemma comps_cmp_lex a b : comps_cmp a b = lex comp_cmp a b.
Proof. revert b. induction a as [|x a IH]; destruct b as [|y b]; cbn [comps_cmp lex]; try reflexivity; now rewrite IH. Qed.

(** [PathBuf]'s order is lawful; two paths compare Equal iff they have the same components. *)
Lemma path_cmp_lawful : lawful path_cmp.
Proof. pose proof (lex_lawful comp_cmp comp_cmp_lawful) as [R S T E].
  unfold path_cmp. split; intros; rewrite ?comps_cmp_lex in *; eauto. Qed.
Lemma path_cmp_eq a b : path_cmp a b = Eq <-> components a = components b.
Proof. unfold path_cmp. rewrite comps_cmp_lex. split.
  - apply lex_eq. apply comp_cmp_eq.
  - intros ->. apply (law_refl _ (lex_lawful comp_cmp comp_cmp_lawful)). Qed.
